"""Static extractor for C32 (T-src): which fields of which Python AST node kinds are read,
guarded by a rejection, forwarded or never looked at by the CFG builders and the checkers
of the guppylang tree at `bootstrap.REPO`.

Output (plain Python data, rendered to Lean by c32.translate):

  grammar   : [(kind, category, field, ftype, quant)]   from CPython's `ast` class docstrings (ASDL)
  visits    : [(visitor, kind, how)]   how in explicit | identity (`return node`) | raisesInternal | raisesUser
  reads     : [(visitor, kind, field, how)]   how in read | guard   (visitor "aux" for product kinds)
  forwards  : [(visitor, kind)]        visit_K that may fall back to NodeTransformer.generic_visit
  generic   : [(visitor, how)]         how in rejects | forwards | fallback | other

The analysis is a light flow-insensitive type inference over the visitor sources: a variable is
known to hold node kind K through parameter annotations (`ast.K`, `list[ast.K]`, a class of
nodes.py deriving from `ast.K`), through the `visit_K` naming convention, through attribute
chains typed by the ASDL (`func_def.args.vararg` : arg), through iteration / indexing of
list-typed fields and through `cast(ast.K, …)`.  Every `X.f` load with X : K is a *read* of
(K, f) — except a same-name keyword copy into a constructor of a subclass of K
(`decorator_list=func_def.decorator_list`, `**dict(ast.iter_fields(node))`), which moves the field
without looking at it.  A read that only occurs in the test of an `if` whose body raises is a
*guard*.  Calls that pass a typed variable to a function of the analysed files are followed.
"""
from __future__ import annotations

import ast
import os
import re
import warnings

FILES = [
    "tys/parsing.py",
    "cfg/builder.py",
    "checker/func_checker.py",
    "checker/stmt_checker.py",
    "checker/expr_checker.py",
    "compiler/expr_compiler.py",
]
# Guppy's own node classes that stand for a grammar node without deriving from it (same field names)
CUSTOM_ALIAS = {"DesugaredGenerator": "comprehension"}
STAGE_OF = {"cfg/builder.py": "builder", "checker/func_checker.py": "checker", "checker/stmt_checker.py": "checker",
            "checker/expr_checker.py": "checker", "compiler/expr_compiler.py": "compiler", "tys/parsing.py": "parsing"}
NODES_FILE = "nodes.py"
VISITORS = ["CFGBuilder", "ExprBuilder", "BranchBuilder", "StmtChecker", "ExprSynthesizer", "ExprChecker"]


# ------------------------------------------------------------------ grammar (CPython ASDL)
def python_grammar():
    """[(kind, category, field, ftype, quant)] for every concrete, non-deprecated ast class."""
    rows = []
    kinds = {}

    def rec(c):
        for s in c.__subclasses__():
            yield s
            yield from rec(s)

    with warnings.catch_warnings():
        warnings.simplefilter("ignore")
        for c in sorted(set(rec(ast.AST)), key=lambda c: c.__name__):
            if c.__module__ != "ast":
                continue
            doc = c.__doc__ or ""
            if doc.startswith("Deprecated") or c.__subclasses__() and "=" in doc.split("(")[0]:
                continue
            name = c.__name__
            m = re.match(r"^" + re.escape(name) + r"(?:\((.*)\))?$", doc.strip(), re.S)
            if m is None:
                continue
            cat = c.__mro__[1].__name__
            if cat == "AST":
                cat = name  # product type: its own category
            if cat in ("mod", "type_ignore") or name == "type_ignore":
                continue
            kinds[name] = cat
            if m.group(1):
                for part in m.group(1).split(","):
                    t, f = part.strip().split()
                    quant = "1"
                    if t[-1] in "*?":
                        quant, t = t[-1], t[:-1]
                    rows.append((name, cat, f, t, quant))
                    assert f in c._fields
            else:
                rows.append((name, cat, "", "", "0"))
    return rows, kinds


# ------------------------------------------------------------------ the analysis
class Analysis:
    def __init__(self, repo_src: str):
        self.root = repo_src
        self.grammar, self.kinds = python_grammar()
        self.fields = {}
        for k, _c, f, t, q in self.grammar:
            if f:
                self.fields.setdefault(k, {})[f] = (t, q)
        self.funcs = {}      # name -> (FunctionDef, owner class or None)
        self.methods = {}    # (class, name) -> FunctionDef
        self.classes = {}    # class name -> [base names]
        self.sub_of = {}     # custom node class -> ast kind it derives from
        self.reads = set()   # (visitor, kind, field, how)
        self.visits = []
        self.forwards = set()
        self.generic = []
        self.fn_stage = {}      # id(FunctionDef) -> stage
        self.list_reads = set() # (stage, kind, field, whole | index | test)
        self._load()

    def _load(self):
        src = open(os.path.join(self.root, NODES_FILE)).read()
        for n in ast.parse(src).body:
            if isinstance(n, ast.ClassDef):
                for b in n.bases:
                    if isinstance(b, ast.Attribute) and isinstance(b.value, ast.Name) and b.value.id == "ast":
                        if b.attr in self.kinds and self.kinds[b.attr] in ("stmt", "expr") and b.attr in self.fields:
                            self.sub_of[n.name] = b.attr
                if n.name in CUSTOM_ALIAS:
                    self.sub_of[n.name] = CUSTOM_ALIAS[n.name]
        for rel in FILES:
            tree = ast.parse(open(os.path.join(self.root, rel)).read())
            top = list(tree.body)
            for n in tree.body:
                if isinstance(n, ast.If):  # `if sys.version_info >= (3, 12): def parse_parameter…`
                    top += n.body + n.orelse
            for n in top:
                if isinstance(n, ast.FunctionDef):
                    self.funcs[n.name] = (n, None)
                    self.fn_stage[id(n)] = STAGE_OF.get(rel, "other")
                elif isinstance(n, ast.ClassDef):
                    self.classes[n.name] = [ast.unparse(b) for b in n.bases]
                    for m in n.body:
                        if isinstance(m, ast.FunctionDef):
                            self.methods.setdefault((n.name, m.name), []).append(m)
                            self.fn_stage[id(m)] = STAGE_OF.get(rel, "other")

    # ---- type expressions ---------------------------------------------------------------
    def ann_type(self, a):
        """annotation AST -> set of (kind, is_list)"""
        if a is None:
            return set()
        if isinstance(a, ast.Constant) and isinstance(a.value, str):
            try:
                a = ast.parse(a.value, mode="eval").body
            except SyntaxError:
                return set()
        if isinstance(a, ast.BinOp) and isinstance(a.op, ast.BitOr):
            return self.ann_type(a.left) | self.ann_type(a.right)
        if isinstance(a, ast.Attribute) and isinstance(a.value, ast.Name) and a.value.id == "ast":
            if a.attr in self.kinds:
                return {(a.attr, False)}
            return set()
        if isinstance(a, ast.Name):
            if a.id in self.sub_of:
                return {(self.sub_of[a.id], False)}
            return set()
        if isinstance(a, ast.Subscript) and isinstance(a.value, ast.Name) and a.value.id in ("list", "Sequence", "Iterable"):
            return {(k, True) for k, l in self.ann_type(a.slice) if not l}
        return set()

    def field_type(self, kind, f):
        ft = self.fields.get(kind, {}).get(f)
        if ft is None:
            return set()
        t, q = ft
        if t in self.fields and self.kinds.get(t) == t:  # product type: arguments, arg, keyword, …
            return {(t, q == "*")}
        return set()

    # ---- function analysis --------------------------------------------------------------
    def analyse(self, fn: ast.FunctionDef, owner, bind: dict, sink, depth=0, seen=None):
        """`bind`: parameter name -> set of (kind, is_list).  `sink(kind, field, how)` records a read."""
        seen = seen or set()
        key = (id(fn), tuple(sorted((k, tuple(sorted(v))) for k, v in bind.items())))
        if key in seen or depth > 4:
            return
        seen = seen | {key}
        env = {}
        args = fn.args.posonlyargs + fn.args.args + fn.args.kwonlyargs
        for a in args:
            t = self.ann_type(a.annotation)
            if t:
                env[a.arg] = set(t)
        for k, v in bind.items():
            env[k] = set(v)
        guards = self._guard_nodes(fn)
        copies = self._copy_nodes(fn, env)

        def typeof(e):
            if isinstance(e, ast.Name):
                return env.get(e.id, set())
            if isinstance(e, ast.Attribute):
                out = set()
                for k, l in typeof(e.value):
                    if not l:
                        out |= self.field_type(k, e.attr)
                return out
            if isinstance(e, ast.Subscript):
                base = typeof(e.value)
                if isinstance(e.slice, ast.Slice):
                    return base
                return {(k, False) for k, l in base if l}
            if isinstance(e, ast.Call):
                fname = e.func.id if isinstance(e.func, ast.Name) else None
                if fname == "cast" and len(e.args) == 2:
                    return self.ann_type(e.args[0])
                if fname in ("with_loc",) and len(e.args) == 2:
                    return typeof(e.args[1])
                if fname in ("list", "reversed", "sorted") and e.args:
                    return typeof(e.args[0])
                if fname == "deepcopy" or (isinstance(e.func, ast.Attribute) and e.func.attr == "deepcopy"):
                    return typeof(e.args[0]) if e.args else set()
            if isinstance(e, ast.NamedExpr):
                return typeof(e.value)
            return set()

        def bind_target(tgt, ty):
            if isinstance(tgt, ast.Name) and ty:
                env.setdefault(tgt.id, set()).update(ty)
            elif isinstance(tgt, (ast.Tuple, ast.List)) and ty:
                # `[x] = xs` / `a, *b = xs` over a list-typed value
                el = {(k, False) for k, l in ty if l}
                for t in tgt.elts:
                    if isinstance(t, ast.Starred):
                        bind_target(t.value, {(k, True) for k, _ in el})
                    else:
                        bind_target(t, el)

        def elem_of_iter(it):
            """element type of an iterable expression (enumerate/zip aware) as a list of per-target types"""
            if isinstance(it, ast.Call) and isinstance(it.func, ast.Name):
                if it.func.id == "enumerate" and it.args:
                    return [set(), {(k, False) for k, l in typeof(it.args[0]) if l}]
                if it.func.id == "zip":
                    return [{(k, False) for k, l in typeof(a) if l} for a in it.args]
            return {(k, False) for k, l in typeof(it) if l}

        def bind_loop(tgt, it):
            el = elem_of_iter(it)
            if isinstance(el, list):
                if isinstance(tgt, (ast.Tuple, ast.List)):
                    for t, ty in zip(tgt.elts, el):
                        if isinstance(t, ast.Name) and ty:
                            env.setdefault(t.id, set()).update(ty)
            elif isinstance(tgt, ast.Name) and el:
                env.setdefault(tgt.id, set()).update(el)

        # isinstance(x, ast.K | ast.K2) narrows x (flow-insensitively: x may hold K somewhere here)
        for n in ast.walk(fn):
            if isinstance(n, ast.Call) and isinstance(n.func, ast.Name) and n.func.id == "isinstance" and len(n.args) == 2:
                if isinstance(n.args[0], ast.Name):
                    t = self.ann_type(n.args[1])
                    if t:
                        env.setdefault(n.args[0].id, set()).update(t)
            # `if isinstance(x, ast.A | ast.B): raise …`  rejects the kinds A, B wholesale
            if isinstance(n, ast.If) and n.body and isinstance(n.body[-1], ast.Raise):
                c = n.test
                if isinstance(c, ast.Call) and isinstance(c.func, ast.Name) and c.func.id == "isinstance" and len(c.args) == 2:
                    for k, _l in self.ann_type(c.args[1]):
                        for f in self.fields.get(k, {}):
                            sink(k, f, "guard")
        # two passes so that later uses see bindings made anywhere (flow-insensitive)
        for _ in range(2):
            for n in ast.walk(fn):
                if isinstance(n, ast.Assign):
                    for t in n.targets:
                        if isinstance(t, (ast.Tuple, ast.List)) and isinstance(n.value, ast.Tuple) and len(t.elts) == len(n.value.elts):
                            for tt, vv in zip(t.elts, n.value.elts):
                                bind_target(tt, typeof(vv))
                        else:
                            bind_target(t, typeof(n.value))
                elif isinstance(n, ast.NamedExpr):
                    bind_target(n.target, typeof(n.value))
                elif isinstance(n, ast.For):
                    bind_loop(n.target, n.iter)
                elif isinstance(n, ast.comprehension):
                    bind_loop(n.target, n.iter)
                elif isinstance(n, ast.Match):
                    self._bind_match(n, typeof, env)

        parent = {}
        for n in ast.walk(fn):
            for c in ast.iter_child_nodes(n):
                parent[id(c)] = n

        def list_read_kind(n):
            """how a list-typed field is consumed: element by constant index, as a truth value / length, or whole"""
            p = parent.get(id(n))
            if isinstance(p, ast.Subscript) and p.value is n and isinstance(p.slice, ast.Constant):
                return "index"
            q, c = p, n
            while isinstance(q, (ast.BoolOp, ast.UnaryOp)):
                q, c = parent.get(id(q)), q
            if isinstance(q, (ast.If, ast.While, ast.IfExp)) and q.test is c:
                return "test"
            if isinstance(p, ast.Call) and isinstance(p.func, ast.Name) and p.func.id in ("len", "bool"):
                return "test"
            if isinstance(p, ast.Compare):
                return "test"
            return "whole"

        stage = self.fn_stage.get(id(fn), "other")
        for n in ast.walk(fn):
            if isinstance(n, ast.Attribute) and isinstance(n.ctx, ast.Load):
                if id(n) in copies:
                    continue
                for k, l in typeof(n.value):
                    if not l and n.attr in self.fields.get(k, {}):
                        sink(k, n.attr, "guard" if id(n) in guards else "read")
                        if self.fields[k][n.attr][1] == "*" and id(n) not in guards:
                            self.list_reads.add((stage, k, n.attr, list_read_kind(n)))
            elif isinstance(n, ast.Match):
                self._match_reads(n, typeof, sink)
            elif isinstance(n, ast.Call):
                self._follow_call(n, owner, typeof, sink, depth, seen)

    def _guard_nodes(self, fn):
        """ids of Attribute nodes that only serve a rejection: inside the test or body of an `if`
        whose body ends in `raise`, or inside a `raise` statement"""
        out = set()
        for n in ast.walk(fn):
            if isinstance(n, ast.If) and n.body and isinstance(n.body[-1], ast.Raise):
                for part in [n.test, *n.body]:
                    for a in ast.walk(part):
                        if isinstance(a, ast.Attribute):
                            out.add(id(a))
            elif isinstance(n, ast.Raise):
                for a in ast.walk(n):
                    if isinstance(a, ast.Attribute):
                        out.add(id(a))
        return out

    def _copy_nodes(self, fn, env):
        """ids of Attribute nodes that are same-name keyword copies into a constructor of a
        (sub)class of an ast kind (`CheckedNestedFunctionDef(..., returns=func_def.returns)`)"""
        out = set()
        for n in ast.walk(fn):
            if isinstance(n, ast.Call):
                cname = n.func.id if isinstance(n.func, ast.Name) else None
                if cname in self.sub_of:
                    for kw in n.keywords:
                        if kw.arg and isinstance(kw.value, ast.Attribute) and kw.value.attr == kw.arg:
                            out.add(id(kw.value))
        return out

    def _bind_match(self, m, typeof, env):
        for case in m.cases:
            for p in ast.walk(case.pattern):
                if isinstance(p, ast.MatchAs) and p.name and isinstance(p.pattern, ast.MatchClass):
                    t = self.ann_type(p.pattern.cls)
                    if t:
                        env.setdefault(p.name, set()).update(t)

    def _match_reads(self, m, typeof, sink):
        for case in m.cases:
            for p in ast.walk(case.pattern):
                if isinstance(p, ast.MatchClass):
                    for k, _l in self.ann_type(p.cls):
                        for attr in p.kwd_attrs:
                            if attr in self.fields.get(k, {}):
                                sink(k, attr, "read")

    def _follow_call(self, call, owner, typeof, sink, depth, seen):
        targets = []
        if isinstance(call.func, ast.Name) and call.func.id in self.funcs:
            targets = [(self.funcs[call.func.id][0], None, 0)]
        elif isinstance(call.func, ast.Attribute) and isinstance(call.func.value, ast.Name) and call.func.value.id in ("self", "cls"):
            for cls in self._mro(owner):
                if (cls, call.func.attr) in self.methods:
                    targets = [(m, cls, 1) for m in self.methods[(cls, call.func.attr)]]
                    break
        elif isinstance(call.func, ast.Attribute) and isinstance(call.func.value, ast.Name) and call.func.value.id in self.classes:
            cls = call.func.value.id
            if (cls, call.func.attr) in self.methods:
                m = self.methods[(cls, call.func.attr)][0]
                static = any(ast.unparse(d) in ("staticmethod",) for d in m.decorator_list)
                targets = [(m, cls, 0 if static else 1)]
        for fn, cls, skip in targets:
            params = [a.arg for a in fn.args.posonlyargs + fn.args.args][skip:]
            bind = {}
            for p, a in zip(params, call.args):
                t = typeof(a)
                if t:
                    bind[p] = t
            for kw in call.keywords:
                if kw.arg:
                    t = typeof(kw.value)
                    if t:
                        bind[kw.arg] = t
            if bind:
                # singledispatch registrations: keep only implementations whose annotation is compatible
                ann = {a.arg: self.ann_type(a.annotation) for a in fn.args.args}
                ok = all(not ann.get(p) or (ann[p] & t) for p, t in bind.items())
                if ok:
                    bind = {p: (t & ann[p]) if ann.get(p) else t for p, t in bind.items()}
                    self.analyse(fn, cls, bind, sink, depth + 1, seen)

    def _mro(self, cls):
        out, todo = [], [cls]
        while todo:
            c = todo.pop(0)
            if c and c not in out:
                out.append(c)
                todo += [b.split("[")[0] for b in self.classes.get(c, [])]
        return out


    # ---- does a CFGBuilder statement visitor record the statement (append it to a basic block)? --------
    def record_sites(self, fn, cls, depth=0):
        """guards under which `<bb>.statements.append(<name>)` is reached in `fn` (following calls to
        methods of the same class that are handed one of fn's parameters).  Each guard is a list of
        (test AST, polarity)."""
        params = {a.arg for a in fn.args.args}
        sites = []

        def walk(stmts, guard):
            for st in stmts:
                if isinstance(st, ast.If):
                    walk(st.body, guard + [(st.test, True)])
                    walk(st.orelse, guard + [(st.test, False)])
                    continue
                for sub in ("body", "orelse", "finalbody"):
                    if isinstance(st, (ast.For, ast.While, ast.With, ast.Try)) and getattr(st, sub, None):
                        walk(getattr(st, sub), guard)
                for c in ast.walk(st) if not isinstance(st, (ast.For, ast.While, ast.With, ast.Try)) else []:
                    if not isinstance(c, ast.Call) or not isinstance(c.func, ast.Attribute):
                        continue
                    f = c.func
                    if f.attr == "append" and isinstance(f.value, ast.Attribute) and f.value.attr == "statements":
                        sites.append(guard)
                    elif (isinstance(f.value, ast.Name) and f.value.id == "self" and depth < 3
                          and any(isinstance(a, ast.Name) and a.id in params for a in c.args)):
                        for k in self._mro(cls):
                            if (k, f.attr) in self.methods:
                                for g in self.record_sites(self.methods[(k, f.attr)][0], k, depth + 1):
                                    sites.append(guard + g)
                                break

        walk(self._body(fn), [])
        return sites

    @staticmethod
    def skip_atoms(test, polarity):
        """atoms (source text) of the conjunction under which a site guarded by (test, polarity) is NOT
        reached; None if that condition is not a conjunction of literals"""
        def neg_conj(t):      # ¬t as a conjunction
            if isinstance(t, ast.BoolOp) and isinstance(t.op, ast.Or):
                out = []
                for v in t.values:
                    r = neg_conj(v)
                    if r is None:
                        return None
                    out += r
                return out
            if isinstance(t, ast.UnaryOp) and isinstance(t.op, ast.Not):
                return pos_conj(t.operand)
            if isinstance(t, ast.BoolOp):
                return None
            return ["not " + ast.unparse(t)]

        def pos_conj(t):      # t as a conjunction
            if isinstance(t, ast.BoolOp) and isinstance(t.op, ast.And):
                out = []
                for v in t.values:
                    r = pos_conj(v)
                    if r is None:
                        return None
                    out += r
                return out
            if isinstance(t, ast.BoolOp):
                return None
            if isinstance(t, ast.UnaryOp) and isinstance(t.op, ast.Not):
                return neg_conj(t.operand)
            return [ast.unparse(t)]

        return neg_conj(test) if polarity else pos_conj(test)

    def records(self):
        """[(kind, how, atoms)] for every explicit CFGBuilder.visit_K: how in always | never | guarded;
        atoms: classification of the skip condition's literals (tmpVar | isinstance | other | unanalysable)"""
        out = []
        for (cls, mname), ms in sorted(self.methods.items()):
            if cls != "CFGBuilder" or not mname.startswith("visit_"):
                continue
            kind = mname[len("visit_"):]
            if self.kinds.get(kind) != "stmt":
                continue
            sites = self.record_sites(ms[0], cls)
            if not sites:
                out.append((kind, "never", []))
            elif any(not g for g in sites):
                out.append((kind, "always", []))
            else:
                atoms = []
                if len(sites) == 1 and len(sites[0]) == 1:
                    lits = self.skip_atoms(*sites[0][0])
                else:
                    lits = None
                for a in (lits if lits is not None else ["<unanalysable>"]):
                    if re.match(r"^is_tmp_var\(", a):
                        atoms.append("tmpVar")
                    elif re.match(r"^isinstance\(", a):
                        atoms.append("isinstance")
                    elif a == "<unanalysable>":
                        atoms.append("unanalysable")
                    else:
                        atoms.append("other")
                out.append((kind, "guarded", atoms))
        return out

    # ---- drivers --------------------------------------------------------------------------
    @staticmethod
    def _body(fn):
        b = fn.body
        if b and isinstance(b[0], ast.Expr) and isinstance(b[0].value, ast.Constant) and isinstance(b[0].value.value, str):
            b = b[1:]
        return b

    def _raise_kind(self, fn):
        b = self._body(fn)
        if b and isinstance(b[0], ast.Raise) and isinstance(b[0].exc, ast.Call):
            f = b[0].exc.func
            name = f.id if isinstance(f, ast.Name) else getattr(f, "attr", "")
            if name == "InternalGuppyError":
                return "raisesInternal"
            if name in ("GuppyError", "GuppyTypeError"):
                return "raisesUser"
            return "raisesOther"
        return None

    def run(self):
        for V in VISITORS:
            for (cls, mname), ms in sorted(self.methods.items()):
                if cls != V:
                    continue
                fn = ms[0]
                if mname == "generic_visit":
                    rk = self._raise_kind(fn)
                    src = ast.unparse(fn)
                    if rk == "raisesUser":
                        how = "rejects"
                    elif "super().generic_visit" in src:
                        how = "forwards"
                    elif "_synthesize" in src or "ExprBuilder.build" in src:
                        how = "fallback"
                    else:
                        how = "other"
                    self.generic.append((V, how))
                    continue
                if not mname.startswith("visit_"):
                    continue
                kname = mname[len("visit_"):]
                kind = kname if kname in self.fields or kname in self.kinds else self.sub_of.get(kname)
                if kind is None or self.kinds.get(kind) not in ("stmt", "expr"):
                    continue  # Guppy-internal node (MakeIter, PlaceNode, …): not Python syntax
                rk = self._raise_kind(fn)
                params = [a.arg for a in fn.args.args][1:]
                body = self._body(fn)
                ident = (len(body) == 1 and isinstance(body[0], ast.Return) and isinstance(body[0].value, ast.Name)
                         and params and body[0].value.id == params[0])
                how = rk if rk in ("raisesInternal", "raisesUser") else ("identity" if ident else "explicit")
                self.visits.append((V, kind, how))
                if rk or ident:
                    continue
                if not params:
                    continue
                node_param = params[0]

                def sink(k, f, how, V=V, kind=kind):
                    if self.kinds.get(k) not in ("stmt", "expr"):   # product / pattern / handler / type_param kinds
                        self.reads.add(("aux", k, f, how))
                    elif k == kind:
                        self.reads.add((V, k, f, how))
                    else:
                        self.reads.add(("other", k, f, how))

                self.analyse(fn, V, {node_param: {(kind, False)}}, sink)
                src = ast.unparse(fn)
                if "generic_visit(" in src:
                    self.forwards.add((V, kind))
        # assignment targets: `StmtChecker._check_assign` is a functools.singledispatchmethod over the
        # target's node class; its registered implementations (+ what they call, e.g.
        # parse_unpack_pattern for `*rest`) are the third consumer of expression nodes
        for (cls, mname), ms in sorted(self.methods.items()):
            if cls != "StmtChecker":
                continue
            for fn in ms:
                if not any("_check_assign.register" in ast.unparse(d) for d in fn.decorator_list):
                    continue
                params = fn.args.args[1:]
                if not params:
                    continue
                for kind, _l in sorted(self.ann_type(params[0].annotation)):
                    self.visits.append(("AssignTarget", kind, "explicit"))

                    def tsink(k, f, how):
                        if self.kinds.get(k) == "expr":
                            self.reads.add(("AssignTarget", k, f, how))
                        elif self.kinds.get(k) not in ("stmt", "expr"):
                            self.reads.add(("aux", k, f, how))

                    self.analyse(fn, cls, {params[0].arg: {(kind, False)}}, tsink)
        # modifier items: `CFGBuilder._handle_withitem` consumes the context expression of a `with` item
        # (`dagger`, `dagger()`, `control(q, …)`, `power(n)`) itself — a fourth consumer of Call / Name nodes
        for fn in self.methods.get(("CFGBuilder", "_handle_withitem"), []):
            def msink(k, f, how):
                if self.kinds.get(k) == "expr":
                    self.reads.add(("ModifierItem", k, f, how))
                elif self.kinds.get(k) not in ("stmt", "expr"):
                    self.reads.add(("aux", k, f, how))

            self.analyse(fn, "CFGBuilder", {}, msink)
        for k in sorted({k for v, k, _f, _h in self.reads if v == "ModifierItem"}):
            self.visits.append(("ModifierItem", k, "explicit"))
        tk = {k for v, k, _h in self.visits if v == "AssignTarget"}
        for v, k, f, h in sorted(self.reads):
            if v == "AssignTarget" and k not in tk:   # e.g. Starred, handled inside the Tuple/List case
                tk.add(k)
                self.visits.append(("AssignTarget", k, "explicit"))
        # every function of the analysed files: product-kind (aux) reads through annotations only
        def aux_sink(k, f, how):
            self.reads.add(("aux" if self.kinds.get(k) not in ("stmt", "expr") else "other", k, f, how))

        for name, (fn, _o) in sorted(self.funcs.items()):
            self.analyse(fn, None, {}, aux_sink)
        for (cls, mname), ms in sorted(self.methods.items()):
            for fn in ms:
                if not mname.startswith("visit_"):
                    self.analyse(fn, cls, {}, aux_sink)
        # a (visitor, kind, field) that is both read and guarded counts as read
        rd = {(v, k, f) for v, k, f, h in self.reads if h == "read"}
        self.reads = {(v, k, f, h) for v, k, f, h in self.reads if h == "read" or (v, k, f) not in rd}
        return self


def extract(repo_root: str):
    src = os.path.join(repo_root, "guppylang-internals", "src", "guppylang_internals")
    a = Analysis(src).run()
    return {
        "grammar": sorted(a.grammar),
        "visits": sorted(set(a.visits)),
        "reads": sorted(a.reads),
        "forwards": sorted(a.forwards),
        "generic": sorted(set(a.generic)),
        "records": a.records(),
        "list_reads": sorted(a.list_reads),
    }


if __name__ == "__main__":
    import json
    import sys

    r = extract(sys.argv[1] if len(sys.argv) > 1 else "/repo")
    for k in ("visits", "reads", "forwards", "generic", "records", "list_reads"):
        print(k)
        for row in r[k]:
            print("  ", row)
    print("grammar rows", len(r["grammar"]))
