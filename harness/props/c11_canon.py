"""Canonical form of an in-memory Hugr (C11): node ids renumbered in depth-first traversal order
(children in sibling order), ops serialised with hugr's own serialiser (ops + types + signatures),
edges as sorted (src, src_port, tgt, tgt_port) tuples over the new numbering."""
from __future__ import annotations

import hashlib
import json
import re

_TMP = re.compile(r"%tmp\d+")


def canon(hugr) -> dict:
    ser = hugr._to_serial()
    j = json.loads(ser.model_dump_json()) if hasattr(ser, "model_dump_json") else ser
    nodes = j["nodes"]
    edges = j["edges"]
    # serial form numbers nodes 0..n-1 in some order; rebuild children lists from 'parent'
    kids: dict[int, list[int]] = {i: [] for i in range(len(nodes))}
    root = None
    for i, nd in enumerate(nodes):
        p = nd["parent"]
        if p == i:
            root = i
        else:
            kids[p].append(i)
    assert root is not None
    order: list[int] = []
    stack = [root]
    while stack:
        n = stack.pop()
        order.append(n)
        stack.extend(reversed(kids[n]))
    new = {old: k for k, old in enumerate(order)}
    out_nodes = []
    for old in order:
        nd = dict(nodes[old])
        nd["parent"] = new[nd["parent"]]
        out_nodes.append(nd)
    out_edges = sorted(
        [[new[e[0][0]], e[0][1], new[e[1][0]], e[1][1]] for e in edges],
        key=lambda e: (e[0], -1 if e[1] is None else e[1], e[2], -1 if e[3] is None else e[3]),
    )
    # generated symbol names: `%tmp<n>` (e.g. `static_pyarray.%tmp12`) renumbered in order of first occurrence
    ren: dict[str, str] = {}

    def rn(x):
        if isinstance(x, str):
            return _TMP.sub(lambda m: ren.setdefault(m.group(0), f"%tmp#{len(ren)}"), x) if "%tmp" in x else x
        if isinstance(x, list):
            return [rn(y) for y in x]
        if isinstance(x, dict):
            return {k: rn(v) for k, v in x.items()}
        return x

    out_nodes = rn(out_nodes)
    ep = j.get("entrypoint")
    return {"nodes": out_nodes, "edges": out_edges,
            "entrypoint": new.get(ep, ep) if isinstance(ep, int) else ep}


def digest(c: dict) -> str:
    return hashlib.sha1(json.dumps(c, sort_keys=True).encode()).hexdigest()


def summary(c: dict) -> list[str]:
    """short per-node lines used in diffs / replay files"""
    out = []
    for i, nd in enumerate(c["nodes"]):
        extra = nd.get("name") or nd.get("op_name") or ""
        out.append(f"{i}:{nd['op']}:{extra}:p{nd['parent']}")
    return out


def first_diff(a: dict, b: dict) -> str:
    if len(a["nodes"]) != len(b["nodes"]):
        return f"node count {len(a['nodes'])} vs {len(b['nodes'])}"
    for i, (x, y) in enumerate(zip(a["nodes"], b["nodes"])):
        if x != y:
            return f"node {i}: {json.dumps(x, sort_keys=True)[:300]} vs {json.dumps(y, sort_keys=True)[:300]}"
    for x, y in zip(a["edges"], b["edges"]):
        if x != y:
            return f"edge {x} vs {y}"
    if len(a["edges"]) != len(b["edges"]):
        return f"edge count {len(a['edges'])} vs {len(b['edges'])}"
    return "entrypoint/other"
