"""C02 T-src: inventory of internal-failure sites (assert / raise InternalGuppyError / raise of a non-Guppy exception /
assert_never) in the anchored checker files; written to Gen/C02InternalSites.lean on every run."""
from __future__ import annotations

import ast
import hashlib
import os

import bootstrap

FILES = [
    "checker/expr_checker.py", "checker/stmt_checker.py", "checker/cfg_checker.py", "checker/linearity_checker.py",
    "checker/func_checker.py", "cfg/builder.py", "error.py", "diagnostic.py",
]
USER_ERRORS = {"GuppyError", "GuppyTypeError", "GuppyTypeInferenceError", "GuppyComptimeError"}


def _pkg():
    return os.path.join(bootstrap.REPO, "guppylang-internals", "src", "guppylang_internals")


def _norm(s: str) -> str:
    return " ".join(s.split())[:160]


def sites() -> list[dict]:
    out = []
    for rel in FILES:
        tree = ast.parse(open(os.path.join(_pkg(), rel)).read())
        found = []

        def visit(node, qual):
            for ch in ast.iter_child_nodes(node):
                q = qual
                if isinstance(ch, (ast.FunctionDef, ast.AsyncFunctionDef, ast.ClassDef)):
                    q = (qual + "." if qual else "") + ch.name
                if isinstance(ch, ast.Assert):
                    found.append((q or "<module>", "assert", _norm(ast.unparse(ch.test))))
                elif isinstance(ch, ast.Raise) and ch.exc is not None:
                    exc = ch.exc
                    name = None
                    if isinstance(exc, ast.Call):
                        f = exc.func
                        name = f.id if isinstance(f, ast.Name) else (f.attr if isinstance(f, ast.Attribute) else None)
                        arg = _norm(ast.unparse(exc.args[0])) if exc.args else ""
                    elif isinstance(exc, ast.Name):
                        name, arg = exc.id, ""
                    if name and name not in USER_ERRORS and name[:1].isupper():
                        kind = "internal" if name == "InternalGuppyError" else "raise:" + name
                        found.append((q or "<module>", kind, arg))
                elif isinstance(ch, ast.Call) and isinstance(ch.func, ast.Name) and ch.func.id == "assert_never":
                    found.append((q or "<module>", "assert_never", _norm(ast.unparse(ch.args[0])) if ch.args else ""))
                elif isinstance(ch, ast.Call) and isinstance(ch.func, ast.Name) and ch.func.id == "zip" and any(
                        k.arg == "strict" and isinstance(k.value, ast.Constant) and k.value.value is True for k in ch.keywords):
                    # an implicit assertion: raises ValueError when the lengths differ
                    found.append((q or "<module>", "zip_strict", _norm(", ".join(ast.unparse(a) for a in ch.args))))
                visit(ch, q)

        visit(tree, "")
        # subscripts (Load) on a local that was bound to a dict display / comprehension in the same function:
        # `KeyError` when the key is missing
        for fn in ast.walk(tree):
            if not isinstance(fn, ast.FunctionDef):
                continue
            dicts = set()
            for st in ast.walk(fn):
                if isinstance(st, ast.Assign) and isinstance(st.value, (ast.DictComp, ast.Dict)):
                    for t in st.targets:
                        if isinstance(t, ast.Name):
                            dicts.add(t.id)
                if isinstance(st, ast.Assign) and isinstance(st.value, ast.Tuple) and all(
                        isinstance(e, (ast.DictComp, ast.Dict)) for e in st.value.elts):
                    for t in st.targets:
                        if isinstance(t, ast.Tuple):
                            dicts.update(e.id for e in t.elts if isinstance(e, ast.Name))
            for sub in ast.walk(fn):
                if isinstance(sub, ast.Subscript) and isinstance(sub.ctx, ast.Load) and isinstance(sub.value, ast.Name) \
                        and sub.value.id in dicts:
                    found.append((fn.name, "dict_subscript", _norm(ast.unparse(sub))))
        # A site is keyed by (file, kind, normalised text, ordinal among identical texts in the file): moving an unchanged
        # assert / raise into a helper function or reordering functions does not change the table; a new or textually changed
        # site does.  The enclosing function is kept as information only.
        seen: dict = {}
        for func, kind, text in found:
            k = (kind, text)
            occ = seen.get(k, 0)
            seen[k] = occ + 1
            key = f"{rel}|{kind}|{text}|{occ}"
            out.append({"id": int(hashlib.sha1(key.encode()).hexdigest()[:12], 16), "file": rel, "func": func,
                        "kind": kind, "text": text, "occ": occ})
    return out


def _s(x: str) -> str:
    return '"' + x.replace("\\", "\\\\").replace('"', '\\"') + '"'


def render(ss: list[dict]) -> str:
    rows = ",\n".join(f"  ⟨{s['id']}, {_s(s['file'])}, {_s(s['func'])}, {_s(s['kind'])}, {_s(s['text'])}⟩" for s in ss)
    return (
        "/-! GENERATED by harness/props/c02_translate.py from /repo's source on every run (T-src). Do not edit.\n"
        "    Every `assert`, `raise InternalGuppyError`, raise of a non-Guppy exception and `assert_never` in the anchored\n"
        "    checker files: (id = hash of file|kind|normalised text|ordinal among identical texts in the file, file, function (information only), kind, text). -/\n"
        "namespace GuppyVerif.C02\n\n"
        "structure Site where\n  id : Nat\n  file : String\n  func : String\n  kind : String\n  text : String\n  deriving Repr\n\n"
        "namespace Gen\n\n"
        f"def sites : List Site := [\n{rows}\n]\n\n"
        "/-- the ids again as a literal list (so that `decide` never has to unfold the strings of `sites`) -/\n"
        f"def siteIds : List Nat := [{', '.join(str(x['id']) for x in ss)}]\n\n"
        "end Gen\nend GuppyVerif.C02\n"
    )


if __name__ == "__main__" and not any(a.startswith("--") for a in __import__("sys").argv[1:]):
    bootstrap.install()
    ss = sites()
    import collections
    print(len(ss), collections.Counter(s["kind"] for s in ss), collections.Counter(s["file"] for s in ss))


# ------------------------------------------------------------------------------------------------------------------
# one-off helper (NOT run by the check): `python c02_translate.py --spec` prints a fresh lean/GuppyVerif/Spec/C02.lean for
# the current inventory from the hand-written rules below.  Spec/C02.lean is committed; when the inventory changes the
# theorems of Props/C02.lean stop checking until a human classifies the new sites (re-run this and review the diff).
GUARD_RULES = [
    # (file suffix, kind, text substring) -> Guard constructor   (no function names: see the site key)
    (("cfg_checker.py", "dict_subscript", "map1[x]"), "useDefNoInternalError"),
    (("cfg_checker.py", "dict_subscript", "map2[x]"), "useDefNoInternalError"),
    (("cfg_checker.py", "assert", "branch_pred is not None"), "twoSuccessorsHavePred"),
    (("linearity_checker.py", "assert", "branch_pred is not None"), "twoSuccessorsHavePred"),
    (("expr_checker.py", "zip_strict", "inputs, func_ty.inputs"), "arityChecked"),
    (("expr_checker.py", "internal", "is not defined in `TypeSynthesiser`"), "namesResolved"),
]
# Deliberately NOT guarded (audit F5): the "BB contains BoolOp/IfExp/NamedExpr/chained comparison" sites (C03 `bld_residual` is about the
# returned residual of one value-mode build, not about every expression stored in the blocks of `buildCfg`), "Break/Continue BB not
# defined" (C03 `break_continue_target_innermost_loop` unfolds `.while` only, no `loopScoped p -> no error` theorem), and the
# `compiled[bb]` subscripts of check_cfg (C08 `no_internal_error` is about check_rows_match's lookups and the queue index, not about every
# reachable block having been compiled).
WHY = {
    "assert": "assertion on an internal invariant; no model",
    "internal": "explicit InternalGuppyError on an internal invariant; no model",
    "assert_never": "exhaustiveness of a match (typing argument); no model",
    "zip_strict": "implicit length assertion of zip(strict=True); lengths established by the caller, no model",
    "dict_subscript": "dictionary key presence established elsewhere; no model",
}


def spec_text(ss: list[dict]) -> str:
    rows = []
    for s in ss:
        g = None
        for (fsuf, kind, sub), guard in GUARD_RULES:
            if s["file"].endswith(fsuf) and s["kind"] == kind and sub in s["text"]:
                g = guard
        cls = f".guarded .{g}" if g else f".unmodelled {_s(WHY.get(s['kind'], 'deliberate non-Guppy exception (API misuse / environment); no model'))}"
        rows.append(f"  ({s['id']}, {cls}),  -- {s['file']} {s['func']} [{s['kind']}] {s['text'][:70]}")
    return "\n".join(rows)


if __name__ == "__main__" and "--spec" in __import__("sys").argv:
    print(spec_text(sites()))


def write_spec() -> None:
    """rewrite the table and the literal id list of Spec/C02.lean in place from GUARD_RULES (review the diff!)"""
    import re
    path = os.path.join(os.path.dirname(os.path.dirname(os.path.dirname(os.path.abspath(__file__)))), "lean", "GuppyVerif", "Spec", "C02.lean")
    ss = sites()
    rows = spec_text(ss).split("\n")
    rows[-1] = rows[-1].replace("),  -- ", ")  -- ", 1)
    txt = open(path).read()
    txt = re.sub(r"(def classification : List \(Nat × Class\) := \[\n).*?(\n\]\n)", lambda m: m.group(1) + "\n".join(rows) + m.group(2), txt, flags=re.S)
    txt = re.sub(r"def classifiedIds : List Nat := \[.*?\]", "def classifiedIds : List Nat := [" + ", ".join(str(s["id"]) for s in ss) + "]", txt, flags=re.S)
    open(path, "w").write(txt)


if __name__ == "__main__" and "--write-spec" in __import__("sys").argv:
    write_spec()
