"""C11 T-src: read the facts the session theorems depend on off /repo's source (ast), write Gen/C11Config.lean."""
from __future__ import annotations

import ast
import os

import bootstrap


def _pkg():
    return os.path.join(bootstrap.REPO, "guppylang-internals", "src", "guppylang_internals")


def _parse(rel):
    p = os.path.join(_pkg(), rel)
    return ast.parse(open(p).read(), p)


def _func(tree, name, cls=None):
    for n in ast.walk(tree):
        if cls and isinstance(n, ast.ClassDef) and n.name == cls:
            for m in n.body:
                if isinstance(m, ast.FunctionDef) and m.name == name:
                    return m
        if not cls and isinstance(n, ast.FunctionDef) and n.name == name:
            return n
    return None


def _is_self_call(st, meth):
    return (isinstance(st, ast.Expr) and isinstance(st.value, ast.Call) and isinstance(st.value.func, ast.Attribute)
            and st.value.func.attr == meth and isinstance(st.value.func.value, ast.Name) and st.value.func.value.id == "self"
            and not st.value.args)


def _is_empty_container(v) -> bool:
    """`{}`, `[]`, `set()`, `dict()`, `list()`, `defaultdict(<factory>)`, `OrderedDict()` ...: a NEW empty container"""
    if isinstance(v, ast.Dict):
        return not v.keys
    if isinstance(v, (ast.List, ast.Set, ast.Tuple)):
        return not v.elts
    if isinstance(v, ast.Call) and not v.keywords:
        fn = v.func.attr if isinstance(v.func, ast.Attribute) else (v.func.id if isinstance(v.func, ast.Name) else None)
        if fn in ("set", "dict", "list", "OrderedDict", "deque"):
            return not v.args
        if fn == "defaultdict":
            # defaultdict(factory) is empty; defaultdict(factory, initial) is not
            return len(v.args) <= 1
    return False


def _self_attr_call(node, attr, meths):
    """`self.<attr>.<meth>(...)` with meth in meths -> the Call node, else None"""
    if isinstance(node, ast.Call) and isinstance(node.func, ast.Attribute) and node.func.attr in meths \
            and isinstance(node.func.value, ast.Attribute) and node.func.value.attr == attr \
            and isinstance(node.func.value.value, ast.Name) and node.func.value.value.id == "self":
        return node
    return None


def _parsing_balanced(eng) -> bool:
    """every `self.parsing.add(x)` in CompilationEngine is a statement directly followed by a `try` whose
    `finally` does `self.parsing.discard(x)` / `.remove(x)` for the same x; `parsing` is not grown in any other way.
    Vacuously true if nothing is ever added."""
    cls = next((n for n in ast.walk(eng) if isinstance(n, ast.ClassDef) and n.name == "CompilationEngine"), None)
    if cls is None:
        return False
    grow = ("add", "update", "__ior__", "union_update")
    total = sum(1 for n in ast.walk(cls) if _self_attr_call(n, "parsing", grow))
    for n in ast.walk(cls):  # `self.parsing |= ...`, `self.parsing = <non-empty>` outside reset()/__init__
        if isinstance(n, ast.AugAssign) and isinstance(n.target, ast.Attribute) and n.target.attr == "parsing":
            total += 1
    ok = 0
    for n in ast.walk(cls):
        for fld in ("body", "orelse", "finalbody"):
            body = getattr(n, fld, None)
            if not isinstance(body, list):
                continue
            for i, st in enumerate(body):
                c = _self_attr_call(st.value, "parsing", ("add",)) if isinstance(st, ast.Expr) else None
                if c is None or len(c.args) != 1:
                    continue
                nxt = body[i + 1] if i + 1 < len(body) else None
                if isinstance(nxt, ast.Try) and any(
                        isinstance(x, ast.Expr) and (d := _self_attr_call(x.value, "parsing", ("discard", "remove")))
                        and len(d.args) == 1 and ast.dump(d.args[0]) == ast.dump(c.args[0]) for x in nxt.finalbody):
                    ok += 1
    return ok == total


def _check_restarts_tmp(chk) -> bool:
    """`check` calls `tmp_vars.reset()` directly after `self.reset()` (imports in between allowed), and
    cfg/builder.py's `tmp_vars` is an instance of a class whose `reset` starts a new `itertools.count()`"""
    if chk is None:
        return False
    sts = [st for st in chk.body if not (isinstance(st, ast.Expr) and isinstance(st.value, ast.Constant))
           and not isinstance(st, (ast.Import, ast.ImportFrom))]
    if len(sts) < 2 or not _is_self_call(sts[0], "reset"):
        return False
    st = sts[1]
    if not (isinstance(st, ast.Expr) and isinstance(st.value, ast.Call) and isinstance(st.value.func, ast.Attribute)
            and st.value.func.attr == "reset" and isinstance(st.value.func.value, ast.Name)
            and st.value.func.value.id == "tmp_vars" and not st.value.args):
        return False
    b = _parse(os.path.join("cfg", "builder.py"))
    cname = None
    for st in b.body:
        tgt, val = None, None
        if isinstance(st, ast.Assign) and len(st.targets) == 1 and isinstance(st.targets[0], ast.Name):
            tgt, val = st.targets[0].id, st.value
        elif isinstance(st, ast.AnnAssign) and isinstance(st.target, ast.Name):
            tgt, val = st.target.id, st.value
        if tgt == "tmp_vars" and isinstance(val, ast.Call) and isinstance(val.func, ast.Name) and not val.args:
            cname = val.func.id
    cls = next((n for n in b.body if isinstance(n, ast.ClassDef) and n.name == cname), None)
    if cls is None:
        return False

    def count_attr(meth):
        m = next((x for x in cls.body if isinstance(x, ast.FunctionDef) and x.name == meth), None)
        if m is None:
            return None
        for x in m.body:
            if isinstance(x, ast.Assign) and len(x.targets) == 1 and isinstance(x.targets[0], ast.Attribute) \
                    and isinstance(x.targets[0].value, ast.Name) and x.targets[0].value.id == "self" and _is_count(x.value):
                return x.targets[0].attr
        return None
    a = count_attr("reset")
    return a is not None and a == count_attr("__init__")


def _is_count(v) -> bool:
    return isinstance(v, ast.Call) and not v.args and (
        (isinstance(v.func, ast.Attribute) and v.func.attr == "count") or (isinstance(v.func, ast.Name) and v.func.id == "count"))


_MUTATORS = {"add", "append", "update", "setdefault", "pop", "popitem", "clear", "extend", "insert", "remove", "discard",
             "__setitem__", "appendleft", "move_to_end"}
_CONTAINERS = ("dict", "list", "set", "defaultdict", "OrderedDict", "deque", "WeakKeyDictionary", "WeakValueDictionary",
               "WeakSet", "Counter", "ChainMap")


def _callee(v):
    if isinstance(v, ast.Call):
        return v.func.attr if isinstance(v.func, ast.Attribute) else (v.func.id if isinstance(v.func, ast.Name) else None)
    return None


def _is_container_expr(v) -> bool:
    return isinstance(v, (ast.Dict, ast.List, ast.Set, ast.DictComp, ast.ListComp, ast.SetComp)) or _callee(v) in _CONTAINERS


def _session_globals() -> list[str]:
    """SYNTACTIC inventory of state outside one `check`/`compile` call, over both packages (`guppylang_internals`
    and `guppylang`, entries of the latter prefixed `guppylang/`).  What is listed:
      (a) module- or class-level names bound to a container literal / comprehension / one of `_CONTAINERS`
          constructors that some function of the same module mutates (subscript store or del, mutating method,
          augmented assignment, `global`);
      (b) functions memoised by functools.cache / lru_cache (cached_property is per object, not listed);
      (c) module-level INSTANCES of a class of the two packages (singletons such as DEF_STORE, ENGINE): one entry per
          attribute that any method of the class assigns a container to, followed through nested instances
          (DEF_STORE.sources.sources); module-level `ContextVar`s;
      (d) module-level names rebound through a `global` statement;
      (e) stores into an attribute of a capitalised name other than self/cls from inside a function (class
          attributes, monkey patches such as `Hugr.add_node = ...`);
      (f) mutable default arguments (container expression or instance of a class with container attributes).
    NOT seen: state reached through `setattr`/`__dict__`/`vars()`, function attributes, closures, containers bound under
    another constructor name, instances created by a factory function, C-level caches (linecache, sys.modules), and
    anything outside the two packages (hugr, tket)."""
    roots = [("", _pkg()), ("guppylang/", os.path.join(bootstrap.REPO, "guppylang", "src", "guppylang"))]
    trees: dict[str, ast.AST] = {}
    for pre, root in roots:
        for r, _d, files in os.walk(root):
            for fn in sorted(files):
                if fn.endswith(".py"):
                    p = os.path.join(r, fn)
                    trees[pre + os.path.relpath(p, root)] = ast.parse(open(p).read(), p)
    classes: dict[str, list] = {}
    for t in trees.values():
        for c in ast.walk(t):
            if isinstance(c, ast.ClassDef):
                classes.setdefault(c.name, []).append(c)

    def class_attrs(name, seen=()):
        res = []
        if name in seen:
            return res
        for c in classes.get(name, []):
            for m in c.body:
                if not isinstance(m, ast.FunctionDef):
                    continue
                for n in ast.walk(m):
                    if isinstance(n, ast.Assign) and len(n.targets) == 1:
                        tg, v = n.targets[0], n.value
                    elif isinstance(n, ast.AnnAssign) and n.value is not None:
                        tg, v = n.target, n.value
                    else:
                        continue
                    if isinstance(tg, ast.Attribute) and isinstance(tg.value, ast.Name) and tg.value.id == "self":
                        if _is_container_expr(v):
                            res.append(tg.attr)
                        elif _callee(v) in classes:
                            res += [tg.attr + "." + x for x in class_attrs(_callee(v), seen + (name,))]
        return sorted(set(res))

    out = []
    for rel, tree in trees.items():
        names: dict[str, str] = {}

        def scan(body, prefix):
            for st in body:
                t, v = None, None
                if isinstance(st, ast.Assign) and len(st.targets) == 1 and isinstance(st.targets[0], ast.Name):
                    t, v = st.targets[0].id, st.value
                elif isinstance(st, ast.AnnAssign) and isinstance(st.target, ast.Name) and st.value is not None:
                    t, v = st.target.id, st.value
                if t is not None and _is_container_expr(v):
                    names[t] = prefix + t
                if t is not None and not prefix:  # (c) module-level instances
                    if _callee(v) == "ContextVar":
                        out.append(f"{rel}:{t} ContextVar")
                    elif _callee(v) in classes:
                        out.extend(f"{rel}:{t}.{x}" for x in class_attrs(_callee(v)))
                if isinstance(st, ast.ClassDef):
                    scan(st.body, prefix + st.name + ".")
        scan(tree.body, "")
        mutated = set()
        for f in ast.walk(tree):
            if not isinstance(f, (ast.FunctionDef, ast.AsyncFunctionDef, ast.Lambda)):
                continue
            if not isinstance(f, ast.Lambda):
                for d in f.decorator_list:
                    dn = ast.unparse(d).split("(")[0]
                    if dn.split(".")[-1] in ("cache", "lru_cache"):
                        out.append(f"{rel}:@{dn} {f.name}")
                for d in f.args.defaults + [x for x in f.args.kw_defaults if x is not None]:  # (f)
                    if _is_container_expr(d) or (_callee(d) in classes and class_attrs(_callee(d))):
                        out.append(f"{rel}:{f.name}(default {ast.unparse(d)[:30]})")
            for n in ast.walk(f):
                b = None
                if isinstance(n, ast.Subscript) and isinstance(n.ctx, (ast.Store, ast.Del)):
                    b = n.value
                elif isinstance(n, ast.Call) and isinstance(n.func, ast.Attribute) and n.func.attr in _MUTATORS:
                    b = n.func.value
                elif isinstance(n, ast.AugAssign):
                    b = n.target
                elif isinstance(n, ast.Global):
                    mutated.update(x for x in n.names if x in names)
                    out.extend(f"{rel}:global {x}" for x in n.names)  # (d)
                if isinstance(n, (ast.Assign, ast.AugAssign)):  # (e)
                    for tg in (n.targets if isinstance(n, ast.Assign) else [n.target]):
                        if isinstance(tg, ast.Attribute) and isinstance(tg.value, ast.Name) \
                                and tg.value.id not in ("self", "cls") and tg.value.id[:1].isupper():
                            out.append(f"{rel}:{ast.unparse(tg)} set in {getattr(f, 'name', 'lambda')}")
                nm = b.id if isinstance(b, ast.Name) else (b.attr if isinstance(b, ast.Attribute) else None)
                if nm in names:
                    mutated.add(nm)
        out.extend(f"{rel}:{names[nm]}" for nm in sorted(mutated))
    return sorted(set(out))


def facts() -> dict:
    f: dict = {}
    eng = _parse("engine.py")
    # --- reset(): which attributes are reassigned to an empty container
    reset = _func(eng, "reset", "CompilationEngine")
    cleared = []
    if reset:
        for st in reset.body:
            if isinstance(st, ast.Assign) and len(st.targets) == 1:
                tgt, val = st.targets[0], st.value
            elif isinstance(st, ast.AnnAssign) and st.value is not None:
                tgt, val = st.target, st.value
            else:
                continue
            if isinstance(tgt, ast.Attribute) and isinstance(tgt.value, ast.Name) and tgt.value.id == "self" \
                    and _is_empty_container(val):
                cleared.append(tgt.attr)
    f["reset_clears"] = sorted(cleared)
    # --- attributes declared on the engine
    attrs = []
    for n in ast.walk(eng):
        if isinstance(n, ast.ClassDef) and n.name == "CompilationEngine":
            for m in n.body:
                if isinstance(m, ast.AnnAssign) and isinstance(m.target, ast.Name):
                    attrs.append(m.target.id)
            for m in ast.walk(n):
                if isinstance(m, ast.Attribute) and isinstance(m.ctx, ast.Store) and isinstance(m.value, ast.Name) \
                        and m.value.id == "self" and m.attr not in attrs:
                    attrs.append(m.attr)
    f["engine_attrs"] = sorted(attrs)
    # --- check(): first effectful statement is self.reset()
    chk = _func(eng, "check", "CompilationEngine")
    first = None
    if chk:
        for st in chk.body:
            if isinstance(st, ast.Expr) and isinstance(st.value, ast.Constant):
                continue  # docstring
            if isinstance(st, (ast.Import, ast.ImportFrom)):
                continue
            first = st
            break
    f["check_resets"] = bool(first is not None and _is_self_call(first, "reset")
                             and {"parsed", "checked"} <= set(cleared))
    # --- `parsing` (ids whose signature is being parsed): emptied by reset(); every add is undone in a `finally`
    f["reset_clears_parsing"] = ("parsing" not in attrs) or ("parsing" in cleared)
    f["parse_restores"] = _parsing_balanced(eng)
    # --- check(): the %tmp numbering is restarted right after self.reset()
    f["check_restarts_tmp"] = _check_restarts_tmp(chk)
    # --- compile_cfg: insert_return_vars only under an `if` that tests is_return_var
    cc = _func(_parse("compiler/cfg_compiler.py"), "compile_cfg")
    guarded, unguarded = 0, 0
    if cc:
        def visit(node, under):
            nonlocal guarded, unguarded
            for ch in ast.iter_child_nodes(node):
                u = under
                if isinstance(node, ast.If) and ch in node.body:
                    u = under or any(isinstance(x, ast.Name) and x.id == "is_return_var" for x in ast.walk(node.test))
                if isinstance(ch, ast.Call) and isinstance(ch.func, ast.Name) and ch.func.id == "insert_return_vars":
                    if u:
                        guarded += 1
                    else:
                        unguarded += 1
                visit(ch, u)
        visit(cc, False)
    f["return_vars_guard"] = guarded >= 1 and unguarded == 0
    # --- reads of `.input_tys` outside the checker (receiver of `.append(...)` is the known mutation, not a read)
    reads = []
    for root, _d, files in os.walk(_pkg()):
        for fn in sorted(files):
            if not fn.endswith(".py"):
                continue
            rel = os.path.relpath(os.path.join(root, fn), _pkg())
            if rel.startswith("checker" + os.sep):
                continue
            tree = _parse(rel)
            appends = set()
            for n in ast.walk(tree):
                if isinstance(n, ast.Call) and isinstance(n.func, ast.Attribute) and n.func.attr == "append" \
                        and isinstance(n.func.value, ast.Attribute) and n.func.value.attr == "input_tys":
                    appends.add(id(n.func.value))
            for n in ast.walk(tree):
                if isinstance(n, ast.Attribute) and n.attr == "input_tys" and isinstance(n.ctx, ast.Load) \
                        and id(n) not in appends:
                    reads.append(f"{rel}:{n.lineno}")
    f["input_tys_reads"] = sorted(reads)
    # --- set_tracing_state: reset in a finally that encloses the yield
    sts = _func(_parse("tracing/state.py"), "set_tracing_state")
    restored = False
    if sts:
        for n in ast.walk(sts):
            if isinstance(n, ast.Try) and n.finalbody:
                has_yield = any(isinstance(x, (ast.Yield, ast.YieldFrom)) for b in n.body for x in ast.walk(b))
                has_reset = any(isinstance(x, ast.Call) and isinstance(x.func, ast.Attribute) and x.func.attr == "reset"
                                for b in n.finalbody for x in ast.walk(b))
                restored = restored or (has_yield and has_reset)
    f["tracing_restored"] = restored
    # --- writes into a frame namespace (f_locals / f_globals / f_builtins) anywhere in the package
    writes = []
    counters = []
    for root, _d, files in os.walk(_pkg()):
        for fn in sorted(files):
            if not fn.endswith(".py"):
                continue
            rel = os.path.relpath(os.path.join(root, fn), _pkg())
            tree = _parse(rel)
            for n in ast.walk(tree):
                if isinstance(n, ast.Subscript) and isinstance(n.ctx, (ast.Store, ast.Del)) \
                        and isinstance(n.value, ast.Attribute) and n.value.attr in ("f_locals", "f_globals", "f_builtins"):
                    writes.append(f"{rel}:{n.value.attr}")
                if isinstance(n, ast.Call) and isinstance(n.func, ast.Attribute) \
                        and n.func.attr in ("update", "setdefault", "pop", "clear", "__setitem__") \
                        and isinstance(n.func.value, ast.Attribute) and n.func.value.attr in ("f_locals", "f_globals", "f_builtins"):
                    writes.append(f"{rel}:{n.func.value.attr}.{n.func.attr}")
            # session-global counters: itertools.count() at module or class level
            if rel.startswith("std" + os.sep):
                continue

            # classes of this module whose instances carry their own count() (e.g. cfg/builder.py TmpVars)
            counter_classes = {c.name for c in tree.body if isinstance(c, ast.ClassDef) and any(
                isinstance(m, ast.FunctionDef) and m.name == "__init__" and any(_is_count(x) for x in ast.walk(m))
                for m in c.body)}

            def scan(body, prefix):
                for st in body:
                    tgt, val = None, None
                    if isinstance(st, ast.Assign) and len(st.targets) == 1 and isinstance(st.targets[0], ast.Name):
                        tgt, val = st.targets[0].id, st.value
                    elif isinstance(st, ast.AnnAssign) and isinstance(st.target, ast.Name) and st.value is not None:
                        tgt, val = st.target.id, st.value
                    if tgt and any(isinstance(x, ast.Call) and (
                            (isinstance(x.func, ast.Attribute) and x.func.attr == "count") or
                            (isinstance(x.func, ast.Name) and x.func.id == "count") or
                            (isinstance(x.func, ast.Name) and x.func.id in counter_classes)) for x in ast.walk(val)):
                        counters.append(f"{rel}:{prefix}{tgt}")
                    if isinstance(st, ast.ClassDef):
                        scan(st.body, prefix + st.name + ".")
            scan(tree.body, "")
    f["session_globals"] = _session_globals()
    f["frame_writes"] = sorted(writes)
    f["counters"] = sorted(counters)
    return f


def _s(x: str) -> str:
    return '"' + x.replace("\\", "/").replace('"', "'") + '"'


def render(f: dict) -> str:
    b = lambda v: "true" if v else "false"
    ls = lambda xs: "[" + ", ".join(_s(x) for x in xs) + "]"
    return (
        "import GuppyVerif.Model.Session\n"
        "/-! GENERATED by harness/props/c11_translate.py from /repo's source on every run (T-src). Do not edit. -/\n"
        "namespace GuppyVerif.Session.Gen\n\n"
        "/-- facts read off engine.py, compiler/cfg_compiler.py, cfg/builder.py, the whole package (input_tys reads, frame writes), tracing/state.py -/\n"
        f"def config : Config :=\n  {{ checkResets := {b(f['check_resets'])},\n    returnVarsGuard := {b(f['return_vars_guard'])},\n"
        f"    compilerReadsInputTys := {b(bool(f['input_tys_reads']))},\n    tracingRestored := {b(f['tracing_restored'])},\n"
        f"    nestedRecBindsInFrame := {b(bool(f['frame_writes']))},\n"
        f"    resetClearsParsing := {b(f['reset_clears_parsing'])},\n    parseRestores := {b(f['parse_restores'])},\n"
        f"    checkRestartsTmp := {b(f['check_restarts_tmp'])} }}\n\n"
        f"/-- attributes `CompilationEngine.reset` reassigns to an empty container -/\ndef resetClears : List String := {ls(f['reset_clears'])}\n\n"
        f"/-- every attribute assigned on `self` anywhere in `CompilationEngine` -/\ndef engineAttrs : List String := {ls(f['engine_attrs'])}\n\n"
        f"/-- reads of `.input_tys` outside checker/ -/\ndef inputTysReads : List String := {ls(f['input_tys_reads'])}\n\n"
        f"/-- subscript stores / mutating calls on a frame namespace -/\ndef frameWrites : List String := {ls(f['frame_writes'])}\n\n"
        f"/-- module- or class-level `itertools.count()` counters (outside std/): state no `reset()` touches -/\n"
        f"def counters : List String := {ls(f['counters'])}\n\n"
        f"/-- module-level containers mutated from functions, functools.cache / lru_cache memo tables: state outside the engine -/\n"
        f"def sessionGlobals : List String := {ls(f['session_globals'])}\n\n"
        "end GuppyVerif.Session.Gen\n"
    )


if __name__ == "__main__":
    bootstrap.install()
    print(render(facts()))
