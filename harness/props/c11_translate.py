"""C11 T-src: read the facts the session theorems depend on off /repo's source (ast), write Gen/C11Config.lean."""
from __future__ import annotations

import ast
import os

import bootstrap


def _pkg():
    return os.path.join(bootstrap.REPO, "guppylang-internals", "src", "guppylang_internals")


def _parse(rel):
    p = os.path.join(_pkg(), rel)
    return ast.parse(open(p).read(), p)


def _func(tree, name, cls=None):
    for n in ast.walk(tree):
        if cls and isinstance(n, ast.ClassDef) and n.name == cls:
            for m in n.body:
                if isinstance(m, ast.FunctionDef) and m.name == name:
                    return m
        if not cls and isinstance(n, ast.FunctionDef) and n.name == name:
            return n
    return None


def _is_self_call(st, meth):
    return (isinstance(st, ast.Expr) and isinstance(st.value, ast.Call) and isinstance(st.value.func, ast.Attribute)
            and st.value.func.attr == meth and isinstance(st.value.func.value, ast.Name) and st.value.func.value.id == "self"
            and not st.value.args)


def facts() -> dict:
    f: dict = {}
    eng = _parse("engine.py")
    # --- reset(): which attributes are reassigned to an empty container
    reset = _func(eng, "reset", "CompilationEngine")
    cleared = []
    if reset:
        for st in reset.body:
            if isinstance(st, ast.Assign) and len(st.targets) == 1 and isinstance(st.targets[0], ast.Attribute) \
                    and isinstance(st.targets[0].value, ast.Name) and st.targets[0].value.id == "self" \
                    and isinstance(st.value, (ast.Dict, ast.List, ast.Set)) and not getattr(st.value, "keys", None) \
                    and not getattr(st.value, "elts", None):
                cleared.append(st.targets[0].attr)
    f["reset_clears"] = sorted(cleared)
    # --- attributes declared on the engine
    attrs = []
    for n in ast.walk(eng):
        if isinstance(n, ast.ClassDef) and n.name == "CompilationEngine":
            for m in n.body:
                if isinstance(m, ast.AnnAssign) and isinstance(m.target, ast.Name):
                    attrs.append(m.target.id)
            for m in ast.walk(n):
                if isinstance(m, ast.Attribute) and isinstance(m.ctx, ast.Store) and isinstance(m.value, ast.Name) \
                        and m.value.id == "self" and m.attr not in attrs:
                    attrs.append(m.attr)
    f["engine_attrs"] = sorted(attrs)
    # --- check(): first effectful statement is self.reset()
    chk = _func(eng, "check", "CompilationEngine")
    first = None
    if chk:
        for st in chk.body:
            if isinstance(st, ast.Expr) and isinstance(st.value, ast.Constant):
                continue  # docstring
            if isinstance(st, (ast.Import, ast.ImportFrom)):
                continue
            first = st
            break
    f["check_resets"] = bool(first is not None and _is_self_call(first, "reset")
                             and {"parsed", "checked"} <= set(cleared))
    # --- compile_cfg: insert_return_vars only under an `if` that tests is_return_var
    cc = _func(_parse("compiler/cfg_compiler.py"), "compile_cfg")
    guarded, unguarded = 0, 0
    if cc:
        def visit(node, under):
            nonlocal guarded, unguarded
            for ch in ast.iter_child_nodes(node):
                u = under
                if isinstance(node, ast.If) and ch in node.body:
                    u = under or any(isinstance(x, ast.Name) and x.id == "is_return_var" for x in ast.walk(node.test))
                if isinstance(ch, ast.Call) and isinstance(ch.func, ast.Name) and ch.func.id == "insert_return_vars":
                    if u:
                        guarded += 1
                    else:
                        unguarded += 1
                visit(ch, u)
        visit(cc, False)
    f["return_vars_guard"] = guarded >= 1 and unguarded == 0
    # --- reads of `.input_tys` outside the checker (receiver of `.append(...)` is the known mutation, not a read)
    reads = []
    for root, _d, files in os.walk(_pkg()):
        for fn in sorted(files):
            if not fn.endswith(".py"):
                continue
            rel = os.path.relpath(os.path.join(root, fn), _pkg())
            if rel.startswith("checker" + os.sep):
                continue
            tree = _parse(rel)
            appends = set()
            for n in ast.walk(tree):
                if isinstance(n, ast.Call) and isinstance(n.func, ast.Attribute) and n.func.attr == "append" \
                        and isinstance(n.func.value, ast.Attribute) and n.func.value.attr == "input_tys":
                    appends.add(id(n.func.value))
            for n in ast.walk(tree):
                if isinstance(n, ast.Attribute) and n.attr == "input_tys" and isinstance(n.ctx, ast.Load) \
                        and id(n) not in appends:
                    reads.append(f"{rel}:{n.lineno}")
    f["input_tys_reads"] = sorted(reads)
    # --- set_tracing_state: reset in a finally that encloses the yield
    sts = _func(_parse("tracing/state.py"), "set_tracing_state")
    restored = False
    if sts:
        for n in ast.walk(sts):
            if isinstance(n, ast.Try) and n.finalbody:
                has_yield = any(isinstance(x, (ast.Yield, ast.YieldFrom)) for b in n.body for x in ast.walk(b))
                has_reset = any(isinstance(x, ast.Call) and isinstance(x.func, ast.Attribute) and x.func.attr == "reset"
                                for b in n.finalbody for x in ast.walk(b))
                restored = restored or (has_yield and has_reset)
    f["tracing_restored"] = restored
    # --- writes into a frame namespace (f_locals / f_globals / f_builtins) anywhere in the package
    writes = []
    counters = []
    for root, _d, files in os.walk(_pkg()):
        for fn in sorted(files):
            if not fn.endswith(".py"):
                continue
            rel = os.path.relpath(os.path.join(root, fn), _pkg())
            tree = _parse(rel)
            for n in ast.walk(tree):
                if isinstance(n, ast.Subscript) and isinstance(n.ctx, (ast.Store, ast.Del)) \
                        and isinstance(n.value, ast.Attribute) and n.value.attr in ("f_locals", "f_globals", "f_builtins"):
                    writes.append(f"{rel}:{n.value.attr}")
                if isinstance(n, ast.Call) and isinstance(n.func, ast.Attribute) \
                        and n.func.attr in ("update", "setdefault", "pop", "clear", "__setitem__") \
                        and isinstance(n.func.value, ast.Attribute) and n.func.value.attr in ("f_locals", "f_globals", "f_builtins"):
                    writes.append(f"{rel}:{n.func.value.attr}.{n.func.attr}")
            # session-global counters: itertools.count() at module or class level
            if rel.startswith("std" + os.sep):
                continue

            def scan(body, prefix):
                for st in body:
                    tgt, val = None, None
                    if isinstance(st, ast.Assign) and len(st.targets) == 1 and isinstance(st.targets[0], ast.Name):
                        tgt, val = st.targets[0].id, st.value
                    elif isinstance(st, ast.AnnAssign) and isinstance(st.target, ast.Name) and st.value is not None:
                        tgt, val = st.target.id, st.value
                    if tgt and any(isinstance(x, ast.Call) and (
                            (isinstance(x.func, ast.Attribute) and x.func.attr == "count") or
                            (isinstance(x.func, ast.Name) and x.func.id == "count")) for x in ast.walk(val)):
                        counters.append(f"{rel}:{prefix}{tgt}")
                    if isinstance(st, ast.ClassDef):
                        scan(st.body, prefix + st.name + ".")
            scan(tree.body, "")
    f["frame_writes"] = sorted(writes)
    f["counters"] = sorted(counters)
    return f


def _s(x: str) -> str:
    return '"' + x.replace("\\", "/").replace('"', "'") + '"'


def render(f: dict) -> str:
    b = lambda v: "true" if v else "false"
    ls = lambda xs: "[" + ", ".join(_s(x) for x in xs) + "]"
    return (
        "import GuppyVerif.Model.Session\n"
        "/-! GENERATED by harness/props/c11_translate.py from /repo's source on every run (T-src). Do not edit. -/\n"
        "namespace GuppyVerif.Session.Gen\n\n"
        "/-- facts read off engine.py, compiler/cfg_compiler.py, the whole package (input_tys reads, frame writes), tracing/state.py -/\n"
        f"def config : Config :=\n  {{ checkResets := {b(f['check_resets'])},\n    returnVarsGuard := {b(f['return_vars_guard'])},\n"
        f"    compilerReadsInputTys := {b(bool(f['input_tys_reads']))},\n    tracingRestored := {b(f['tracing_restored'])},\n"
        f"    nestedRecBindsInFrame := {b(bool(f['frame_writes']))} }}\n\n"
        f"/-- attributes `CompilationEngine.reset` reassigns to an empty container -/\ndef resetClears : List String := {ls(f['reset_clears'])}\n\n"
        f"/-- every attribute assigned on `self` anywhere in `CompilationEngine` -/\ndef engineAttrs : List String := {ls(f['engine_attrs'])}\n\n"
        f"/-- reads of `.input_tys` outside checker/ -/\ndef inputTysReads : List String := {ls(f['input_tys_reads'])}\n\n"
        f"/-- subscript stores / mutating calls on a frame namespace -/\ndef frameWrites : List String := {ls(f['frame_writes'])}\n\n"
        f"/-- module- or class-level `itertools.count()` counters (outside std/): state no `reset()` touches -/\n"
        f"def counters : List String := {ls(f['counters'])}\n\n"
        "end GuppyVerif.Session.Gen\n"
    )


if __name__ == "__main__":
    bootstrap.install()
    print(render(facts()))
