"""C03 / C05 — end-to-end execution oracle: lowered HUGR, interpreted, against CPython running the same source.

A typed Guppy program is checked and lowered by the real compiler of the checkout (`feed.load` + `feed.lower`), the
lowered HUGR is executed by the small interpreter below and the outcome (returned value + sequence of
`result(tag, value)` reports) must equal what CPython produces when it runs the very same source text with stub
definitions of `guppy`, `result`, `array`, `owned` (arrays are lists, structs dataclasses, tuples tuples).

  * every dataflow region is run under two legal schedules ("first ready node" / "last ready node" by node index):
    a missing order edge between two side effects shows up as a reordered `result` trace under one of them;
  * values are checked against the hugr types of every region's Input row (a block row of the wrong length or type,
    a missing port, a tag without a successor: `Malformed` -> a failing input of the property, the HUGR is ill-formed);
  * an op the interpreter does not know is `Unsupported` (counted, never a violation);
  * integers are 64-bit two's complement on the HUGR side; a CPython run in which an arithmetic result leaves
    +-2^62 or which does not finish within the step budget is skipped;
  * PANICS ARE TRACE EVENTS: a CPython ZeroDivisionError / IndexError / OverflowError / ValueError / GuppyPanic (nat(-1),
    int(1e30)) is the expected outcome ("panic", results reported before it); the HUGR run must panic after exactly the
    same results.  Under the adversarial schedule the panic of an op WITHOUT order edges (idiv by zero, is_to_u, borrow)
    may come before earlier / after later results of its region: verdict `panic-overtakes` (counted, no violation);
    explicit prelude.panic nodes and the first-ready schedule must agree exactly.

Entry points: `tie_hugr_exec(ctx, budget_s, pid)`, `search_hugr_exec(ctx, budget_s, pid)`, `check_program(src, entries)`,
`gen_exec_program(rng, ...)`.  Scratch use:  /venv/bin/python harness/props/c03_hugr.py --n 2000 [--seed k] [--pid C05]
"""
from __future__ import annotations

import ast
import dataclasses
import json
import math
import os
import sys
import time

sys.path.insert(0, os.path.dirname(os.path.dirname(os.path.abspath(__file__))))

M = 2**64
LIMIT = 2**62


def s64(u):
    return u - M if u >= 2**63 else u


# ============================================================================ interpreter for the lowered HUGR


class Unsupported(Exception):
    """an op / value the interpreter has no semantics for (never a violation)"""


class Malformed(Exception):
    """the HUGR is not well-formed: wrong row length / type, missing port, tag without successor"""


class Panic(Exception):
    """origin "program": an explicit prelude.panic / exit node (order-linked by the compiler);
    origin "op": a panic raised inside an op (division by zero, borrow out of range, is_to_u ...), which carries no order edge"""

    def __init__(self, msg, origin="op"):
        super().__init__(msg)
        self.origin = origin


class OutOfFuel(Exception):
    pass


class Sum:
    __slots__ = ("tag", "vals")

    def __init__(self, tag, vals):
        self.tag, self.vals = tag, list(vals)

    def __repr__(self):
        return f"Sum({self.tag}, {self.vals})"


class Arr:
    """borrow_array value; `None` marks a borrowed slot.  Ops are functional (the input value is never mutated)."""

    __slots__ = ("elts",)

    def __init__(self, elts):
        self.elts = list(elts)

    def __repr__(self):
        return f"Arr({self.elts})"


BORROWED = None


def _int(*xs):
    for x in xs:
        if type(x) is not int:
            raise Malformed(f"integer operation applied to {type(x).__name__} value {x!r}")


def _flt(*xs):
    for x in xs:
        if type(x) is not float:
            raise Malformed(f"float operation applied to {type(x).__name__} value {x!r}")


def _bool(*xs):
    for x in xs:
        if type(x) is not bool:
            raise Malformed(f"bool operation applied to {type(x).__name__} value {x!r}")


def _sdiv(a, b):
    if b == 0:
        raise Panic("division by zero")
    return (s64(a) // b) % M


def _smod(a, b):
    if b == 0:
        raise Panic("division by zero")
    return (s64(a) % b) % M


def _udiv(a, b):
    if b == 0:
        raise Panic("division by zero")
    return a // b


def _umod(a, b):
    if b == 0:
        raise Panic("division by zero")
    return a % b


def _sign_conv(a):
    if a >= 2**63:
        raise Panic("integer out of range for a signedness conversion")
    return a


INT_OPS = {
    "is_to_u": _sign_conv,
    "iu_to_s": _sign_conv,
    "iadd": lambda a, b: (a + b) % M,
    "isub": lambda a, b: (a - b) % M,
    "imul": lambda a, b: (a * b) % M,
    "ineg": lambda a: (-a) % M,
    "iabs": lambda a: abs(s64(a)) % M,
    "iand": lambda a, b: a & b,
    "ior": lambda a, b: a | b,
    "ixor": lambda a, b: a ^ b,
    "inot": lambda a: (~a) % M,
    "ishl": lambda a, b: (a << b) % M if b < 64 else 0,
    "ishr": lambda a, b: a >> b if b < 64 else 0,
    "idiv_u": _udiv,
    "imod_u": _umod,
    "idiv_s": _sdiv,
    "imod_s": _smod,
    "ieq": lambda a, b: a == b,
    "ine": lambda a, b: a != b,
    "ilt_u": lambda a, b: a < b,
    "ile_u": lambda a, b: a <= b,
    "igt_u": lambda a, b: a > b,
    "ige_u": lambda a, b: a >= b,
    "ilt_s": lambda a, b: s64(a) < s64(b),
    "ile_s": lambda a, b: s64(a) <= s64(b),
    "igt_s": lambda a, b: s64(a) > s64(b),
    "ige_s": lambda a, b: s64(a) >= s64(b),
    "imax_s": lambda a, b: max(s64(a), s64(b)) % M,
    "imin_s": lambda a, b: min(s64(a), s64(b)) % M,
    "imax_u": max,
    "imin_u": min,
}
FLOAT_OPS = {
    "fadd": lambda a, b: a + b,
    "fsub": lambda a, b: a - b,
    "fmul": lambda a, b: a * b,
    "fneg": lambda a: -a,
    "fabs": abs,
    "fmax": max,
    "fmin": min,
    "ffloor": lambda a: float(math.floor(a)) if math.isfinite(a) else a,
    "fceil": lambda a: float(math.ceil(a)) if math.isfinite(a) else a,
    "feq": lambda a, b: a == b,
    "fne": lambda a, b: a != b,
    "flt": lambda a, b: a < b,
    "fle": lambda a, b: a <= b,
    "fgt": lambda a, b: a > b,
    "fge": lambda a, b: a >= b,
}


def _fdiv(a, b):
    if b == 0.0:
        if a == 0.0 or a != a:
            return math.nan
        return math.copysign(math.inf, a) * math.copysign(1.0, b)
    return a / b


FLOAT_OPS["fdiv"] = _fdiv
CMP_OPS = {"ieq", "ine", "ilt_u", "ile_u", "igt_u", "ige_u", "ilt_s", "ile_s", "igt_s", "ige_s", "feq", "fne", "flt", "fle", "fgt", "fge"}


def const_value(v):
    import hugr.val as hv

    name = type(v).__name__
    if name in ("IntVal", "UnsignedIntVal"):
        if getattr(v, "width", 6) != 6:
            raise Unsupported(f"const int of log-width {v.width}")
        return v.v % M
    if name == "FloatVal":
        return float(v.v)
    if name == "StringVal":
        return v.v
    if name == "ErrorVal":
        return ("error", v.signal, v.message)
    if name in ("OpaqueBoolVal", "OpaqueBool"):
        return bool(v.v if hasattr(v, "v") else v.val)
    if isinstance(v, hv.Sum):  # includes Tuple, Some, None, Left, Right, TRUE / FALSE
        return Sum(v.tag, [const_value(x) for x in v.vals])
    if isinstance(v, hv.Extension):
        val = v.val
        if v.name == "ConstBool" or "bool" in str(getattr(v, "typ", "")).lower():
            if isinstance(val, bool):
                return val
            if isinstance(val, dict) and isinstance(val.get("value", None), bool):
                return val["value"]
        if v.name == "ConstUsize" and isinstance(val, dict | int):
            return int(val["value"] if isinstance(val, dict) else val)
        raise Unsupported(f"const extension {v.name}")
    if isinstance(v, hv.Function):
        raise Unsupported("const function value")
    raise Unsupported(f"const {name}")


def _nat_arg(arg, targs):
    import hugr.tys as ht

    if isinstance(arg, ht.BoundedNatArg):
        return arg.n
    if isinstance(arg, ht.VariableArg):
        if targs is None or arg.idx >= len(targs):
            raise Unsupported("load_nat of an unresolved type variable")
        return _nat_arg(targs[arg.idx], None)
    raise Unsupported(f"nat argument {type(arg).__name__}")


def conforms(v, ty, depth=0):
    """light structural type check of an interpreter value against a hugr type; None = fine, str = complaint"""
    import hugr.tys as ht

    if isinstance(ty, ht.Sum):
        if not isinstance(v, Sum):
            return f"{type(v).__name__} value {v!r} where a sum/tuple {ty} is expected"
        rows = ty.variant_rows
        if not 0 <= v.tag < len(rows):
            return f"tag {v.tag} outside {ty}"
        row = rows[v.tag]
        if any(isinstance(t, ht.RowVariable) for t in row):
            return None
        if len(row) != len(v.vals):
            return f"variant {v.tag} of {ty} holds {len(v.vals)} values"
        for x, t in zip(v.vals, row):
            c = conforms(x, t, depth + 1)
            if c:
                return c
        return None
    if isinstance(ty, ht.USize):
        return None if type(v) is int else f"{type(v).__name__} value {v!r} where usize is expected"
    if isinstance(ty, ht.ExtType | ht.Opaque):
        name = ty.type_def.name if isinstance(ty, ht.ExtType) else ty.id
        want = {"int": int, "float64": float, "bool": bool, "borrow_array": Arr, "array": Arr, "usize": int}.get(name)
        if want is None or type(v) is want:
            if want is Arr and isinstance(ty, ht.ExtType) and isinstance(ty.args[0], ht.BoundedNatArg) and len(v.elts) != ty.args[0].n:
                return f"array of length {len(v.elts)} where {ty} is expected"
            return None
        return f"{type(v).__name__} value {v!r} where {name} is expected"
    return None  # variables, function types, aliases: not checked


class Frame:
    __slots__ = ("vals", "outer")

    def __init__(self, outer):
        self.vals, self.outer = {}, outer


class Program:
    """a lowered module + per-policy caches (schedules, value-input ports) shared by all runs"""

    def __init__(self, hugr, op_name):
        self.h = hugr
        self.op_name = op_name
        self.srcs = {}
        self.sched = {"first": {}, "last": {}}
        self.names = {}
        self.funcs = {}
        from hugr import ops

        for n in hugr.children(hugr.module_root):
            op = hugr[n].op
            if isinstance(op, ops.FuncDefn):
                self.funcs.setdefault(op.f_name, []).append(n)

    def func(self, name):
        ns = self.funcs.get(name, [])
        if len(ns) != 1:
            raise Unsupported(f"{len(ns)} function definitions named {name}")
        return ns[0]

    def value_inputs(self, node):
        r = self.srcs.get(node)
        if r is None:
            res = {}
            for ip, outs in self.h.incoming_links(node):
                if ip.offset >= 0:
                    if len(outs) != 1:
                        raise Malformed(f"input port {ip.offset} of {self.h[node].op} has {len(outs)} sources")
                    res[ip.offset] = outs[0]
            n = len(res)
            if sorted(res) != list(range(n)):
                raise Malformed(f"node {node} ({self.name(node)}) has unconnected input ports: connected {sorted(res)}")
            r = self.srcs[node] = [res[i] for i in range(n)]
        return r

    def name(self, node):
        r = self.names.get(node)
        if r is None:
            r = self.names[node] = self.op_name(self.h[node].op)
        return r

    def schedule(self, parent, policy):
        """topological order of the children of a dataflow region w.r.t. value and order edges between siblings;
        among ready nodes the lowest ("first") / highest ("last") node index runs next; Output always last"""
        from hugr import ops

        r = self.sched[policy].get(parent)
        if r is not None:
            return r
        h = self.h
        kids = list(h.children(parent))
        if len(kids) < 2 or not isinstance(h[kids[0]].op, ops.Input) or not isinstance(h[kids[1]].op, ops.Output):
            raise Malformed(f"dataflow region {parent} ({self.name(parent)}) does not start with Input, Output")
        inp, out = kids[0], kids[1]
        kidset = set(kids)
        deps = {k: set() for k in kids}
        for k in kids:
            for _ip, outs in h.incoming_links(k):
                for o in outs:
                    if o.node in kidset and o.node != k:
                        deps[k].add(o.node)
        done = {inp}
        todo = [k for k in kids if k != inp]
        order = []
        while todo:
            ready = [k for k in todo if deps[k] <= done]
            if not ready:
                raise Malformed(f"cyclic dataflow region {parent}")
            cand = [k for k in ready if k != out] or ready
            k = min(cand, key=lambda n: n.idx) if policy == "first" else max(cand, key=lambda n: n.idx)
            todo.remove(k)
            order.append(k)
            done.add(k)
        r = self.sched[policy][parent] = (inp, out, order)
        return r


class Interp:
    def __init__(self, prog: Program, policy="first", fuel=400000):
        self.p = prog
        self.h = prog.h
        self.policy = policy
        self.trace = []
        self.fuel = fuel
        self.targs = None  # type arguments of the function being executed (for load_nat of a variable)
        self.depth = 0

    # ------------------------------------------------------------------ regions
    def run_dfg(self, parent, inputs, outer):
        inp, out, order = self.p.schedule(parent, self.policy)
        tys = self.h[inp].op.types
        if len(tys) != len(inputs):
            raise Malformed(f"region {self.p.name(parent)} (node {parent.idx}) takes {len(tys)} inputs, is given {len(inputs)}")
        for v, t in zip(inputs, tys):
            c = conforms(v, t)
            if c:
                raise Malformed(f"input row of {self.p.name(parent)} (node {parent.idx}): {c}")
        fr = Frame(outer)
        fr.vals[inp] = list(inputs)
        for k in order:
            fr.vals[k] = self.exec_node(k, fr)
        return fr.vals[out]

    def port_val(self, port, fr):
        f = fr
        while f is not None:
            vs = f.vals.get(port.node)
            if vs is not None:
                if port.offset >= len(vs):
                    raise Malformed(f"node {port.node.idx} ({self.p.name(port.node)}) has no output {port.offset}")
                return vs[port.offset]
            f = f.outer
        raise Malformed(f"value of node {port.node.idx} ({self.p.name(port.node)}) is used before / outside its evaluation")

    def exec_node(self, node, fr):
        from hugr import ops

        self.fuel -= 1
        if self.fuel < 0:
            raise OutOfFuel()
        h = self.h
        op = h[node].op
        if isinstance(op, ops.Const):
            return [const_value(op.val)]
        if isinstance(op, ops.FuncDefn | ops.FuncDecl | ops.AliasDefn | ops.AliasDecl):
            return [("func", node)]
        srcs = self.p.value_inputs(node)
        if isinstance(op, ops.Output):
            return [self.port_val(p, fr) for p in srcs]
        if isinstance(op, ops.LoadConst):
            cop = h[srcs[0].node].op
            if not isinstance(cop, ops.Const):
                raise Malformed("LoadConst of a non-constant")
            return [const_value(cop.val)]
        if isinstance(op, ops.LoadFunc):
            return [("func", srcs[0].node, self._resolve(op.type_args))]
        if isinstance(op, ops.Call):
            args = [self.port_val(p, fr) for p in srcs[:-1]]
            return self.call(srcs[-1].node, args, self._resolve(op.type_args))
        if isinstance(op, ops.CallIndirect):
            f = self.port_val(srcs[0], fr)
            args = [self.port_val(p, fr) for p in srcs[1:]]
            if not (isinstance(f, tuple) and f and f[0] == "func"):
                raise Malformed(f"indirect call of {f!r}")
            return self.call(f[1], args, f[2] if len(f) > 2 else None)
        a = [self.port_val(p, fr) for p in srcs]
        if isinstance(op, ops.Tag):
            return [Sum(op.tag, a)]
        if isinstance(op, ops.MakeTuple):
            return [Sum(0, a)]
        if isinstance(op, ops.UnpackTuple):
            v = a[0]
            if not isinstance(v, Sum) or v.tag != 0:
                raise Malformed(f"UnpackTuple of {v!r}")
            return list(v.vals)
        if isinstance(op, ops.CFG):
            return self.run_cfg(node, a, fr)
        if isinstance(op, ops.DFG):
            return self.run_dfg(node, a, fr)
        if isinstance(op, ops.Conditional):
            return self.run_conditional(node, a, fr)
        if isinstance(op, ops.TailLoop):
            return self.run_tailloop(node, a, fr)
        if isinstance(op, ops.Noop):
            return a
        return self.ext_op(self.p.name(node), op, a)

    def _resolve(self, type_args):
        import hugr.tys as ht

        out = []
        for t in type_args or []:
            if isinstance(t, ht.VariableArg) and self.targs is not None and t.idx < len(self.targs):
                out.append(self.targs[t.idx])
            else:
                out.append(t)
        return out

    # ------------------------------------------------------------------ extension ops
    def ext_op(self, name, op, a):
        if name.startswith("arithmetic.int."):
            f = INT_OPS.get(name.rsplit(".", 1)[1])
            if f is None:
                raise Unsupported(name)
            if getattr(op, "args", None) and getattr(op.args[0], "n", 6) != 6:
                raise Unsupported(name + " at a width other than 64 bits")
            _int(*a)
            r = f(*a)
            return [Sum(int(r), [])] if name.rsplit(".", 1)[1] in CMP_OPS else [r]
        if name.startswith("arithmetic.float."):
            f = FLOAT_OPS.get(name.rsplit(".", 1)[1])
            if f is None:
                raise Unsupported(name)
            _flt(*a)
            r = f(*a)
            return [Sum(int(r), [])] if name.rsplit(".", 1)[1] in CMP_OPS else [r]
        if name == "arithmetic.conversions.convert_s":
            _int(*a)
            return [float(s64(a[0]))]
        if name == "arithmetic.conversions.convert_u":
            _int(*a)
            return [float(a[0])]
        if name in ("arithmetic.conversions.itousize", "arithmetic.conversions.ifromusize"):
            _int(*a)
            return [a[0]]
        if name in ("arithmetic.conversions.trunc_s", "arithmetic.conversions.trunc_u"):
            _flt(*a)
            f = a[0]
            signed = name.endswith("_s")
            if not math.isfinite(f) or not (-(2**63) <= int(f) < 2**63 if signed else 0 <= int(f) < M):
                return [Sum(0, [("error", 2, "Float value too big to convert to int of given width")])]
            return [Sum(1, [int(f) % M])]
        if name == "tket.bool.make_opaque":
            v = a[0]
            if not isinstance(v, Sum) or v.vals or v.tag not in (0, 1):
                raise Malformed(f"tket.bool.make_opaque of {v!r}")
            return [bool(v.tag)]
        if name == "tket.bool.read":
            _bool(*a)
            return [Sum(int(a[0]), [])]
        if name.startswith("tket.bool."):
            _bool(*a)
            k = name.rsplit(".", 1)[1]
            if k == "not":
                return [not a[0]]
            if k == "and":
                return [a[0] and a[1]]
            if k == "or":
                return [a[0] or a[1]]
            if k == "xor":
                return [a[0] != a[1]]
            if k == "eq":
                return [a[0] == a[1]]
            raise Unsupported(name)
        if name.startswith("logic."):
            k = name.rsplit(".", 1)[1]
            bs = []
            for v in a:
                if not isinstance(v, Sum) or v.vals or v.tag not in (0, 1):
                    raise Malformed(f"{name} of {v!r}")
                bs.append(bool(v.tag))
            fn = {"Not": lambda x: not x, "And": lambda x, y: x and y, "Or": lambda x, y: x or y,
                  "Xor": lambda x, y: x != y, "Eq": lambda x, y: x == y}.get(k) or {
                  "not": lambda x: not x, "and": lambda x, y: x and y, "or": lambda x, y: x or y,
                  "xor": lambda x, y: x != y, "eq": lambda x, y: x == y}.get(k)
            if fn is None:
                raise Unsupported(name)
            return [Sum(int(fn(*bs)), [])]
        if name.startswith("tket.result.result_"):
            kind = name[len("tket.result.result_"):]
            tag = op.args[0].value
            v = a[0]
            if kind == "int":
                _int(v)
                v = s64(v)
            elif kind == "uint":
                _int(v)
            elif kind == "f64":
                _flt(v)
            elif kind == "bool":
                if isinstance(v, Sum):
                    v = bool(v.tag)
                _bool(v)
            elif kind.startswith("array_") and isinstance(v, Arr) and kind[6:] in ("int", "uint", "f64", "bool"):
                if any(e is BORROWED for e in v.elts):
                    raise Panic("result of an array with borrowed elements")
                es = list(v.elts)
                if kind == "array_int":
                    _int(*es)
                    es = [s64(e) for e in es]
                elif kind == "array_f64":
                    _flt(*es)
                elif kind == "array_bool":
                    es = [bool(e.tag) if isinstance(e, Sum) else e for e in es]
                    _bool(*es)
                v = es
            else:
                raise Unsupported(name)
            self.trace.append((tag, v))
            return []
        if name.startswith("collections.borrow_arr."):
            return self.array_op(name.rsplit(".", 1)[1], name, op, a)
        if name == "tket.guppy.drop":
            return []
        if name == "prelude.load_nat":
            return [_nat_arg(op.args[0], self.targs)]
        if name == "prelude.MakeError":
            return [("error", a[0], a[1])]
        if name in ("prelude.panic", "prelude.exit"):
            e = a[0]
            msg = e[2] if isinstance(e, tuple) and len(e) == 3 else str(e)
            raise Panic(msg, "program")
        raise Unsupported(name)

    def array_op(self, k, name, op, a):
        if k == "new_array":
            return [Arr(a)]
        if k == "new_all_borrowed":
            return [Arr([BORROWED] * _nat_arg(op.args[0], self.targs))]
        if k in ("repeat", "scan", "is_borrowed", "swap"):
            raise Unsupported(name)
        arr = a[0]
        if not isinstance(arr, Arr):
            raise Malformed(f"{name} applied to {arr!r}")
        n = len(arr.elts)
        if k in ("clone", "to_array", "from_array"):
            if any(e is BORROWED for e in arr.elts):
                raise Panic(f"{k}: some elements are borrowed")
            return [arr, Arr(arr.elts)] if k == "clone" else [Arr(arr.elts)]
        if k in ("pop_left", "pop_right"):
            if n == 0:
                return [Sum(0, [])]
            i = 0 if k == "pop_left" else n - 1
            if arr.elts[i] is BORROWED:
                raise Panic(f"{name}: element is borrowed")
            rest = arr.elts[1:] if k == "pop_left" else arr.elts[:-1]
            return [Sum(1, [arr.elts[i], Arr(rest)])]
        if k == "discard_empty":
            if n != 0:
                raise Malformed(f"discard_empty of an array of length {n}")
            return []
        if k == "discard_all_borrowed":
            if any(e is not BORROWED for e in arr.elts):
                raise Panic("discard_all_borrowed: some elements are not borrowed")
            return []
        if k == "unpack":
            if any(e is BORROWED for e in arr.elts):
                raise Panic("unpack: element is borrowed")
            return list(arr.elts)
        idx = a[1]
        _int(idx)
        if k == "get":
            if idx >= n:
                return [Sum(0, []), arr]
            if arr.elts[idx] is BORROWED:
                raise Panic("get: element is borrowed")
            return [Sum(1, [arr.elts[idx]]), arr]
        if k == "set":
            if idx >= n:
                return [Sum(0, [a[2], arr])]
            if arr.elts[idx] is BORROWED:
                raise Panic("set: element is borrowed")
            new = list(arr.elts)
            old, new[idx] = new[idx], a[2]
            return [Sum(1, [old, Arr(new)])]
        if k == "borrow":
            if idx >= n:
                raise Panic("borrow: index out of bounds")
            if arr.elts[idx] is BORROWED:
                raise Panic("borrow: element is already borrowed")
            new = list(arr.elts)
            elt, new[idx] = new[idx], BORROWED
            return [Arr(new), elt]
        if k == "return":
            if idx >= n:
                raise Panic("return: index out of bounds")
            if arr.elts[idx] is not BORROWED:
                raise Panic("return: element is not borrowed")
            new = list(arr.elts)
            new[idx] = a[2]
            return [Arr(new)]
        raise Unsupported(name)

    # ------------------------------------------------------------------ control
    def call(self, fn, args, type_args=None):
        from hugr import ops

        op = self.h[fn].op
        if not isinstance(op, ops.FuncDefn):
            raise Unsupported(f"call of {type(op).__name__} {getattr(op, 'f_name', '')}")
        if self.depth > 60:
            raise OutOfFuel()
        saved = self.targs
        self.targs = list(type_args) if type_args else None
        self.depth += 1
        try:
            return self.run_dfg(fn, args, None)
        finally:
            self.targs = saved
            self.depth -= 1

    def run_cfg(self, cfg, inputs, fr):
        from hugr import ops

        h = self.h
        kids = list(h.children(cfg))
        if not kids:
            raise Malformed("CFG without blocks")
        block = kids[0]
        vals = list(inputs)
        while True:
            self.fuel -= 1
            if self.fuel < 0:
                raise OutOfFuel()
            bop = h[block].op
            if isinstance(bop, ops.ExitBlock):
                return vals
            if not isinstance(bop, ops.DataflowBlock):
                raise Malformed(f"CFG child {self.p.name(block)}")
            outs = self.run_dfg(block, vals, fr)
            if not outs or not isinstance(outs[0], Sum):
                raise Malformed(f"block {block.idx} does not end with a branch sum: {outs[:1]!r}")
            branch = outs[0]
            succ = None
            nsucc = 0
            for op_, ins in h.outgoing_links(block):
                nsucc += 1
                if op_.offset == branch.tag and ins:
                    succ = ins[0].node
            if succ is None:
                raise Malformed(f"block {block.idx} branches with tag {branch.tag} but has {nsucc} successors")
            block = succ
            vals = list(branch.vals) + list(outs[1:])

    def run_conditional(self, node, a, fr):
        cases = list(self.h.children(node))
        s = a[0]
        if not isinstance(s, Sum):
            raise Malformed(f"Conditional on {s!r}")
        if not 0 <= s.tag < len(cases):
            raise Malformed(f"Conditional with {len(cases)} cases on tag {s.tag}")
        return self.run_dfg(cases[s.tag], list(s.vals) + a[1:], fr)

    def run_tailloop(self, node, a, fr):
        vals = a
        while True:
            self.fuel -= 1
            if self.fuel < 0:
                raise OutOfFuel()
            outs = self.run_dfg(node, vals, fr)
            s = outs[0] if outs else None
            if not isinstance(s, Sum) or s.tag not in (0, 1):
                raise Malformed(f"TailLoop body returns {s!r}")
            if s.tag == 1:
                return list(s.vals) + outs[1:]
            vals = list(s.vals) + outs[1:]


# ============================================================================ types of the generated / corpus programs

INT, BOOL, FLOAT, NONE, NAT = ("int",), ("bool",), ("float",), ("none",), ("nat",)


def ty_str(t) -> str:
    k = t[0]
    if k in ("int", "bool", "float", "nat"):
        return k
    if k == "none":
        return "None"
    if k == "struct":
        return t[1]
    if k == "tuple":
        return "tuple[" + ", ".join(ty_str(x) for x in t[1]) + "]"
    if k == "array":
        return f"array[{ty_str(t[1])}, {t[2]}]"
    raise ValueError(t)


def parse_ty(node, structs):
    if isinstance(node, ast.Constant) and node.value is None:
        return NONE
    if isinstance(node, ast.Name):
        if node.id in ("int", "bool", "float", "nat"):
            return (node.id,)
        if node.id in structs:
            return ("struct", node.id)
        raise ValueError(f"type {node.id}")
    if isinstance(node, ast.BinOp) and isinstance(node.op, ast.MatMult):
        return parse_ty(node.left, structs)
    if isinstance(node, ast.Subscript) and isinstance(node.value, ast.Name):
        args = node.slice.elts if isinstance(node.slice, ast.Tuple) else [node.slice]
        if node.value.id == "tuple":
            return ("tuple", tuple(parse_ty(a, structs) for a in args))
        if node.value.id == "array" and len(args) == 2 and isinstance(args[1], ast.Constant):
            return ("array", parse_ty(args[0], structs), int(args[1].value))
    raise ValueError("type " + ast.dump(node)[:80])


def parse_sigs(src: str):
    """-> (structs {name: [(field, type)]}, funcs {name: ([(param, type, owned)], return type)}) from the annotations"""
    tree = ast.parse(src)
    structs, funcs = {}, {}
    for s in tree.body:
        if isinstance(s, ast.ClassDef):
            structs[s.name] = None
    for s in tree.body:
        if isinstance(s, ast.ClassDef):
            structs[s.name] = [(f.target.id, parse_ty(f.annotation, structs)) for f in s.body if isinstance(f, ast.AnnAssign)]
    for s in tree.body:
        if isinstance(s, ast.FunctionDef):
            try:
                ps = []
                for a in s.args.args:
                    owned = isinstance(a.annotation, ast.BinOp)
                    ps.append((a.arg, parse_ty(a.annotation, structs), owned))
                funcs[s.name] = (ps, parse_ty(s.returns, structs) if s.returns is not None else NONE)
            except ValueError:
                continue
    return structs, funcs


def enc_hugr(v, t, structs):
    k = t[0]
    if k in ("int", "nat"):
        if type(v) is not int or (k == "nat" and v < 0):
            raise ValueError(f"argument {v!r} for {k}")
        return v % M
    if k == "bool":
        return bool(v)
    if k == "float":
        return float(v)
    if k == "struct":
        fs = structs[t[1]]
        return Sum(0, [enc_hugr(x, ft, structs) for x, (_, ft) in zip(v, fs, strict=True)])
    if k == "tuple":
        return Sum(0, [enc_hugr(x, ft, structs) for x, ft in zip(v, t[1], strict=True)])
    if k == "array":
        if len(v) != t[2]:
            raise ValueError("array length")
        return Arr([enc_hugr(x, t[1], structs) for x in v])
    raise ValueError(t)


def enc_py(v, t, structs, env):
    k = t[0]
    if k in ("int", "nat"):
        return int(v)
    if k == "bool":
        return bool(v)
    if k == "float":
        return float(v)
    if k == "struct":
        fs = structs[t[1]]
        return env[t[1]](*[enc_py(x, ft, structs, env) for x, (_, ft) in zip(v, fs, strict=True)])
    if k == "tuple":
        return tuple(enc_py(x, ft, structs, env) for x, ft in zip(v, t[1], strict=True))
    if k == "array":
        return GList(enc_py(x, t[1], structs, env) for x in v)
    raise ValueError(t)


def _cf(x: float):
    return "nan" if x != x else x.hex()


def canon_py(v):
    if type(v) is bool:
        return ("b", v)
    if type(v) is int:
        if not -(2**63) <= v < 2**63:
            raise _Overflow()
        return ("i", v)
    if type(v) is float:
        return ("f", _cf(v))
    if v is None:
        return ("t", [])
    if isinstance(v, tuple):
        return ("t", [canon_py(x) for x in v])
    if isinstance(v, list):
        return ("a", [canon_py(x) for x in v])
    if dataclasses.is_dataclass(v):
        return ("t", [canon_py(getattr(v, f.name)) for f in dataclasses.fields(v)])
    raise TypeError(f"python value {v!r}")


def canon_hugr(v):
    if type(v) is bool:
        return ("b", v)
    if type(v) is int:
        return ("i", s64(v))
    if type(v) is float:
        return ("f", _cf(v))
    if isinstance(v, Sum):
        if v.tag != 0:
            return ("sum", v.tag, [canon_hugr(x) for x in v.vals])
        return ("t", [canon_hugr(x) for x in v.vals])
    if isinstance(v, Arr):
        return ("a", [("borrowed",) if x is BORROWED else canon_hugr(x) for x in v.elts])
    if isinstance(v, list):
        return ("a", [canon_hugr(x) for x in v])
    return ("?", repr(v))


def show(c) -> str:
    """canonical value -> short text"""
    if isinstance(c, tuple | list) and c and c[0] in ("b", "i"):
        return str(c[1])
    if isinstance(c, tuple | list) and c and c[0] == "f":
        return "nan" if c[1] == "nan" else repr(float.fromhex(c[1]))
    if isinstance(c, tuple | list) and c and c[0] == "t":
        return "(" + ", ".join(show(x) for x in c[1]) + ")"
    if isinstance(c, tuple | list) and c and c[0] == "a":
        return "[" + ", ".join(show(x) for x in c[1]) + "]"
    return str(c)


def show_outcome(o) -> str:
    if o is None:
        return "-"
    kind, val, trace = o
    tr = "[" + ", ".join(f"{t}={show(v)}" for t, v in trace) + "]"
    if kind == "res":
        return f"returns {', '.join(show(x) for x in val) if val else 'nothing'} results {tr}"
    return f"{kind} {val} results {tr}"


# ============================================================================ CPython side


class _Overflow(Exception):
    pass


class _PyTimeout(Exception):
    pass


class GuppyPanic(Exception):
    """raised by the CPython stand-ins of Guppy conversions where the compiled program panics (int(1e30))"""


class GuppyNatPanic(GuppyPanic):
    """nat(k) with k < 0: the compiled program panics INSIDE the op is_to_u (no order edge)"""


#: CPython exceptions that are the PANIC of the compiled program: the expected outcome is ("panic", results so far)
PANIC_CLASSES = (ZeroDivisionError, IndexError, OverflowError, ValueError, GuppyPanic)


def _g_int(x=0):
    """Guppy's int(): floats are truncated towards zero and must fit 64 bits (inf / nan raise like in Python)"""
    v = int(x)
    if not -(2**63) <= v < 2**63:
        raise GuppyPanic("int() out of range")
    return v


def _g_nat(x=0):
    v = int(x)
    if v < 0:
        raise GuppyNatPanic("nat() of a negative number")
    return v


def affine(t, structs) -> bool:
    """does a value of this type contain an array (not copyable: passed by borrow unless @owned, handed back at the end)"""
    k = t[0]
    if k == "array":
        return True
    if k == "struct":
        return any(affine(ft, structs) for _, ft in structs[t[1]])
    if k == "tuple":
        return any(affine(ft, structs) for ft in t[1])
    return False


class GList(list):
    """a Guppy array on the CPython side: a list without negative indices / slices (Guppy has neither)"""

    def _ck(self, i):
        if not isinstance(i, int) or isinstance(i, bool) or i < 0:
            raise IndexError("guppy arrays take non-negative integer indices")

    def __getitem__(self, i):
        self._ck(i)
        return list.__getitem__(self, i)

    def __setitem__(self, i, v):
        self._ck(i)
        return list.__setitem__(self, i, v)


def _chk(v):
    """overflow guard of the instrumented run: integers must stay inside +-2^62"""
    if type(v) is int:
        if not -LIMIT <= v <= LIMIT:
            raise _Overflow()
    elif isinstance(v, list | tuple):
        for x in v:
            _chk(x)
    elif dataclasses.is_dataclass(v):
        for f in dataclasses.fields(v):
            _chk(getattr(v, f.name))
    return v


class _Guard(ast.NodeTransformer):
    """identity wrappers around arithmetic: `a op b` -> `__chk(a op b)`, `x op= e` followed by `__chk(x)`.  Only used to
    DECIDE whether a run is skipped; the oracle's outcome is that of the unmodified source"""

    def visit_BinOp(self, node):
        self.generic_visit(node)
        if isinstance(node.op, ast.MatMult):
            return node
        return ast.copy_location(ast.Call(ast.Name("__chk", ast.Load()), [node], []), node)

    def visit_UnaryOp(self, node):
        self.generic_visit(node)
        if isinstance(node.op, ast.USub):
            return ast.copy_location(ast.Call(ast.Name("__chk", ast.Load()), [node], []), node)
        return node

    def visit_AugAssign(self, node):
        self.generic_visit(node)
        base = node.target
        while isinstance(base, ast.Subscript | ast.Attribute):
            base = base.value
        if not isinstance(base, ast.Name):
            return node
        chk = ast.Expr(ast.Call(ast.Name("__chk", ast.Load()), [ast.Name(base.id, ast.Load())], []))
        return [node, ast.copy_location(chk, node)]

    def visit_ClassDef(self, node):
        return node


PY_FILE = "<c03-hugr-cpython>"
PY_STEPS = 6000


class PyProgram:
    """the source under CPython: `guppy` is the identity decorator (`guppy.struct` = dataclass), `result` records,
    `array(...)` builds a list, `owned` / `comptime` are annotation dummies"""

    def __init__(self, src: str, guarded: bool):
        self.trace = []
        self.steps = 0
        prog = self

        def result(tag, v):
            prog.trace.append((tag, canon_py(v)))

        class G:
            def __call__(self, f):
                return f

            @staticmethod
            def struct(cls):
                return dataclasses.dataclass(cls)

        class Ann:
            def __matmul__(self, other):
                return self

            __rmatmul__ = __matmul__

        class ArrayMeta(type):
            def __getitem__(cls, item):
                return Ann()

            def __call__(cls, *a):
                if len(a) == 1 and hasattr(a[0], "__next__"):
                    return GList(a[0])
                return GList(a)

        class array(metaclass=ArrayMeta):  # noqa: N801
            pass

        self.env = {"guppy": G(), "result": result, "array": array, "owned": Ann(), "comptime": lambda x: x,
                    "__chk": _chk, "int": _g_int, "nat": _g_nat}
        tree = ast.parse(src)
        if guarded:
            tree = ast.fix_missing_locations(_Guard().visit(tree))
        exec(compile(tree, PY_FILE, "exec"), self.env)

    def _tracer(self, frame, event, arg):
        if frame.f_code.co_filename != PY_FILE:
            return None
        self.steps += 1
        if self.steps > PY_STEPS:
            raise _PyTimeout()
        return self._tracer

    def run(self, fname, pyargs):
        """-> ("res", value, trace, argument objects after the call) | ("panic", class name, trace, None) for the exception
        classes that are a panic of the compiled program | ("raise", class name, trace, None) for anything else"""
        self.trace = []
        self.steps = 0
        old = sys.gettrace()
        sys.settrace(self._tracer)
        try:
            r = self.env[fname](*pyargs)
        except RecursionError:
            return ("raise", "RecursionError", self.trace, None)
        except PANIC_CLASSES as e:
            return ("panic", type(e).__name__, self.trace, None)
        except Exception as e:  # noqa: BLE001
            return ("raise", type(e).__name__, self.trace, None)
        finally:
            sys.settrace(old)
        return ("res", r, self.trace, pyargs)


def python_outcome(src, fname, args, sigs, cache):
    """oracle outcome of one run: ("res", [canonical outputs], trace) | ("panic", exception class, trace up to the raise)
    | ("skip", why, None).  outputs = the returned value (a top-level tuple flattened, None = no output) followed by the final
    state of every parameter that holds an array and is not @owned (borrowed values are handed back by the lowered function)."""
    structs, funcs = sigs
    params, ret = funcs[fname]
    outs = []
    for guarded in (True, False):
        key = ("py", guarded)
        if key not in cache:
            try:
                cache[key] = PyProgram(src, guarded)
            except Exception as e:  # noqa: BLE001
                cache[key] = e
        prog = cache[key]
        if isinstance(prog, Exception):
            return ("skip", "python-load:" + type(prog).__name__, None)
        pyargs = [enc_py(v, t, structs, prog.env) for v, (_, t, _o) in zip(args, params, strict=True)]
        kind, r, trace, after = prog.run(fname, pyargs)
        if kind == "raise":
            return ("skip", "python-raised:" + r, None)
        if kind == "panic":
            outs.append(("panic", r, list(trace)))
            continue
        try:
            if ret[0] == "tuple":
                if not isinstance(r, tuple) or len(r) != len(ret[1]):
                    return ("skip", "python-return-shape", None)
                vals = [canon_py(x) for x in r]
            elif ret[0] == "none":
                vals = [] if r is None else [canon_py(r)]
            else:
                vals = [canon_py(r)]
            for v, (_, t, owned) in zip(after, params):
                if not owned and affine(t, structs):
                    vals.append(canon_py(v))
        except _Overflow:
            return ("skip", "python-raised:_Overflow", None)
        outs.append(("res", vals, list(trace)))
    if outs[0] != outs[1]:
        return ("skip", "harness:guarded-run-differs", None)
    return outs[1]


# ============================================================================ one program through the real compiler

POLICIES = ("first", "last")


def hugr_outcome(prog: Program, fname, args, sigs, policy):
    """("res", [canonical outputs], trace) | ("panic", origin + message, trace) | ("malformed", msg, trace) |
    ("unsupported", op, None) | ("nofuel", None, None)"""
    structs, funcs = sigs
    params, _ret = funcs[fname]
    it = Interp(prog, policy)
    try:
        enc = [enc_hugr(v, t, structs) for v, (_, t, _o) in zip(args, params, strict=True)]
        outs = it.call(prog.func(fname), enc)
        return ("res", [canon_hugr(x) for x in outs], [(t, canon_hugr(v)) for t, v in it.trace])
    except Unsupported as e:
        return ("unsupported", str(e)[:120], None)
    except OutOfFuel:
        return ("nofuel", None, None)
    except RecursionError:
        return ("nofuel", None, None)
    except Panic as e:
        return ("panic", e.origin + ": " + str(e)[:200], [(t, canon_hugr(v)) for t, v in it.trace])
    except Malformed as e:
        return ("malformed", str(e)[:400], [(t, canon_hugr(v)) for t, v in it.trace])
    except Exception as e:  # noqa: BLE001  (an interpreter failure on an ill-formed graph: missing port, wrong arity ...)
        return ("malformed", f"interpreter failed with {type(e).__name__}: {str(e)[:300]}", [(t, canon_hugr(v)) for t, v in it.trace])


def check_program(src: str, entries, policies=POLICIES, prelude=None):
    """entries = [(function name, [argument tuples as JSON-like values])].
    -> {"status": ok | load-failed | bad-corpus, "funcs": {name: {"status", "detail", "ops"}}, "runs": [...]}
    run = {"fn", "args", "policy", "verdict": agree | disagree | malformed | unsupported | skip | nofuel, "py", "hugr", "why"}"""
    import feed

    res = {"source": src, "status": "ok", "detail": None, "funcs": {}, "runs": []}
    try:
        sigs = parse_sigs(src)
    except Exception as e:  # noqa: BLE001
        res["status"], res["detail"] = "bad-corpus", f"{type(e).__name__}: {e}"
        return res
    try:
        m = feed.load(src) if prelude is None else feed.load(src, prelude)
    except Exception as e:  # noqa: BLE001
        res["status"], res["detail"] = "load-failed", f"{type(e).__name__}: {str(e)[:200]}"
        return res
    cache = {}
    try:
        for fname, arglists in entries:
            fr = res["funcs"][fname] = {"status": None, "detail": None, "ops": []}
            defn = getattr(m, fname, None)
            if defn is None or fname not in sigs[1]:
                fr["status"], fr["detail"] = "bad-corpus", "no such function / unsupported signature"
                continue
            try:
                g = feed.lower(defn)  # ENGINE.check + CompilerContext.compile
                prog = Program(g.hugr, feed.op_name)
                fr["ops"] = sorted({prog.name(n) for n in g.hugr})
            except BaseException as e:  # noqa: BLE001  (rare: classify by running the checker alone)
                if isinstance(e, KeyboardInterrupt):
                    raise
                kind, exc = feed.check_outcome(defn)
                if kind == "ok":
                    fr["status"], fr["detail"] = "lower-crash", f"{type(e).__name__}: {str(e)[:300]}"
                else:
                    fr["status"] = "rejected" if kind == "user" else "check-crash"
                    fr["detail"] = feed.err_class(exc) + ("" if kind == "user" else ": " + str(exc)[:200])
                continue
            fr["status"] = "ok"
            for args in arglists:
                try:
                    want = python_outcome(src, fname, args, sigs, cache)
                except Exception as e:  # noqa: BLE001
                    want = ("skip", f"harness:{type(e).__name__}:{str(e)[:80]}", None)
                for pol in policies:
                    run = {"fn": fname, "args": args, "policy": pol, "py": None, "hugr": None, "why": None}
                    res["runs"].append(run)
                    if want[0] == "skip":
                        run["verdict"], run["why"] = "skip", want[1]
                        continue
                    run["py"] = want
                    got = hugr_outcome(prog, fname, args, sigs, pol)
                    run["hugr"] = got
                    if got[0] in ("unsupported", "nofuel"):
                        run["verdict"], run["why"] = got[0], got[1]
                    elif got[0] == "malformed":
                        run["verdict"], run["why"] = "malformed", got[1]
                    elif want[0] == "panic":
                        # CPython raised: the compiled program must panic after exactly the same results.  An op that panics
                        # internally carries no order edge: under the adversarial schedule it may fire before results that
                        # precede it in the same region (expected class, notes/INTERP.md: counted, not a violation)
                        if got[0] == "panic" and got[2] == want[2]:
                            run["verdict"] = "agree-panic"
                        elif (pol != "first" and got[0] == "panic" and got[1].startswith("op:") and len(got[2]) < len(want[2])
                              and got[2] == want[2][:len(got[2])]):
                            # an unordered op panic fired early: results that precede it in the region are missing
                            run["verdict"], run["why"] = "panic-overtakes", "early " + got[1]
                        elif (pol != "first" and got[0] == "panic" and len(got[2]) > len(want[2]) and want[2] == got[2][:len(want[2])]
                              and (want[1] in ("ZeroDivisionError", "GuppyNatPanic") or (want[1] == "IndexError" and any(
                                  o.endswith(("borrow_arr.borrow", "borrow_arr.return")) for o in fr["ops"])))):
                            # CPython's panic is one of an op WITHOUT order edge (idiv / imod by zero, is_to_u, borrow): later
                            # calls of the same region came first (and one of them may even have panicked itself)
                            run["verdict"], run["why"] = "panic-overtakes", "late " + got[1]
                        else:
                            run["verdict"] = "disagree"
                    elif got == want:
                        run["verdict"] = "agree"
                    else:
                        run["verdict"] = "disagree"
    finally:
        feed.unload(m)
    return res


# ============================================================================ generator of typed, classical programs


def leaves(expr: str, t, structs):
    """scalar leaf places of a struct / tuple valued expression: [(expression text, scalar type)]"""
    k = t[0]
    if k in ("int", "bool", "float"):
        return [(expr, t)]
    if k == "struct":
        return [x for f, ft in structs[t[1]] for x in leaves(f"{expr}.{f}", ft, structs)]
    if k == "tuple":
        return [x for i, ft in enumerate(t[1]) for x in leaves(f"{expr}[{i}]", ft, structs)]
    return []


class HGen:
    """typed multi-function programs without quantum operations: 3 fixed reporting helpers g0, g1 (int -> int), c0 (int ->
    bool), ix (index helper), 0-3 random helpers (scalar / struct / tuple parameters and results, a `result` report
    each), 1-2 entry functions over int / bool / float / struct / tuple / array parameters.  Statements: the control
    shapes of c03.WGen (many same-typed variables whose liveness depends on the branch, nested if/elif/else, counter
    `while`, `for` over range and arrays, break / continue / early return) plus struct and tuple values whose leaves are
    used on different branches, tuple unpacking / swaps, array unpacking with a starred target in any position, array
    subscript reads / writes, and the expression shapes repaired by f9e33c1 / 7c8aeda / 9df9073."""

    INTS = ("zz", "a1", "m", "B", "_x", "x10", "x9", "Aa", "k2")
    BOOLS = ("c", "Zb", "_f", "b0", "y1")
    FLOATS = ("u", "F1", "_g", "fl")
    FLOAT_LITS = ("0.5", "1.5", "2.0", "0.25", "3.0", "1.0")
    SHADOWABLE = ("round", "abs", "len", "pow", "divmod")  # int / bool / float / nat name types: a function of that name is rejected

    def __init__(self, rng, pid="C03", small=False, focus=None):
        self.r = rng
        self.pid = pid
        self.small = small
        self.focus = focus or rng.choice(["field", "unpack", "order", "mixed", "mixed", "effects", "effects", "nested"] if pid == "C03"
                                         else ["order", "order", "effects", "effects", "field", "unpack", "mixed", "nested"])
        eff = self.focus == "effects"
        # (a) operands that can PANIC (conversions, division, subscripts), (b) reporting user functions NAMED like builtins,
        # (c) reads of mutable state next to borrowing calls that mutate it
        self.panicky = rng.random() < (0.8 if eff else 0.2)
        self.shadow = rng.sample(self.SHADOWABLE, rng.randint(1, 3)) if rng.random() < (0.8 if eff else 0.2) else []
        self.mut = rng.random() < (0.85 if eff else 0.3)
        self.with_s = self.mut and rng.random() < 0.3
        self.need_poke = {}
        self.has_float_param = False
        self.structs = {}
        self.tuples = []
        self.helpers = []  # (name, [param types], return type)
        self.feat = {"field_branch": 0, "array_unpack": 0, "starred_unpack": 0, "d9": 0, "for_array": 0, "subscript": 0,
                     "tuple_unpack": 0, "loops": 0, "branches": 0, "calls": 0, "results": 0,
                     "panic_ops": 0, "shadow_calls": 0, "mut_reads": 0, "effect_shapes": 0,
                     "nested_defs": 0, "nested_recursive": 0, "nested_shadow_global": 0, "nested_shadow_other_sig": 0,
                     "nested_in_nested": 0}
        self.ntag = 0
        self.nloop = 0
        self.protected = set()
        self.fname = "main"
        self.ret = INT
        self.budget = 0
        self.maxd = 2
        self.in_helper = False
        self.borrowed = set()

    # ------------------------------------------------------------------ names
    def pool(self, t):
        k = t[0]
        if k == "int":
            return self.INTS
        if k == "bool":
            return self.BOOLS
        if k == "float":
            return self.FLOATS
        if k == "struct":
            s = t[1].lower()
            return (f"p_{s}", f"R{s}", f"_{s}0")
        if k == "tuple":
            if t not in self.tuples:
                self.tuples.append(t)
            i = self.tuples.index(t)
            return (f"t{i}", f"T{i}", f"_t{i}")
        if k == "array":
            pre = {"int": ("xs", "A", "_z"), "float": ("fs", "FA", "_y"), "bool": ("bs", "BA", "_b")}[t[1][0]]
            return tuple(f"{p}{t[2]}" for p in pre)
        raise ValueError(t)

    def tag(self):
        self.ntag += 1
        return f"{self.fname}{self.ntag}"

    # ------------------------------------------------------------------ program-level choices
    def make_structs(self):
        r = self.r
        if r.random() < (0.85 if self.focus == "field" else 0.55):
            shape = r.choice([[INT, INT], [INT, INT, INT], [FLOAT, FLOAT], [INT, FLOAT], [INT, BOOL, INT], [INT, FLOAT, BOOL],
                              [INT, INT, FLOAT], [BOOL, INT]])
            self.structs["P"] = list(zip(["x", "y", "z"], shape))
            if r.random() < 0.5:
                kind = r.random()
                if kind < 0.4:
                    self.structs["Q"] = [("p", ("struct", "P")), ("k", INT)]
                elif kind < 0.7:
                    self.structs["Q"] = [("a", ("struct", "P")), ("b", ("struct", "P"))]
                else:
                    self.structs["Q"] = [("n", INT), ("p", ("struct", "P")), ("t", ("tuple", (INT, INT)))]

    def scalar_ty(self, w=(5, 2, 1)):
        return self.r.choices([INT, BOOL, FLOAT], weights=w)[0]

    def aggregate_ty(self):
        r = self.r
        opts = [("tuple", (INT, INT)), ("tuple", (INT, INT, INT)), ("tuple", (INT, FLOAT)), ("tuple", (INT, BOOL, INT)),
                ("tuple", (FLOAT, FLOAT)), ("tuple", (INT, ("tuple", (INT, INT)))), ("tuple", (("tuple", (INT, BOOL)), INT))]
        for s in self.structs:
            if not affine(("struct", s), self.structs):
                opts += [("struct", s)] * 4
        if "P" in self.structs:
            opts.append(("tuple", (("struct", "P"), INT)))
        return r.choice(opts)

    def array_ty(self):
        r = self.r
        elt = r.choices([INT, FLOAT, BOOL], weights=(8, 1, 1))[0]
        return ("array", elt, r.choice([2, 3, 3, 4, 4, 5, 5, 6]))

    # ------------------------------------------------------------------ environments
    @staticmethod
    def copy(env):
        return {"v": dict(env["v"]), "fixed": set(env["fixed"])}

    @staticmethod
    def merge_into(env, envs):
        names = set(envs[0]["v"])
        for e in envs[1:]:
            names &= set(e["v"])
        new = {n: envs[0]["v"][n] for n in sorted(names) if all(e["v"][n] == envs[0]["v"][n] for e in envs)}
        env["v"].clear()
        env["v"].update(new)

    def vars_of(self, env, t):
        return sorted(n for n, ty in env["v"].items() if ty == t)

    def atoms(self, env, t):
        """readable places of scalar type t: variables, struct fields, tuple elements"""
        out = []
        for n, ty in sorted(env["v"].items()):
            if ty[0] == "array":
                continue
            out += [e for e, lt in leaves(n, ty, self.structs) if lt == t]
        return out

    def arrays(self, env, elt=None, consumable=False):
        return sorted(n for n, ty in env["v"].items() if ty[0] == "array" and ty[2] >= 1 and ty[1][0] != "array"
                      and (elt is None or ty[1] == elt) and (not consumable or n not in env["fixed"]))

    # ------------------------------------------------------------------ expressions
    def lit(self, t):
        r = self.r
        if t == INT:
            return str(r.randint(0, 9))
        if t == BOOL:
            return r.choice(["True", "False"])
        return r.choice(self.FLOAT_LITS)

    def index(self, env, n, d=1):
        """an in-range, non-negative index expression for an array of length n"""
        r = self.r
        k = r.random()
        if d <= 0 or k < 0.5:
            return str(r.randrange(n))
        if k < 0.62 and not self.in_helper:
            self.feat["calls"] += 1
            return f"ix({self.expr(env, INT, d - 1)}, {n})"
        ih = [h for h in self.helpers if h[1] == [INT] and h[2] == INT]
        if k < 0.75 and ih and not self.in_helper:
            return f"({self.call(env, r.choice(ih), 1)}) % {n}"
        return f"({self.expr(env, INT, d - 1)}) % {n}"

    def call(self, env, h, d):
        name, ptys, _ = h
        self.feat["calls"] += 1
        self.feat["shadow_calls"] += name in self.shadow
        return f"{name}({', '.join(self.expr(env, t, d - 1) for t in ptys)})"

    def callable_helpers(self, ret):
        return [h for h in self.helpers if h[2] == ret]

    def expr(self, env, t, d=2):
        k = t[0]
        if k == "int":
            return self.int_expr(env, d)
        if k == "bool":
            return self.bool_expr(env, d)
        if k == "float":
            return self.float_expr(env, d)
        vs = self.vars_of(env, t) if k != "array" else []  # arrays are affine: naming one moves it (see ret_lines)
        r = self.r
        if vs and r.random() < 0.5:
            return r.choice(vs)
        hs = self.callable_helpers(t)
        if hs and d > 0 and r.random() < 0.4:
            return self.call(env, r.choice(hs), d)
        if k == "struct":
            return f"{t[1]}({', '.join(self.expr(env, ft, d - 1) for _, ft in self.structs[t[1]])})"
        if k == "tuple":
            return "(" + ", ".join(self.expr(env, ft, d - 1) for ft in t[1]) + ")"
        if k == "array":
            if r.random() < 0.12 and t[1] == INT:
                return f"array(({self.expr(env, INT, 0)}) + j_ for j_ in range({t[2]}))"
            return "array(" + ", ".join(self.expr(env, t[1], min(d - 1, 1)) for _ in range(t[2])) + ")"
        raise ValueError(t)

    def int_atom(self, env):
        r = self.r
        at = self.atoms(env, INT)
        arrs = self.arrays(env, INT)
        k = r.random()
        deep = self.deep_reads(env)
        if deep and r.random() < 0.12:
            self.feat["subscript"] += 1
            return r.choice(deep)
        if arrs and k < 0.15:
            a = r.choice(arrs)
            self.feat["subscript"] += 1
            return f"{a}[{r.randrange(env['v'][a][2])}]"
        if at and k < 0.8:
            return r.choice(at)
        return self.lit(INT)

    def walrus_targets(self, env):
        return [v for v in self.vars_of(env, INT) if v not in self.protected]

    def deep_reads(self, env):
        """reads through a struct that holds an array / through a nested array"""
        out = []
        for n, ty in sorted(env["v"].items()):
            if ty == ("struct", "S"):
                out += [f"{n}.a[{i}]" for i in range(3)]
            elif ty[0] == "array" and ty[1][0] == "array":
                out += [f"{n}[{i}][{j}]" for i in range(ty[2]) for j in range(ty[1][2])]
        return out

    def poke_call(self, env):
        """a borrowing call that MUTATES one of the live int arrays (or the struct holding one) and returns an int"""
        r = self.r
        if self.in_helper:
            return None
        cands = [(a, env["v"][a][2]) for a in self.arrays(env, INT) if env["v"][a][2] >= 2]
        ss = [n for n, ty in sorted(env["v"].items()) if ty == ("struct", "S")]
        rows = [(f"{n}[{i}]", ty[1][2]) for n, ty in sorted(env["v"].items()) if ty[0] == "array" and ty[1][0] == "array"
                for i in range(ty[2])]
        if ss and r.random() < 0.3:
            self.feat["calls"] += 1
            return f"bump({r.choice(ss)})"
        if rows and r.random() < 0.25:
            cands = cands + [r.choice(rows)]
        if not cands:
            return None
        a, n = r.choice(cands)
        self.need_poke.setdefault(n, r.randrange(4))
        self.feat["calls"] += 1
        return f"poke{n}({a})"

    def panicky_int(self, env, d):
        """an int operand that can PANIC at run time (CPython raises); never a negative divisor (known defect D11)"""
        r = self.r
        self.feat["panic_ops"] += 1
        k = r.random()
        arrs = self.arrays(env, INT)
        if k < 0.25:
            fl = self.atoms(env, FLOAT)
            x = r.choice(fl) if fl and r.random() < 0.8 else r.choice(["1e30", "2.5", "-7.9", "-1e19", "9e18"])
            return f"int({x})" if r.random() < 0.7 else f"int({x} * {r.choice(['2.0', '1e10', '0.5'])})"
        if k < 0.45:
            return f"int(nat({self.int_expr(env, d - 1)}))"
        if k < 0.65:
            return f"({self.int_expr(env, d - 1)} {r.choice(['//', '%'])} (({self.int_expr(env, 0)}) % {r.choice([2, 2, 3])}))"
        if k < 0.85 and arrs:
            a = r.choice(arrs)
            n = env["v"][a][2]
            self.feat["subscript"] += 1
            if r.random() < 0.5:
                return f"{a}[({self.int_expr(env, d - 1)}) % {n + r.randint(1, 2)}]"
            return f"{a}[{self.int_atom(env)}]"
        if k < 0.93 and "abs" not in self.shadow:
            return f"abs({self.int_expr(env, d - 1)})"
        if arrs and "len" not in self.shadow:
            return f"(len({r.choice(arrs)}) - {r.randint(0, 3)})"
        return f"int(nat({self.int_atom(env)}))"

    def int_expr(self, env, d=2):
        r = self.r
        if d <= 0 or r.random() < 0.3:
            return self.int_atom(env)
        if self.panicky and r.random() < 0.1:
            return self.panicky_int(env, d)
        if self.mut and r.random() < 0.1:
            pc = self.poke_call(env)
            if pc:
                return pc
        k = r.random()
        if k < 0.42:
            op = r.choice("++--*")
            if op == "*":
                return f"({self.int_expr(env, d - 1)} * {r.choice([2, 3, self.int_atom(env)])})"
            return f"({self.int_expr(env, d - 1)} {op} {self.int_expr(env, d - 1)})"
        if k < 0.48:
            return f"(-{self.int_expr(env, d - 1)})"
        if k < 0.55:
            return f"({self.int_expr(env, d - 1)} {r.choice(['//', '%'])} {r.randint(2, 5)})"
        if k < 0.68:
            return f"({self.int_expr(env, d - 1)} if {self.bool_expr(env, d - 1)} else {self.int_expr(env, d - 1)})"
        hs = self.callable_helpers(INT)
        if k < 0.88 and hs:
            return self.call(env, r.choice(hs), d)
        wt = self.walrus_targets(env)
        if k < 0.93 and wt and not self.in_helper:
            return f"({r.choice(wt)} := {self.int_expr(env, d - 1)})"
        arrs = self.arrays(env, INT)
        if arrs:
            a = r.choice(arrs)
            self.feat["subscript"] += 1
            return f"{a}[{self.index(env, env['v'][a][2], d - 1)}]"
        return self.int_atom(env)

    def cmp(self, env, d):
        r = self.r
        ops = ["<", "<=", ">", ">=", "==", "!="]
        if r.random() < 0.15 and self.atoms(env, FLOAT):
            return f"{self.float_expr(env, d)} {r.choice(ops[:4])} {self.float_expr(env, 0) if r.random() < 0.6 else self.int_expr(env, 0)}"
        if r.random() < 0.25:
            return f"{self.int_expr(env, d)} {r.choice(ops[:4])} {self.int_expr(env, d)} {r.choice(ops[:4])} {self.int_expr(env, d)}"
        return f"{self.int_expr(env, d)} {r.choice(ops)} {self.int_expr(env, d)}"

    def bool_expr(self, env, d=2):
        r = self.r
        at = self.atoms(env, BOOL)
        if d <= 0 or r.random() < 0.25:
            if at and r.random() < 0.55:
                return r.choice(at)
            return self.cmp(env, 0)
        k = r.random()
        if k < 0.4:
            return f"({self.cmp(env, d - 1)})"
        if k < 0.68:
            n = 3 if r.random() < 0.2 else 2
            op = r.choice([" and ", " or "])
            return "(" + op.join(self.bool_expr(env, d - 1) for _ in range(n)) + ")"
        if k < 0.78:
            return f"(not {self.bool_expr(env, d - 1)})"
        hs = self.callable_helpers(BOOL)
        if k < 0.92 and hs:
            return self.call(env, r.choice(hs), d)
        if k < 0.96 and at:
            return f"({r.choice(at)} {r.choice(['==', '!='])} ({self.bool_expr(env, d - 1)}))"
        return f"({self.bool_expr(env, d - 1)} if {self.bool_expr(env, d - 1)} else {self.bool_expr(env, d - 1)})"

    def float_expr(self, env, d=2):
        r = self.r
        at = self.atoms(env, FLOAT)
        if d <= 0 or r.random() < 0.35:
            return r.choice(at) if at and r.random() < 0.7 else self.lit(FLOAT)
        k = r.random()
        if k < 0.45:
            return f"({self.float_expr(env, d - 1)} {r.choice('+-*')} {self.float_expr(env, d - 1)})"
        if k < 0.6:
            return f"({self.float_expr(env, d - 1)} {r.choice('+-')} {self.int_expr(env, d - 1)})"
        if k < 0.7:
            return f"({self.int_expr(env, d - 1)} / {r.choice([2, 4, 8])})"
        if k < 0.78:
            return f"(-{self.float_expr(env, d - 1)})"
        if k < 0.9:
            return f"({self.float_expr(env, d - 1)} if {self.bool_expr(env, d - 1)} else {self.float_expr(env, d - 1)})"
        hs = self.callable_helpers(FLOAT)
        if hs:
            return self.call(env, r.choice(hs), d)
        return f"({self.float_expr(env, d - 1)} / {r.choice(['2.0', '4.0'])})"

    # ------------------------------------------------------------------ simple statements
    def new_var(self, env, t):
        v = self.r.choice(self.pool(t))
        env["v"][v] = t
        return v

    def st_result(self, env):
        t = self.scalar_ty((6, 2, 1))
        self.feat["results"] += 1
        return [f'result("{self.tag()}", {self.expr(env, t, 1)})']

    def poly(self, names):
        e = names[0]
        for n in names[1:]:
            e = f"({e} * 10 + {n})"
        return e

    def st_array_unpack(self, env):
        """`a, *b, c = xs` (consumes xs); the starred part becomes an array variable and may be unpacked again later"""
        r = self.r
        cands = self.arrays(env, consumable=True)
        pre = []
        if not cands or r.random() < 0.25:
            t = self.array_ty()
            src = self.expr(env, t, 1)
        else:
            a = r.choice(cands)
            t = env["v"].pop(a)
            src = a
        n, elt = t[2], t[1]
        star = r.random() < 0.7 and n >= 2
        if star:
            rest = r.randint(1, n - 1) if r.random() < 0.85 else 0
            k = n - rest
            # half of the time at least two targets follow the starred one (they are popped from the right end)
            pos = r.randint(0, k - 2) if k >= 2 and r.random() < 0.5 else r.randint(0, k)
        else:
            k, rest, pos = n, 0, None
        names = r.sample([v for v in self.pool(elt) if v not in self.protected], min(k, len(self.pool(elt))))
        while len(names) < k:
            names.append(f"e{len(names)}_{'ibf'[('int', 'bool', 'float').index(elt[0])]}")
        targets = list(names)
        sv = None
        if star:
            st = ("array", elt, rest)
            sv = r.choice([x for x in self.pool(st) if x not in self.borrowed] or [f"st{rest}"])
            targets.insert(pos, "*" + sv)
        lhs = ", ".join(targets) + ("," if len(targets) == 1 else "")
        lines = pre + [f"{lhs} = {src}"]
        for v in names:
            env["v"][v] = elt
        if sv is not None:
            env["v"][sv] = ("array", elt, rest)
            env["fixed"].discard(sv)
        self.feat["array_unpack"] += 1
        self.feat["starred_unpack"] += int(star)
        if elt == INT and names and r.random() < 0.75:
            self.feat["results"] += 1
            lines.append(f'result("{self.tag()}", {self.poly(names)})')
        elif elt != INT and names and r.random() < 0.6:
            self.feat["results"] += 1
            lines += [f'result("{self.tag()}", {v})' for v in names[:3]]
        return lines

    def pattern(self, env, t):
        """assignment pattern for a tuple type: fresh scalar / aggregate variables, nested for nested tuples"""
        r = self.r
        parts = []
        for ft in t[1]:
            if ft[0] == "tuple" and r.random() < 0.6:
                parts.append("(" + self.pattern(env, ft) + ")")
            else:
                pool = [v for v in self.pool(ft) if v not in self.protected and v not in self._pat_used]
                v = r.choice(pool) if pool else f"pv{len(self._pat_used)}"
                self._pat_used.add(v)
                env["v"][v] = ft
                parts.append(v)
        return ", ".join(parts)

    def st_tuple_unpack(self, env):
        r = self.r
        self.feat["tuple_unpack"] += 1
        k = r.random()
        ints = [v for v in self.vars_of(env, INT) if v not in self.protected]
        if k < 0.25 and len(ints) >= 2:
            a, b = r.sample(ints, 2)
            if len(ints) >= 3 and r.random() < 0.4:
                c = r.choice([v for v in ints if v not in (a, b)])
                return [f"{a}, {b}, {c} = {c}, {a}, {b}"]
            return [f"{a}, {b} = {b}, {a}"]
        tvars = sorted(n for n, ty in env["v"].items() if ty[0] == "tuple")
        hs = [h for h in self.helpers if h[2][0] == "tuple"]
        if tvars and k < 0.65:
            v = r.choice(tvars)
            t, src = env["v"][v], v
        elif hs and k < 0.85:
            h = r.choice(hs)
            t, src = h[2], self.call(env, h, 2)
        else:
            t = r.choice([x for x in [self.aggregate_ty() for _ in range(6)] if x[0] == "tuple"] or [("tuple", (INT, INT))])
            src = ", ".join(self.expr(env, ft, 1) for ft in t[1])
        tmp = self.copy(env)
        self._pat_used = set()
        pat = self.pattern(tmp, t)
        env["v"].update(tmp["v"])
        return [f"{pat} = {src}"]

    def st_field_branch(self, env, d, in_loop):
        """branches that keep DIFFERENT leaves of one struct / tuple value alive"""
        r = self.r
        aggs = [(n, ty) for n, ty in sorted(env["v"].items()) if ty[0] in ("struct", "tuple") and len(leaves(n, ty, self.structs)) >= 2]
        pre = []
        if not aggs:
            t = self.aggregate_ty()
            v = r.choice(self.pool(t))
            pre = [f"{v} = {self.expr(env, t, 1)}"]
            env["v"][v] = t
            aggs = [(v, t)]
        n, ty = r.choice(aggs)
        ls = leaves(n, ty, self.structs)
        picks = r.sample(ls, min(len(ls), 3))
        tys = {lt for _, lt in picks[:2]}
        if BOOL in tys:
            rt = BOOL
        elif FLOAT in tys:
            rt = FLOAT
        else:
            rt = INT

        def use(leaf):
            e, lt = leaf
            if rt == BOOL:
                if lt == BOOL:
                    return r.choice([e, f"not {e}"])
                return f"{e} {r.choice(['>', '<', '>='])} {self.lit(lt)}"
            if rt == FLOAT:
                return f"{e} {r.choice('+-*')} {self.lit(FLOAT)}"
            return f"{e} {r.choice('+-*')} {r.randint(1, 3)}"

        self.feat["field_branch"] += 1
        self.feat["branches"] += 1
        rv = r.choice([v for v in self.pool(rt) if v not in self.protected])
        cond = self.bool_expr(env, 1)
        form = r.random()
        lines = list(pre)
        if form < 0.4:
            lines += [f"if {cond}:", f"    {rv} = {use(picks[0])}", "else:", f"    {rv} = {use(picks[1])}"]
            env["v"][rv] = rt
        elif form < 0.55 and len(picks) >= 3:
            lines += [f"if {cond}:", f"    {rv} = {use(picks[0])}", f"elif {self.bool_expr(env, 1)}:", f"    {rv} = {use(picks[1])}",
                      "else:", f"    {rv} = {use((picks[2][0], picks[2][1])) if picks[2][1] in tys or rt == BOOL else use(picks[0])}"]
            env["v"][rv] = rt
        elif form < 0.7 and rt != BOOL:
            self.feat["loops"] += 1
            i = f"i{self.nloop}"
            z = "0" if rt == INT else "0.0"
            lines += [f"{rv} = {z}", f"for {i} in range({r.randint(1, 4)}):", f"    if {i} % 2 == 0:", f"        {rv} += {picks[0][0]}",
                      "    else:", f"        {rv} -= {picks[1][0]}"]
            env["v"][rv] = rt
        elif form < 0.85:
            # the second leaf is used after the branch on one path only
            lines += [f"{rv} = {use(picks[1])}", f"if {cond}:", f"    {rv} = {use(picks[0])}"]
            env["v"][rv] = rt
            if rt != BOOL and picks[0][1] != BOOL:
                lines += [f"if {self.bool_expr(env, 1)}:", f"    {rv} {r.choice(['+=', '-='])} {picks[0][0]}"]
        else:
            # early return on one leaf, the rest of the function continues with the other
            e2 = self.copy(env)
            lines += [f"if {cond}:"] + ["    " + l for l in self.ret_lines(e2, hint=picks[0])] + [f"{rv} = {use(picks[1])}"]
            env["v"][rv] = rt
        if r.random() < 0.5:
            self.feat["results"] += 1
            lines.append(f'result("{self.tag()}", {rv})')
        return lines

    def st_d9(self, env):
        """expression shapes repaired by /repo f9e33c1 (operands left of a lifted operand), 7c8aeda (chain middle), 9df9073
        (control flow inside assignment targets)"""
        r = self.r
        self.feat["d9"] += 1
        ih = [h[0] for h in self.helpers if h[1] == [INT] and h[2] == INT]
        bh = [h[0] for h in self.helpers if h[1] == [INT] and h[2] == BOOL]
        g, h, k = (r.choice(ih) for _ in range(3))
        c = r.choice(bh)
        env0 = self.copy(env)  # operands are drawn from the variables defined BEFORE this statement
        a = lambda: self.int_expr(env0, 0)  # noqa: E731
        ints = self.walrus_targets(env)
        rv = r.choice([v for v in self.INTS if v not in self.protected])
        bv = r.choice(self.BOOLS)
        arrs = [x for x in self.arrays(env, INT) if env["v"][x][2] >= 1]
        shape = r.randrange(15)
        self.feat["calls"] += 2
        if shape >= 12 and ints:
            # >= 3 operands in one list (2bb14bb): an operand stored because of a data dependence must not overtake
            # effectful operands further left
            x = r.choice(ints)
            e1 = r.choice([f"{g}({a()})", f"{g}({x})", self.int_atom(env0)])
            e2 = r.choice([f"{h}({x})", f"{h}({x}) + {x}", f"({x} - {k}({a()}))"])
            e3 = r.choice([f"({x} := {a()})", f"({x} := {k}({a()}))", f"(({x} := {a()}) if {self.bool_expr(env0, 1)} else {k}({x}))"])
            ops3 = [e1, e2, e3] if r.random() < 0.7 else [e1, e2, f"{k}({a()})", e3]
            three = [hh[0] for hh in self.helpers if hh[1] == [INT] * 3 and hh[2] == INT]
            if shape == 12 and three and len(ops3) == 3:
                env["v"][rv] = INT
                return [f"{rv} = {r.choice(three)}({', '.join(ops3)})"]
            tg = r.sample([v for v in self.INTS if v not in self.protected], len(ops3))
            for v in tg:
                env["v"][v] = INT
            self.feat["tuple_unpack"] += 1
            return [f"{', '.join(tg)} = {', '.join(ops3)}"]
        if shape == 0:
            env["v"][rv] = INT
            return [f"{rv} = {g}({a()}) {r.choice('+-*')} ({h}({a()}) if {c}({a()}) else {k}({a()}))"]
        if shape == 1 and ints:
            x = r.choice(ints)
            env["v"][rv] = INT
            return [f"{rv} = {g}({x}) - ({x} := {h}({a()}))"]
        if shape == 2 and ints:
            x = r.choice(ints)
            return [f"{x} {r.choice(['+=', '-=', '*='])} ({x} := {self.int_expr(env0, 1)})"]
        if shape == 3:
            env["v"][bv] = BOOL
            return [f"{bv} = {a()} {r.choice(['<', '<='])} ix({a()}, {r.randint(2, 5)}) {r.choice(['<', '<=', '!='])} {a()}"]
        if shape == 4:
            env["v"][bv] = BOOL
            return [f"{bv} = {g}({a()}) {r.choice(['<', '<=', '>'])} {h}({a()}) {r.choice(['<', '>=', '=='])} {k}({a()})"]
        if shape == 5 and arrs:
            xs = r.choice(arrs)
            n = env["v"][xs][2]
            self.feat["subscript"] += 1
            return [f"{xs}[ix({a()}, {n})] {r.choice(['+=', '-=', '='])} {g}({a()}) if {self.bool_expr(env0, 1)} else {h}({a()})"]
        if shape == 6 and arrs:
            xs = r.choice(arrs)
            n = env["v"][xs][2]
            self.feat["subscript"] += 1
            return [f"{xs}[ix({a()}, {n}) if {self.bool_expr(env0, 1)} else {r.randrange(n)}] = {g}({a()})"]
        if shape == 7 and ints:
            x, y = r.choice(ints), r.choice(ints)
            env["v"][rv] = INT
            return [f"{rv} = {x} + ({x} := {self.int_expr(env0, 1)}) - {y}"]
        if shape == 8 and ints:
            y = r.choice(ints)
            env["v"][bv] = BOOL
            return [f"{bv} = {a()} < {y} <= ({y} := {g}({a()}))"]
        if shape == 9:
            env["v"][rv] = INT
            return [f"{rv} = {g}({a()}) if {c}({a()}) {r.choice(['and', 'or'])} {c}({a()}) else {h}({a()})"]
        if shape == 10 and arrs and ints:
            xs = r.choice(arrs)
            n = env["v"][xs][2]
            y = r.choice(ints)
            self.feat["subscript"] += 1
            return [f"{xs}[{r.randrange(n)} if {c}({a()}) else ix({a()}, {n})], {y} = {g}({a()}), {h}({a()})"]
        two = [hh[0] for hh in self.helpers if hh[1] == [INT, INT] and hh[2] == INT]
        if two and ints:
            y = r.choice(ints)
            env["v"][rv] = INT
            return [f"{rv} = {r.choice(two)}({g}({a()}), ({y} := {h}({a()})))"]
        env["v"][rv] = INT
        return [f"{rv} = {g}({a()}) - {h}({a()}) * ({k}({a()}) if {self.bool_expr(env0, 1)} else {a()})"]

    def st_effect(self, env):
        """an earlier operand whose evaluation is OBSERVABLE without being a plain user call -- (a) it can panic, (b) it calls a
        reporting user function named like a builtin, (c) it reads state that a later borrowing call mutates -- left of / inside
        an operand with lifted control flow that reports (or mutates); also as chain middle, call argument, augmented right-hand
        side and as the index of (augmented) subscript assignments whose right-hand side mutates what the index reads"""
        r = self.r
        env0 = self.copy(env)
        atom = lambda: self.int_atom(env0)  # noqa: E731
        name = lambda: (r.choice(self.vars_of(env0, INT) or ["0"]))  # noqa: E731
        ih = [h[0] for h in self.helpers if h[1] == [INT] and h[2] == INT]
        g, h = r.choice(ih), r.choice(ih)
        self.feat["shadow_calls"] += (g in self.shadow) + (h in self.shadow)
        cnd = lambda: self.bool_expr(env0, 1) if r.random() < 0.5 else f"c0({atom()})"  # noqa: E731
        arrs = [x for x in self.arrays(env0, INT) if env0["v"][x][2] >= 2]
        ints = self.walrus_targets(env0)
        rv = r.choice([v for v in self.INTS if v not in self.protected])
        bv = r.choice(self.BOOLS)
        kinds = []
        if self.panicky:
            kinds += ["a"] * 3
        if self.shadow:
            kinds += ["b"] * 3
        if self.mut and (arrs or self.deep_reads(env0)):
            kinds += ["c"] * 6
        if not kinds:
            return None
        kind = r.choice(kinds)
        self.feat["effect_shapes"] += 1
        self.feat["calls"] += 2
        if kind == "c":
            self.feat["mut_reads"] += 1
            deep = self.deep_reads(env0)
            pc = self.poke_call(env0)
            if pc is None:
                return None
            target = pc[pc.index("(") + 1:-1]  # what the call mutates
            if target in env0["v"] and env0["v"][target][0] == "array":
                n = env0["v"][target][2]
                rd = f"{target}[{r.randrange(min(n, 2))}]"
            elif target in env0["v"]:  # the struct
                rd = f"{target}.a[{r.randrange(2)}]"
            else:  # a row of a nested array
                rd = f"{target}[{r.randrange(2)}]"
            lifted = f"({pc} if {cnd()} else {atom()})"
            shape = r.choice([0, 0, 0, 1, 2, 3, 3, 4, 5, 6, 6, 6, 6, 7, 7, 8, 9, 10])
            others = [x for x in arrs if x != target]
            if shape == 0:
                env["v"][rv] = INT
                return [f"{rv} = {rd} {r.choice('+-*')} {lifted}"]
            if shape == 1:
                env["v"][bv] = BOOL
                return [f"{bv} = {rd} {r.choice(['<', '<=', '!='])} {pc} {r.choice(['<', '>=', '=='])} {rd}"]
            if shape == 2:
                env["v"][bv] = BOOL
                return [f"{bv} = {atom()} <= {rd} < {lifted}"]
            if shape == 3:
                two = [hh[0] for hh in self.helpers if hh[1] == [INT, INT] and hh[2] == INT]
                env["v"][rv] = INT
                if two:
                    return [f"{rv} = {r.choice(two)}({rd}, {lifted})"]
                return [f"{rv} = {g}({rd} + {lifted})"]
            if shape == 4 and ints:
                return [f"{r.choice(ints)} {r.choice(['+=', '-='])} {rd} * {lifted}"]
            if shape == 5:
                env["v"][rv] = INT
                return [f"{rv} = {rd} - {pc}"]
            if shape in (6, 7, 8) and target in env0["v"] and env0["v"][target][0] == "array":
                # the index of a subscript assignment reads what the right-hand side mutates
                dst = r.choice(others) if others and r.random() < 0.7 else target
                m = env0["v"][dst][2]
                idx = r.choice([f"{target}[0] % {m}", f"({target}[0] + {target}[0]) % {m}", f"{target}[1] % {m}",
                                f"{target}[0]" if self.panicky else f"{target}[0] % {m}"])
                self.feat["subscript"] += 1
                if shape == 6:
                    return [f"{dst}[{idx}] {r.choice(['+=', '-=', '*='])} {pc}"]
                if shape == 7:
                    return [f"{dst}[{idx}] = {pc}"]
                return [f"{dst}[{idx}] += {pc} * 2 if {cnd()} else {atom()}"]
            nested = [(n_, ty) for n_, ty in sorted(env0["v"].items()) if ty[0] == "array" and ty[1][0] == "array"]
            if shape in (8, 9, 10) and nested and r.random() < 0.6:
                # nested target: the object xss[r] is a place, only its indices are operands (6f37109)
                n_, ty = r.choice(nested)
                m = ty[1][2]
                col = r.choice([str(r.randrange(m)), f"{target}[0] % {m}" if target in env0["v"] else str(r.randrange(m))])
                self.feat["subscript"] += 1
                return [f"{n_}[({atom()}) % {ty[2]}][{col}] {r.choice(['+=', '-=', '*='])} {lifted}"]
            if shape == 9 and deep:
                env["v"][rv] = INT
                return [f"{rv} = {r.choice(deep)} + {lifted} - {r.choice(deep)}"]
            env["v"][rv] = INT
            return [f"{rv} = {g}({atom()}) + {rd} * ({pc} if {cnd()} else {h}({atom()}))"]
        # (a) / (b): the observable earlier operand P
        if kind == "a":
            P = self.panicky_int(env0, 1)
        else:
            self.feat["shadow_calls"] += 1
            P = f"{r.choice(self.shadow)}({name() if r.random() < 0.7 else atom()})"
        lifted = r.choice([f"({g}({atom()}) if {cnd()} else {h}({atom()}))", f"({g}({atom()}) if {cnd()} else {atom()})",
                           f"({name()} if c0({atom()}) and c0({atom()}) else {h}({atom()}))"])
        shape = r.randrange(9)
        if shape == 0:
            env["v"][rv] = INT
            return [f"{rv} = {P} {r.choice('+-*')} {lifted}"]
        if shape == 1:
            env["v"][bv] = BOOL
            return [r.choice([f"{bv} = {atom()} < {P} <= {g}({atom()})", f"{bv} = {P} < {g}({atom()}) < {h}({atom()})",
                              f"{bv} = {g}({atom()}) != {P} < {lifted}"])]
        if shape == 2 and ints:
            return [f"{r.choice(ints)} {r.choice(['+=', '-='])} {P} + {lifted}"]
        if shape == 3:
            two = [hh[0] for hh in self.helpers if hh[1] == [INT, INT] and hh[2] == INT]
            env["v"][rv] = INT
            if two:
                return [f"{rv} = {r.choice(two)}({P}, {lifted})"]
            return [f"{rv} = {g}({P} - {lifted})"]
        if shape == 4:
            env["v"][rv] = INT
            return [f"{rv} = {g}({atom()}) + ({P} if c0({atom()}) else {h}({atom()}))"]
        if shape == 5:
            env["v"][bv] = BOOL
            return [f"{bv} = {P} > {atom()} {r.choice(['and', 'or'])} {g}({atom()}) > {atom()}"]
        if shape == 6 and arrs:
            xs = r.choice(arrs)
            n = env0["v"][xs][2]
            self.feat["subscript"] += 1
            return [f"{xs}[({P}) % {n}] {r.choice(['+=', '=', '-='])} {lifted}"]
        if shape == 7 and arrs and self.panicky:
            xs = r.choice(arrs)
            self.feat["subscript"] += 1
            return [f"{xs}[{atom()}] {r.choice(['+=', '='])} {lifted}"]
        env["v"][rv] = INT
        return [f"{rv} = {P} - {g}({atom()}) * {lifted}"]

    def simple(self, env, d, in_loop):
        r = self.r
        k = r.random()
        f = self.focus
        if not self.in_helper and (self.panicky or self.shadow or self.mut) and r.random() < (0.3 if f == "effects" else 0.1):
            lines = self.st_effect(env)
            if lines:
                return lines
        if not self.in_helper:
            if k < (0.22 if f == "field" else 0.07):
                return self.st_field_branch(env, d, in_loop)
            k2 = r.random()
            if k2 < (0.2 if f == "unpack" else 0.05):
                return self.st_array_unpack(env)
            if k2 < (0.3 if f == "unpack" else 0.12):
                return self.st_tuple_unpack(env)
            if r.random() < (0.22 if f == "order" else 0.06):
                return self.st_d9(env)
        k = r.random()
        if k < 0.3:
            v = r.choice([x for x in self.INTS if x not in self.protected])
            line = f"{v} = {self.int_expr(env)}"
            env["v"][v] = INT
            return [line]
        if k < 0.4:
            v = r.choice(self.BOOLS)
            line = f"{v} = {self.bool_expr(env)}"
            env["v"][v] = BOOL
            return [line]
        if k < 0.46:
            v = r.choice(self.FLOATS)
            line = f"{v} = {self.float_expr(env)}"
            env["v"][v] = FLOAT
            return [line]
        wt = self.walrus_targets(env)
        if k < 0.55 and wt:
            return [self._aug(env, r.choice(wt))]
        if k < 0.66:
            return self.st_result(env)
        if k < 0.74 and self.helpers:
            h = r.choice(self.helpers)
            callx = self.call(env, h, 2)
            if r.random() < 0.3:
                return [callx]
            v = r.choice([x for x in self.pool(h[2]) if x not in self.protected])
            env["v"][v] = h[2]
            return [f"{v} = {callx}"]
        if k < 0.82:
            t = self.aggregate_ty() if r.random() < 0.7 else self.array_ty()
            v = r.choice([x for x in self.pool(t) if x not in self.borrowed] or [f"nw{t[-1]}"])
            line = f"{v} = {self.expr(env, t, 1)}"
            env["v"][v] = t
            env["fixed"].discard(v)
            return [line]
        arrs = self.arrays(env)
        if k < 0.92 and arrs:
            xs = r.choice(arrs)
            t = env["v"][xs]
            self.feat["subscript"] += 1
            i = self.index(env, t[2], 1)
            if t[1] == INT and r.random() < 0.4:
                return [f"{xs}[{i}] {r.choice(['+=', '-='])} {self.int_expr(env, 1)}"]
            return [f"{xs}[{i}] = {self.expr(env, t[1], 1)}"]
        fl = self.vars_of(env, FLOAT)
        if fl:
            return [f"{r.choice(fl)} {r.choice(['+=', '-=', '*='])} {self.float_expr(env, 1)}"]
        return self.st_result(env)

    def _aug(self, env, v):
        r = self.r
        op = r.choice(["+=", "+=", "-=", "-=", "*=", "//=", "%="])
        if op in ("//=", "%="):
            return f"{v} {op} {r.randint(2, 5)}"
        if op == "*=":
            return f"{v} *= {r.choice([2, 3, self.int_atom(env)])}"
        return f"{v} {op} {self.int_expr(env, 1)}"

    # ------------------------------------------------------------------ control
    def ret_lines(self, env, hint=None):
        r = self.r
        t = self.ret
        lines = []
        if t == NONE:
            return ["return"]
        if hint is not None and hint[1] == t:
            return [f"return {hint[0]}"]
        if t[0] == "tuple":
            return ["return " + ", ".join(self.expr(env, ft, 1) for ft in t[1])]
        if t[0] == "array":
            own = [a for a in self.arrays(env, consumable=True) if env["v"][a] == t]
            if own and r.random() < 0.7:
                env["v"].pop(own[0])
                return [f"return {own[0]}"]
        e = self.expr(env, t, 2 if t[0] in ("int", "bool", "float") else 1)
        return lines + [f"return {e}"]

    def block(self, d, env, in_loop):
        out = []
        for _ in range(self.r.randint(1, 3)):
            if self.budget <= 0:
                break
            self.budget -= 1
            lines, jumped = self.stmt(d, env, in_loop)
            out += lines
            if jumped:
                return out, True
        return out or ["pass"], False

    def stmt(self, d, env, in_loop):
        r = self.r
        k = r.random()
        if d > 0:
            if k < 0.27:
                return self.gen_if(d, env, in_loop)
            if k < 0.37:
                return self.gen_while(d, env), False
            if k < 0.45:
                return self.gen_for(d, env), False
        if in_loop and k < 0.51:
            return [r.choice(["break", "continue"])], True
        if k < 0.55 and d < self.maxd and not self.in_helper:
            return self.ret_lines(env), True
        return self.simple(env, d, in_loop), False

    def gen_if(self, d, env, in_loop, depth=0):
        r = self.r
        self.feat["branches"] += 1
        cond = self.bool_expr(env)
        e1, e2 = self.copy(env), self.copy(env)
        b1, j1 = self.block(d - 1, e1, in_loop)
        q = r.random()
        kw = "if" if depth == 0 else "elif"
        lines = [f"{kw} {cond}:"] + ["    " + l for l in b1]
        if q < 0.3:
            j2 = False
        elif q < 0.5 and depth < 2 and self.budget > 0:
            self.budget -= 1
            sub, j2 = self.gen_if(d, e2, in_loop, depth + 1)
            lines += sub
        else:
            b2, j2 = self.block(d - 1, e2, in_loop)
            lines += ["else:"] + ["    " + l for l in b2]
        if j1 and j2:
            self.merge_into(env, [e1])
            return lines, True
        self.merge_into(env, [e2] if j1 else [e1] if j2 else [e1, e2])
        return lines, False

    def gen_while(self, d, env):
        r = self.r
        self.feat["loops"] += 1
        w = f"w{self.nloop}"
        pre = [f"{w} = {r.randint(0, 4)}"]
        env["v"][w] = INT
        self.protected.add(w)
        cond = f"{w} > 0" if r.random() < 0.6 else f"({w} > 0 and {self.bool_expr(env, 1)})"
        self.nloop += 1
        benv = self.copy(env)
        benv["fixed"] |= set(self.arrays(env))
        body, _ = self.block(d - 1, benv, True)
        self.nloop -= 1
        return pre + [f"while {cond}:", f"    {w} -= 1"] + ["    " + l for l in body]

    def gen_for(self, d, env):
        r = self.r
        self.feat["loops"] += 1
        cons = self.arrays(env, consumable=True)
        benv = None
        if cons and r.random() < (0.6 if self.focus == "unpack" else 0.35):
            xs = r.choice(cons)
            t = env["v"].pop(xs)
            v = f"v{self.nloop}"
            head = f"for {v} in {xs}:"
            benv = self.copy(env)
            benv["v"][v] = t[1]
            self.feat["for_array"] += 1
        else:
            v = f"i{self.nloop}"
            bound = str(r.randint(0, 4)) if r.random() < 0.6 else f"({self.int_expr(env, 1)}) % {r.randint(2, 5)}"
            head = f"for {v} in range({bound}):"
            benv = self.copy(env)
            benv["v"][v] = INT
        self.protected.add(v)
        self.nloop += 1
        benv["fixed"] |= set(self.arrays(env))
        body, _ = self.block(d - 1, benv, True)
        self.nloop -= 1
        return [head] + ["    " + l for l in body]

    # ------------------------------------------------------------------ functions
    def fixed_helpers(self):
        r = self.r
        f1 = r.choice(["a + 1", "a * 2", "a - 3", "7 - a", "a + a"])
        f2 = r.choice(["a * 2 - 1", "a + 4", "3 - a", "a // 2", "-a"])
        cmpx = r.choice(["a > 1", "a % 2 == 0", "a <= 3", "a != 2"])
        # `ix` is only ever called through self.index() with a positive literal as its second argument
        self.helpers += [("g0", [INT], INT), ("g1", [INT], INT), ("c0", [INT], BOOL)]
        extra = ""
        for nm in self.shadow:  # reporting user functions that shadow a builtin name
            body = r.choice(["n + 1", "n // 10 * 10", "n * 2", "5 - n", "n % 3"])
            extra += f'@guppy\ndef {nm}(n: int) -> int:\n    result("{nm}", n)\n    return {body}\n\n'
            self.helpers.append((nm, [INT], INT))
        return extra + (f'@guppy\ndef g0(a: int) -> int:\n    result("g0", a)\n    return {f1}\n\n'
                f'@guppy\ndef g1(a: int) -> int:\n    result("g1", a)\n    return {f2}\n\n'
                f'@guppy\ndef c0(a: int) -> bool:\n    result("c0", a)\n    return {cmpx}\n\n'
                '@guppy\ndef ix(i: int, n: int) -> int:\n    result("ix", i)\n    return i % n\n\n')

    def helper(self, j):
        r = self.r
        name = f"h{j}"
        ptys = []
        for _ in range(r.choice([1, 1, 2, 2, 3])):
            ptys.append(self.aggregate_ty() if r.random() < 0.3 else self.scalar_ty((6, 2, 1)))
        q = r.random()
        ret = self.scalar_ty((6, 2, 1)) if q < 0.7 else self.aggregate_ty()
        pnames = [f"p{i}" for i in range(len(ptys))]
        env = {"v": dict(zip(pnames, ptys)), "fixed": set()}
        self.in_helper, self.fname, self.ret = True, name, ret
        self.protected = set()
        saved = self.helpers
        self.helpers = list(saved)  # earlier helpers only: no recursion
        body = [f'result("{name}", {r.choice([e for n, t in env["v"].items() for e, lt in leaves(n, t, self.structs) if lt != NONE] or ["0"])})']
        self.budget, self.maxd = r.randint(0, 3), 1
        if self.budget:
            lines, _ = self.block(1, env, False)
            body += lines
        body += self.ret_lines(env)
        self.helpers = saved
        self.in_helper = False
        self.helpers.append((name, ptys, ret))
        sig = ", ".join(f"{n}: {ty_str(t)}" for n, t in zip(pnames, ptys))
        return f"@guppy\ndef {name}({sig}) -> {ty_str(ret)}:\n" + "".join("    " + l + "\n" for l in body) + "\n"

    def nested_defs(self):
        """non-capturing nested function definitions at the start of an entry function (C03: 'non-capturing nested
        functions'): self-recursive and not, with a fresh name or with the NAME OF A MODULE-LEVEL FUNCTION (same or different
        signature; Python: the local definition shadows the global one, also for the recursive call inside its own body),
        calling global helpers, reporting their calls, optionally with a recursive function nested one level deeper.
        Recursion is bounded by the guard `k <= 0 or k > 7`.  -> (lines, helper list to restore afterwards)"""
        r = self.r
        saved = list(self.helpers)
        if r.random() >= (0.9 if self.focus == "nested" else 0.25):
            return [], saved
        lines = []
        int1 = [h for h in saved if h[1] == [INT] and h[2] == INT]
        other = [h for h in saved if not (h[1] == [INT] and h[2] == INT) and h[0] not in ("ix", "c0", "kk", "k3")]
        chosen = []
        for i in range(r.choice([1, 1, 2, 3] if self.focus == "nested" else [1, 1, 2])):
            q = r.random()
            if q < 0.55 and int1:
                name, kind = r.choice(int1)[0], "nested_shadow_global"
            elif q < 0.7 and other:
                name, kind = r.choice(other)[0], "nested_shadow_other_sig"
            else:
                name, kind = f"nf{i}", None
            if any(name == c[0] for c in chosen):
                name, kind = f"nf{i}", None
            chosen.append((name, kind))
        taken = {c[0] for c in chosen}
        for i, (name, kind) in enumerate(chosen):
            # global helpers a nested body may call: never a name that is (going to be) a local function of this entry
            # (that would be a captured variable)
            glob = [h[0] for h in saved if h[1] == [INT] and h[2] == INT and h[0] not in taken]
            call_g = (lambda a: f"{r.choice(glob)}({a})") if glob else (lambda a: a)  # noqa: E731
            recursive = r.random() < 0.75
            rep = r.random() < 0.6
            body = [f'result("{name}_in_{self.fname}", k)'] if rep else []
            if recursive:
                base = r.choice(["0", "1", "k % 3", "-1", call_g("k % 4") if r.random() < 0.5 else "k"])
                rec = f"{name}({r.choice(['k - 1', 'k - 2', 'k - 1 - k % 2'])})"
                comb = r.choice(["k + {c}", "k * 2 - {c}", "{c} + 1", "{c} * 2 + k", "{c} - k",
                                 "(k if {c} % 2 == 0 else 1) + {c}", "{c} + " + call_g("k")]).replace("{c}", rec)
                if r.random() < 0.25:
                    comb = f"{rec} + {name}(k - 3)"
                body += ["if k <= 0 or k > 7:", f"    return {base}", f"return {comb}"]
                self.feat["nested_recursive"] += 1
            elif r.random() < 0.35:
                # a recursive function one level deeper (again named like the outer one's global twin or fresh)
                inner = r.choice([h[0] for h in int1 if h[0] not in taken] or ["inner"]) if r.random() < 0.5 else "inner"
                body += [f"def {inner}(j: int) -> int:", "    if j <= 0 or j > 6:", f"        return {r.choice(['0', 'j % 2', '2'])}",
                         f"    return j + {inner}(j - 1)", f"return {inner}(k % 5) * 2 + {r.choice(['k', '1', call_g('k')])}"]
                self.feat["nested_in_nested"] += 1
            else:
                body += [f"return {r.choice(['k * 3', 'k + 7', '10 - k', call_g('k') + ' + 1', 'k * k - ' + call_g('k + 1')])}"]
            lines += [f"def {name}(k: int) -> int:"] + ["    " + b for b in body]
            self.helpers = [h for h in self.helpers if h[0] != name] + [(name, [INT], INT)]
            self.feat["nested_defs"] += 1
            if kind:
                self.feat[kind] += 1
        return lines, saved

    def entry(self, name):
        r = self.r
        f = self.focus
        params = []
        used = set()

        def add(t, owned=False):
            pool = [v for v in self.pool(t) if v not in used]
            if pool:
                v = r.choice(pool)
                used.add(v)
                params.append((v, t, owned))

        for _ in range(r.randint(1, 3)):
            add(INT)
        for _ in range(r.randint(1, 2)):
            add(BOOL)
        if r.random() < 0.35:
            add(FLOAT)
        for _ in range(r.choice([1, 1, 2] if f == "field" else [0, 0, 1, 1, 2])):
            add(self.aggregate_ty())
        for _ in range(r.choice([1, 1, 2] if f == "unpack" else [0, 0, 1, 1])):
            add(self.array_ty(), r.random() < 0.75)
        if self.panicky and r.random() < 0.7 and not any(t == FLOAT for _, t, _ in params):
            add(FLOAT)
        if self.mut:
            # borrowed int arrays: their final contents are outputs of the lowered function, so a misplaced write is visible
            for _ in range(r.choice([1, 2, 2])):
                add(("array", INT, r.choice([2, 3, 3, 4])), r.random() < 0.15)
            if self.with_s:
                add(("struct", "S"))
            if r.random() < 0.25:
                params.append(("xss", ("array", ("array", INT, r.choice([2, 3])), r.choice([2, 3])), False))
        r.shuffle(params)
        q = r.random()
        if q < 0.5:
            ret = INT
        elif q < 0.7:
            ret = self.scalar_ty((1, 3, 3))
        elif q < 0.92:
            ret = self.aggregate_ty() if r.random() < 0.6 else ("tuple", tuple(self.scalar_ty() for _ in range(r.randint(2, 3))))
        elif q < 0.96:
            ret = self.array_ty()
        else:
            ret = NONE
        self.fname, self.ret, self.in_helper = name, ret, False
        self.protected = set()
        self.nloop = 0
        self.budget = r.randint(2, 5) if self.small else r.randint(4, 13)
        self.maxd = 2 if self.small else r.choice([2, 3, 3])
        env = {"v": {v: t for v, t, _ in params}, "fixed": {v for v, t, o in params if t[0] == "array" and not o}}
        self.borrowed = set(env["fixed"])  # borrowed array parameters must not be re-assigned (BorrowShadowedError)
        nested, restore = self.nested_defs()
        body, jumped = self.block(self.maxd, env, False)
        if nested and not any(f"{h[0]}(" in l for l in body for h in self.helpers if h not in restore):
            # make sure every nested function is called at least once
            ints = [v for v, t, _o in params if t == INT] or ["3"]
            calls = " + ".join(f"{h[0]}({r.choice(ints)})" for h in self.helpers if h not in restore)
            body = ([f'result("{self.tag()}", {calls})'] if calls else []) + body
        body = nested + body
        if not jumped:
            if r.random() < 0.4:
                body += self.st_result(env)
            if self.mut:  # report the whole state of up to two arrays
                for a in self.arrays(env, INT)[:2]:
                    self.feat["results"] += 1
                    body.append(f'result("{self.tag()}", {self.poly([f"{a}[{i}]" for i in range(env["v"][a][2])])})')
            body += self.ret_lines(env)
        self.helpers = restore  # the nested functions are local to this entry
        sig = ", ".join(f"{v}: {ty_str(t)}{' @owned' if o else ''}" for v, t, o in params)
        text = f"@guppy\ndef {name}({sig}) -> {ty_str(ret)}:\n" + "".join("    " + l + "\n" for l in body) + "\n"
        return text, params

    def value(self, t):
        r = self.r
        k = t[0]
        if k == "int":
            return r.choice([-3, -1, 0, 0, 1, 1, 2, 3, 4, 5, 7])
        if k == "bool":
            return r.random() < 0.5
        if k == "float":
            if self.panicky and r.random() < 0.3:
                return r.choice([float("inf"), float("-inf"), float("nan"), 1e30, -1e19, 9.3e18])
            return r.choice([0.0, 0.5, -1.5, 2.25, 1.0, 3.5])
        if k == "struct":
            return [self.value(ft) for _, ft in self.structs[t[1]]]
        if k == "tuple":
            return [self.value(ft) for ft in t[1]]
        if k == "array":
            if t[1] == INT:
                return r.sample(range(1, 10), t[2])
            if t[1] == FLOAT:
                return r.sample([0.5, 1.5, 2.5, 3.25, -1.0, 4.0, 6.5], t[2])
            if t[1] != BOOL:
                return [self.value(t[1]) for _ in range(t[2])]
            return [r.random() < 0.5 for _ in range(t[2])]
        raise ValueError(t)

    def program(self, nargs=3):
        r = self.r
        self.make_structs()
        if self.with_s:
            self.structs["S"] = [("a", ("array", INT, 3)), ("n", INT)]
        src = ""
        for s, fs in self.structs.items():
            src += "@guppy.struct\nclass " + s + ":\n" + "".join(f"    {f}: {ty_str(t)}\n" for f, t in fs) + "\n"
        src += self.fixed_helpers()
        if r.random() < 0.5:
            self.helpers.append(("kk", [INT, INT], INT))
            src += '@guppy\ndef kk(a: int, b: int) -> int:\n    result("kk", a * 10 + b)\n    return a - b\n\n'
        if r.random() < 0.5:
            self.helpers.append(("k3", [INT, INT, INT], INT))
            src += '@guppy\ndef k3(a: int, b: int, c: int) -> int:\n    result("k3", (a * 10 + b) * 10 + c)\n    return a - b + c\n\n'
        for j in range(r.choice([0, 1, 1, 2] if self.small else [0, 1, 2, 2, 3])):
            src += self.helper(j)
        entries = []
        for name in (["main"] if self.small or r.random() < 0.7 else ["main", "main2"]):
            text, params = self.entry(name)
            src += text
            argl = []
            for _ in range(nargs):
                argl.append([self.value(t) for _, t, _o in params])
            entries.append([name, argl])
        for n, var in sorted(self.need_poke.items()):  # borrowing, mutating helpers (resolved at call time: defined last)
            lines = [["old = ys[1]", "ys[0] += 1", "ys[1] += 10"], ["old = ys[0]", "ys[0] += 10", "ys[1] += 1"],
                     ["old = ys[0] + ys[1]", "ys[1] = ys[0]", "ys[0] += 1"], ["old = ys[1]", "ys[0] = ys[0] + 1"]][var]
            if var % 2 == 0:
                lines.append(f'result("poke{n}", old)')
            src += f"@guppy\ndef poke{n}(ys: array[int, {n}]) -> int:\n" + "".join(f"    {l}\n" for l in lines) + "    return old\n\n"
        if self.with_s:
            src += '@guppy\ndef bump(s: S) -> int:\n    s.a[0] += 1\n    result("bump", s.a[0])\n    return s.a[1] + s.n\n\n'
        return src, entries, dict(self.feat, focus=self.focus)


def gen_exec_program(rng, pid="C03", small=False, focus=None, nargs=3):
    """-> (source, [[function, [argument tuples]]], features)"""
    return HGen(rng, pid, small, focus).program(nargs)


# ============================================================================ shrinking a failing program


class _Drop(ast.NodeTransformer):
    """apply the k-th applicable simplification: drop a statement, replace an `if` / loop by one of its bodies"""

    def __init__(self, k):
        self.k, self.done = k, False

    def _hit(self):
        if self.done:
            return False
        self.k -= 1
        if self.k < 0:
            self.done = True
            return True
        return False

    def _body(self, stmts):
        out = []
        for s in stmts:
            if not isinstance(s, ast.Return | ast.Pass) and self._hit():
                continue
            if isinstance(s, ast.If) and self._hit():
                out.extend(s.body)
                continue
            if isinstance(s, ast.If) and s.orelse and self._hit():
                out.extend(s.orelse)
                continue
            out.append(self.visit(s))
        return out or [ast.Pass()]

    def generic_visit(self, node):
        if isinstance(node, ast.Module):
            node.body = [f for f in node.body if not (isinstance(f, ast.FunctionDef | ast.ClassDef) and self._hit())]
        for f in ("body", "orelse"):
            v = getattr(node, f, None)
            if isinstance(v, list) and isinstance(node, ast.FunctionDef | ast.If | ast.While | ast.For):
                if f == "body" or v:
                    setattr(node, f, self._body(v))
            elif isinstance(v, list) and isinstance(node, ast.Module):
                node.body = [self.visit(x) for x in node.body]
        return node


def _still_fails(src, fname, args, want_verdicts):
    try:
        r = check_program(src, [[fname, [args]]])
    except Exception:  # noqa: BLE001
        return None
    for run in r["runs"]:
        if run["verdict"] in want_verdicts:
            return run
    return None


def shrink_case(src, fname, args, verdict, budget_s=4.0):
    """greedy statement-level shrinking of a failing (source, function, arguments); keeps the kind of failure"""
    t0 = time.time()
    want = ("disagree",) if verdict == "disagree" else ("malformed",)
    best = src
    k = 0
    while time.time() - t0 < budget_s:
        try:
            tree = ast.parse(best)
        except SyntaxError:
            break
        sh = _Drop(k)
        sh.visit(tree)
        if not sh.done:
            break
        try:
            cand = ast.unparse(ast.fix_missing_locations(tree)) + "\n"
        except Exception:  # noqa: BLE001
            k += 1
            continue
        if cand != best and _still_fails(cand, fname, args, want):
            best = cand
            k = 0
        else:
            k += 1
    return best


# ============================================================================ the phase of C03's / C05's tie


def _corpus(pid):
    import vlib

    p = os.path.join(vlib.VERIF, "corpus", pid.lower(), "hugr_exec.json")
    if not os.path.exists(p):
        return []
    return [("corpus:" + c.get("name", "?"), c["source"], c["entries"], {"corpus": 1}) for c in json.load(open(p))]


def _nontrivial(feat, run):
    return run["verdict"] in ("agree", "agree-panic", "panic-overtakes", "disagree", "malformed") and bool(run["py"] and run["py"][2]) and (
        feat.get("corpus") or feat.get("branches", 0) + feat.get("loops", 0) + feat.get("field_branch", 0) > 0)


KEY_PANIC_OVERTAKES = "class:implicit-op-panic-overtakes-result"


def report_run(ctx, src, run, shrink=True):
    """a run whose lowered HUGR disagrees with CPython (or is ill-formed): a failing input of the property"""
    fn, args, verdict = run["fn"], run["args"], run["verdict"]
    note = None
    if shrink:
        try:
            small = shrink_case(src, fn, args, verdict)
            if small != src:
                again = _still_fails(small, fn, args, (verdict,))
                if again is not None:
                    note, src, run = "shrunk from a generated program", small, again
        except Exception:  # noqa: BLE001  (never lose a failure to the shrinker)
            pass
    inp = json.dumps(args)
    py, hg = show_outcome(run["py"]), show_outcome(run["hugr"])
    if verdict == "malformed":
        what = (f"lowered HUGR of `{fn}` is ill-formed: {run['why']} (arguments {inp}, schedule `{run['policy']} ready node`; "
                f"CPython: {py}); source:\n{src}")
    else:
        what = (f"executing the lowered HUGR of `{fn}` on {inp} (schedule `{run['policy']} ready node`) differs from CPython "
                f"running the same source: hugr {hg} / python {py}; source:\n{src}")
    ctx.violation("input:" + src + "|" + fn + "|" + inp, what,
                  {"hugr_source": src, "function": fn, "args": args, "schedule": run["policy"], "verdict": verdict,
                   "why": run["why"], "cpython": py, "hugr": hg, "note": note})


def _new_stats():
    return {"programs": 0, "corpus_programs": 0, "functions_lowered": 0, "rejected": {}, "crashes": {}, "runs": 0,
            "runs_by_verdict": {}, "unsupported_by_op": {}, "skipped": {}, "unsupported_fraction": 0.0,
            "struct_field_branch_programs": 0, "array_unpack_programs": 0, "starred_unpack_programs": 0,
            "tuple_unpack_programs": 0, "d9_shape_programs": 0, "for_array_programs": 0, "subscript_programs": 0,
            "panic_operand_programs": 0, "builtin_named_function_programs": 0, "mutable_read_programs": 0,
            "agreed_panics": 0, "panic_overtakes": 0, "panic_overtakes_late": 0,
            "programs_by_focus": {}, "failing_runs": 0, "op_names": []}


def run_cases(ctx, cases, st, deadline, ops, max_reports=4, shrink=True):
    """cases: iterable of (name, source, entries, features).  Returns the number of failing programs reported."""
    reported = 0
    for name, src, entries, feat in cases:
        if time.time() > deadline:
            st["stopped_by_budget"] = True
            break
        st["programs"] += 1
        is_corpus = name.startswith(("corpus:", "replay"))
        st["corpus_programs"] += is_corpus
        for k_, c_ in (("field_branch", "struct_field_branch_programs"), ("array_unpack", "array_unpack_programs"),
                       ("starred_unpack", "starred_unpack_programs"), ("tuple_unpack", "tuple_unpack_programs"),
                       ("d9", "d9_shape_programs"), ("for_array", "for_array_programs"), ("subscript", "subscript_programs"),
                       ("panic_ops", "panic_operand_programs"), ("shadow_calls", "builtin_named_function_programs"),
                       ("mut_reads", "mutable_read_programs")):
            st[c_] += bool(feat.get(k_))
        if "focus" in feat:
            st["programs_by_focus"][feat["focus"]] = st["programs_by_focus"].get(feat["focus"], 0) + 1
        try:
            res = check_program(src, entries)
        except Exception as e:  # noqa: BLE001
            ctx.broke(f"harness: hugr_exec check_program raised {type(e).__name__}: {str(e)[:200]}\n{src}")
            continue
        if res["status"] != "ok":
            d = st["rejected"]
            d[res["status"]] = d.get(res["status"], 0) + 1
            ctx.bump("hugr:" + res["status"])
            if is_corpus:
                ctx.broke(f"harness: hugr_exec corpus program `{name}` cannot be loaded ({res['detail']})")
            continue
        for fn, fr in res["funcs"].items():
            if fr["status"] == "ok":
                st["functions_lowered"] += 1
                ops.update(fr["ops"])
                continue
            ctx.bump("hugr:" + fr["status"])
            if fr["status"] in ("lower-crash", "check-crash"):
                d = st["crashes"]
                d[str(fr["detail"])[:80]] = d.get(str(fr["detail"])[:80], 0) + 1
                stage = "lowering the accepted function" if fr["status"] == "lower-crash" else "checking the function"
                ctx.violation("input:" + src + "|" + fn + "|" + fr["status"],
                              f"the real compiler crashed ({fr['detail']}) while {stage} `{fn}` of\n{src}",
                              {"hugr_source": src, "function": fn, "args": None, "verdict": fr["status"], "why": fr["detail"]})
            else:
                d = st["rejected"]
                d[str(fr["detail"])] = d.get(str(fr["detail"]), 0) + 1
                if is_corpus:
                    ctx.broke(f"harness: hugr_exec corpus program `{name}`: `{fn}` is rejected ({fr['detail']})")
        failing = None
        for run in res["runs"]:
            st["runs"] += 1
            v = run["verdict"]
            st["runs_by_verdict"][v] = st["runs_by_verdict"].get(v, 0) + 1
            st["agreed_panics"] += v == "agree-panic"
            st["panic_overtakes"] += v == "panic-overtakes"
            st["panic_overtakes_late"] += v == "panic-overtakes" and str(run["why"]).startswith("late")
            if v == "unsupported":
                st["unsupported_by_op"][run["why"]] = st["unsupported_by_op"].get(run["why"], 0) + 1
            elif v == "skip":
                st["skipped"][run["why"]] = st["skipped"].get(run["why"], 0) + 1
                if run["why"].startswith("harness:"):
                    ctx.broke(f"harness: hugr_exec CPython side: {run['why']} on {run['fn']}{run['args']}\n{src}")
            ctx.count({"source": src, "fn": run["fn"], "args": run["args"], "schedule": run["policy"]}, _nontrivial(feat, run), "hugr:" + v)
            if v == "panic-overtakes" and getattr(ctx, "pid", None) == "C05":
                # known finding of C05 (decision of the coordinator): ops that panic internally are not in
                # EXTENSION_OPS_WITH_SIDE_EFFECTS, so their panic is not ordered w.r.t. `result`s.  Only this exact class
                # (classified in check_program) is routed to the class key; everything else stays keyed by its input.
                ctx.violation(KEY_PANIC_OVERTAKES,
                              f"implicit op panic not ordered w.r.t. results: `{run['fn']}` on {json.dumps(run['args'])} under the "
                              f"`{run['policy']} ready node` schedule: hugr {show_outcome(run['hugr'])} / python "
                              f"{show_outcome(run['py'])} ({run['why']}); source:\n{src}",
                              {"hugr_source": src, "function": run["fn"], "args": run["args"], "schedule": run["policy"],
                               "why": run["why"]})
            if v in ("disagree", "malformed"):
                st["failing_runs"] += 1
                if failing is None:
                    failing = run
        if failing is not None:
            reported += 1
            if reported <= max_reports:
                report_run(ctx, src, failing, shrink=shrink and not is_corpus)
    return reported


def _finish(ctx, st, ops, t0, key):
    st["unsupported_fraction"] = round(st["runs_by_verdict"].get("unsupported", 0) / max(1, st["runs"]), 4)
    st["op_names"] = sorted(ops)
    st["wall_s"] = round(time.time() - t0, 2)
    ctx.extra[key] = st
    return st


def _lifts(e) -> bool:
    return any(isinstance(n, ast.IfExp | ast.BoolOp | ast.NamedExpr) or (isinstance(n, ast.Compare) and len(n.ops) > 1)
               for n in ast.walk(e))


def augsub_lifted(src: str) -> bool:
    """does the program contain `xs[i] op= <right-hand side with lifted control flow>` (shape tag, see AVOID_SHAPES)"""
    try:
        return any(isinstance(n, ast.AugAssign) and isinstance(n.target, ast.Subscript) and _lifts(n.value)
                   for n in ast.walk(ast.parse(src)))
    except SyntaxError:
        return False


def walrus_third_operand(src: str) -> bool:
    """an operand list (tuple display / call arguments) with an assignment expression right of >= 2 operands that call"""
    try:
        tree = ast.parse(src)
    except SyntaxError:
        return False
    for n in ast.walk(tree):
        ops_ = n.elts if isinstance(n, ast.Tuple | ast.List) else n.args if isinstance(n, ast.Call) else []
        calls = 0
        for o in ops_:
            if calls >= 2 and any(isinstance(x, ast.NamedExpr) for x in ast.walk(o)):
                return True
            calls += any(isinstance(x, ast.Call) for x in ast.walk(o))
    return False


#: shape tags whose programs are NOT generated (scratch switch `C03_HUGR_AVOID=augsub`, used to look for further classes
#: of disagreement behind a known one).  Empty in the check: nothing is hidden.
AVOID_SHAPES = set(filter(None, os.environ.get("C03_HUGR_AVOID", "").split(",")))


def gen_cases(rng, pid, n, nargs=3, focus=None):
    for k in range(n):
        try:
            src, entries, feat = gen_exec_program(rng, pid, small=(k % 4 == 0), focus=focus, nargs=nargs)
        except Exception as e:  # noqa: BLE001  (a generator problem must not kill the check)
            yield f"gen{k}", f"# generator failed: {type(e).__name__}: {e}\n", [], {"generator_error": 1}
            continue
        if "augsub" in AVOID_SHAPES and augsub_lifted(src):
            continue
        if "walrus3" in AVOID_SHAPES and walrus_third_operand(src):
            continue
        yield f"gen{k}", src, entries, feat


def tie_hugr_exec(ctx, pid="C03", n=None, budget_s=None):
    """end-to-end phase: corpus witnesses first, then generated programs until `n` programs or the wall-clock budget"""
    import random

    t0 = time.time()
    n = n if n is not None else ctx.n(100, 1800)
    budget_s = budget_s if budget_s is not None else ctx.n(11, 190)
    rng = random.Random(f"hugr-exec:{pid}:{getattr(ctx, 'seed', 0)}")
    st, ops = _new_stats(), set()
    st["budget_s"], st["target_programs"], st["stopped_by_budget"] = budget_s, n, False
    cases = _corpus(pid)
    rp = (getattr(ctx, "replay_in", None) or {}).get("replay") or {}
    if "hugr_source" in rp and rp.get("args") is not None:
        cases.insert(0, ("replay", rp["hugr_source"], [[rp["function"], [rp["args"]]]], {"corpus": 1}))
    # the corpus always runs completely; the budget applies to the generated programs
    run_cases(ctx, cases, st, t0 + 10 * budget_s + 60, ops, shrink=False)
    run_cases(ctx, gen_cases(rng, pid, n, nargs=ctx.n(3, 4)), st, t0 + budget_s, ops)
    return _finish(ctx, st, ops, t0, "hugr_exec")


def search_hugr_exec(ctx, pid="C03", budget_s=None):
    """something broke elsewhere in the check: look for a program whose lowered HUGR disagrees with CPython"""
    import random

    t0 = time.time()
    budget_s = budget_s if budget_s is not None else ctx.n(25, 150)
    rng = random.Random(f"hugr-exec-search:{pid}:{getattr(ctx, 'seed', 0)}")
    st, ops = _new_stats(), set()
    st["budget_s"], st["stopped_by_budget"] = budget_s, False
    found = 0
    for focus in ("effects", "nested", "field", "unpack", "order", "mixed") * 50:
        if time.time() - t0 > budget_s or found >= 2:
            break
        found += run_cases(ctx, gen_cases(rng, pid, 12, nargs=4, focus=focus), st, t0 + budget_s, ops, max_reports=2)
    st["failing_programs_found"] = found
    _finish(ctx, st, ops, t0, "hugr_exec_search")
    return found


# ============================================================================ scratch entry point (no Lean, no vlib)


class _FakeCtx:
    def __init__(self, seed=0, quick=True):
        self.seed, self.quick = seed, quick
        self.extra, self.dist, self.viol, self.broken, self.evaluations = {}, {}, [], [], 0
        self.nontrivial = set()
        self.replay_in = None

    def n(self, q, t):
        return q if self.quick else t

    def count(self, case, nontrivial, kind=None):
        self.evaluations += 1
        self.dist[kind] = self.dist.get(kind, 0) + 1
        if nontrivial:
            self.nontrivial.add(json.dumps(case, sort_keys=True, default=str))

    def bump(self, kind, n=1):
        self.dist[kind] = self.dist.get(kind, 0) + n

    def violation(self, key, what, replay, found_input=True):
        self.viol.append((key, what, replay))

    def broke(self, name):
        self.broken.append(name)


if __name__ == "__main__":
    import argparse

    ap = argparse.ArgumentParser()
    ap.add_argument("--n", type=int, default=200)
    ap.add_argument("--seed", type=int, default=0)
    ap.add_argument("--pid", default="C03")
    ap.add_argument("--budget", type=float, default=36000)
    ap.add_argument("--show", type=int, default=0, help="print the first k generated programs and exit")
    a = ap.parse_args()
    import bootstrap

    bootstrap.install()
    if a.show:
        import random

        rng_ = random.Random(f"hugr-exec:{a.pid}:{a.seed}")
        for _n, src_, ent_, feat_ in gen_cases(rng_, a.pid, a.show):
            print(src_, ent_, feat_, "\n" + "=" * 100)
        sys.exit(0)
    ctx_ = _FakeCtx(a.seed)
    st_ = tie_hugr_exec(ctx_, a.pid, n=a.n, budget_s=a.budget)
    for key_, what_, _rp in ctx_.viol[:10]:
        print("VIOLATION", what_[:3000], "\n")
    for b_ in ctx_.broken[:10]:
        print("BROKE", b_[:2000], "\n")
    print(json.dumps({k: v for k, v in st_.items()}, indent=1))
    print(f"violations={len(ctx_.viol)} broken={len(ctx_.broken)} cases={ctx_.evaluations} nontrivial={len(ctx_.nontrivial)}")
    sys.exit(1 if ctx_.viol or ctx_.broken else 0)
