"""C02: generator of well-typed Guppy functions and near-miss mutations of them (AST level).

Programs are Python source for ONE module: a fixed library header (structs, helpers, generics) followed by the
generated function `main` (possibly with nested functions).  All randomness comes from the `rng` passed in."""
from __future__ import annotations

import ast
import copy

LIB = '''
from guppylang.std.quantum import qubit, h, x, cx, measure, discard
from guppylang.std.builtins import array, owned, comptime, nat, result, panic, py

@guppy.struct
class P:
    a: int
    b: float

@guppy.struct
class Q:
    q: qubit
    n: int

@guppy
def add2(a: int, b: int) -> int:
    return a + b

@guppy
def scale(a: float, k: int) -> float:
    return a * k

@guppy
def ident[T](v: T @owned) -> T:
    return v

@guppy
def pair[T, U](u: T @owned, w: U @owned) -> tuple[U, T]:
    return w, u

@guppy
def flip(q: qubit) -> None:
    x(q)

@guppy
def fresh_pair() -> tuple[qubit, qubit]:
    a = qubit()
    b = qubit()
    cx(a, b)
    return a, b

@guppy
def is_pos(v: int) -> bool:
    return v > 0
'''

TYPES = ["int", "float", "bool", "tuple[int, bool]", "array[int, 3]", "P"]


class Gen:
    """random well-typed function bodies over a small typed fragment"""

    def __init__(self, rng):
        self.rng = rng
        self.n = 0

    def fresh(self, p="v"):
        self.n += 1
        return f"{p}{self.n}"

    # ------------------------------------------------------------------ expressions
    def expr(self, ty, env, d=0):
        r = self.rng
        vs = [v for v, t in env.items() if t == ty and ty != "array[int, 3]"]
        if d > 2 or (vs and r.random() < 0.35):
            if vs and r.random() < 0.8:
                return r.choice(vs)
            return self.lit(ty)
        k = r.random()
        if ty == "int":
            if k < 0.3:
                return f"({self.expr('int', env, d + 1)} {r.choice(['+', '-', '*', '//', '%'])} {self.expr('int', env, d + 1)})"
            if k < 0.4:
                return f"add2({self.expr('int', env, d + 1)}, {self.expr('int', env, d + 1)})"
            if k < 0.5:
                return f"({self.expr('int', env, d + 1)} if {self.expr('bool', env, d + 1)} else {self.expr('int', env, d + 1)})"
            if k < 0.58:
                avs = [v for v, t in env.items() if t == "array[int, 3]"]
                if avs and r.random() < 0.7:
                    return f"{r.choice(avs)}[{r.randrange(3)}]"
                return f"{self.expr('array[int, 3]', env, d + 1)}[{r.randrange(3)}]"
            if k < 0.66:
                return f"{self.expr('P', env, d + 1)}.a"
            if k < 0.72:
                return f"{self.expr('tuple[int, bool]', env, d + 1)}[0]"
            if k < 0.78:
                return f"ident({self.expr('int', env, d + 1)})"
            if k < 0.83:
                return f"int({self.expr('float', env, d + 1)})"
            if k < 0.87:
                return f"-{self.expr('int', env, d + 1)}"
            return self.lit(ty)
        if ty == "float":
            if k < 0.3:
                return f"({self.expr('float', env, d + 1)} {r.choice(['+', '-', '*', '/'])} {self.expr(r.choice(['float', 'int']), env, d + 1)})"
            if k < 0.45:
                return f"scale({self.expr('float', env, d + 1)}, {self.expr('int', env, d + 1)})"
            if k < 0.55:
                return f"{self.expr('P', env, d + 1)}.b"
            if k < 0.65:
                return f"float({self.expr('int', env, d + 1)})"
            return self.lit(ty)
        if ty == "bool":
            if k < 0.3:
                return f"({self.expr('int', env, d + 1)} {r.choice(['<', '<=', '==', '!=', '>', '>='])} {self.expr('int', env, d + 1)})"
            if k < 0.45:
                return f"({self.expr('bool', env, d + 1)} {r.choice(['and', 'or'])} {self.expr('bool', env, d + 1)})"
            if k < 0.55:
                return f"(not {self.expr('bool', env, d + 1)})"
            if k < 0.62:
                return f"is_pos({self.expr('int', env, d + 1)})"
            if k < 0.7:
                return f"({self.expr('int', env, d + 1)} < {self.expr('int', env, d + 1)} <= {self.expr('int', env, d + 1)})"
            if k < 0.76:
                return f"{self.expr('tuple[int, bool]', env, d + 1)}[1]"
            return self.lit(ty)
        if ty == "tuple[int, bool]":
            if k < 0.6:
                return f"({self.expr('int', env, d + 1)}, {self.expr('bool', env, d + 1)})"
            if k < 0.8:
                return f"pair({self.expr('bool', env, d + 1)}, {self.expr('int', env, d + 1)})"
            return self.lit(ty)
        if ty == "array[int, 3]":
            if k < 0.5:
                return f"array({self.expr('int', env, d + 1)}, {self.expr('int', env, d + 1)}, {self.expr('int', env, d + 1)})"
            if k < 0.75:
                v = self.fresh("i")
                return f"array(({v} + {self.expr('int', env, d + 2)}) for {v} in range(3))"
            return self.lit(ty)
        if ty == "P":
            return f"P({self.expr('int', env, d + 1)}, {self.expr('float', env, d + 1)})"
        raise AssertionError(ty)

    def lit(self, ty):
        r = self.rng
        return {
            "int": lambda: str(r.choice([0, 1, 2, 3, 7, -1, 100, 2**31, 2**63 - 1])),
            "float": lambda: r.choice(["0.0", "1.5", "-2.25", "3.0e3"]),
            "bool": lambda: r.choice(["True", "False"]),
            "tuple[int, bool]": lambda: f"({r.randrange(5)}, {r.choice(['True', 'False'])})",
            "array[int, 3]": lambda: "array(1, 2, 3)",
            "P": lambda: "P(1, 2.0)",
        }[ty]()

    # ------------------------------------------------------------------ statements
    def block(self, env, ret, d, in_loop, n=None):
        r = self.rng
        out = []
        for _ in range(n if n is not None else r.randrange(1, 3)):
            out += self.stmt(env, ret, d, in_loop)
        return out

    def stmt(self, env, ret, d, in_loop):
        r = self.rng
        k = r.random()
        ind = lambda ls: ["    " + l for l in ls]
        if k < 0.3 or d > 1:
            ty = r.choice(TYPES)
            v = self.fresh()
            s = [f"{v} = {self.expr(ty, env)}"]
            env[v] = ty
            return s
        if k < 0.38:
            vs = [v for v, t in env.items() if t in ("int", "float")]
            if vs:
                v = r.choice(vs)
                return [f"{v} {r.choice(['+=', '-=', '*='])} {self.expr(env[v], env)}"]
        if k < 0.5:
            e1, e2 = dict(env), dict(env)
            b1 = self.block(e1, ret, d + 1, in_loop)
            b2 = self.block(e2, ret, d + 1, in_loop)
            for v in e1:
                if v in e2 and e1[v] == e2[v]:
                    env[v] = e1[v]
            out = [f"if {self.expr('bool', env)}:"] + ind(b1)
            if r.random() < 0.3:
                e3 = dict(env)
                out += [f"elif {self.expr('bool', env)}:"] + ind(self.block(e3, ret, d + 1, in_loop))
                for v in list(env):
                    if v not in e3 and v not in dict.fromkeys(env):
                        pass
                # variables only defined in both if/else but not elif are dropped
                for v in [v for v in env if v not in e3]:
                    del env[v]
            out += ["else:"] + ind(b2)
            return out
        if k < 0.6:
            c = self.fresh("c")
            e1 = dict(env)
            e1[c] = "int"
            body = self.block(e1, ret, d + 1, True)
            if r.random() < 0.3:
                body += [f"if {self.expr('bool', e1)}:", "    " + r.choice(["break", "continue"])]
            return [f"{c} = 0", f"while {c} < {r.randrange(1, 5)}:"] + ind(body + [f"{c} += 1"]) if False else \
                [f"{c} = 0", f"while {c} < {r.randrange(1, 5)}:"] + ind([f"{c} += 1"] + body)
        if k < 0.7:
            i = self.fresh("i")
            e1 = dict(env)
            e1[i] = "int"
            src = r.choice([f"range({r.randrange(1, 5)})", self.expr("array[int, 3]", env)])
            return [f"for {i} in {src}:"] + ind(self.block(e1, ret, d + 1, True))
        if k < 0.78:
            # nested function (non-capturing or capturing a copyable int is experimental -> keep non-capturing)
            f = self.fresh("f")
            a = self.fresh("a")
            rt = r.choice(["int", "float", "bool"])
            e1 = {a: "int"}
            body = self.block(e1, rt, d + 1, False, n=r.randrange(0, 2)) + [f"return {self.expr(rt, e1)}"]
            v = self.fresh()
            call = f"{v} = {f}({self.expr('int', env)})"
            env[v] = rt
            return [f"def {f}({a}: int) -> {rt}:"] + ind(body) + [call]
        if k < 0.86:
            # a little quantum, linear values handled in one straight-line group
            q, m = self.fresh("q"), self.fresh("m")
            out = [f"{q} = qubit()", f"h({q})"]
            if r.random() < 0.5:
                out += [f"if {self.expr('bool', env)}:", f"    flip({q})"]
            if r.random() < 0.4:
                q2 = self.fresh("q")
                out += [f"{q2} = qubit()", f"cx({q}, {q2})", f"discard({q2})"]
            if r.random() < 0.3:
                s = self.fresh("s")
                out += [f"{s} = Q({q}, {self.expr('int', env)})", f"h({s}.q)", f"{m} = measure({s}.q)"]
            else:
                out += [f"{m} = measure({q})"]
            env[m] = "bool"
            return out
        if k < 0.92:
            a, b = self.fresh(), self.fresh()
            st = [f"{a}, {b} = {self.expr('tuple[int, bool]', env)}"]
            env[a], env[b] = "int", "bool"
            return st
        if k < 0.96 and ret is not None:
            return [f"if {self.expr('bool', env)}:", f"    return {self.expr(ret, env)}"]
        vs = [v for v, t in env.items() if t == "P" and not v.startswith("x")]
        if vs:
            return [f"{r.choice(vs)}.a = {self.expr('int', env)}"]
        return ["pass"]

    def function(self):
        r = self.rng
        self.n = 0
        nargs = r.randrange(0, 4)
        env, args = {}, []
        for _ in range(nargs):
            t = r.choice(TYPES)
            a = self.fresh("x")
            env[a] = t
            args.append(f"{a}: {t}")
        ret = r.choice(["int", "float", "bool", "tuple[int, bool]", "P"])
        body = self.block(env, ret, 0, False, n=r.randrange(1, 5)) + [f"return {self.expr(ret, env)}"]
        return f"@guppy\ndef main({', '.join(args)}) -> {ret}:\n" + "\n".join("    " + l for l in body) + "\n"


# ---------------------------------------------------------------------------------------------------- mutation
WEIRD_EXPRS = [
    "1", "1.5", "True", "None", "'s'", "(1, 2)", "[1, 2]", "{}", "{1, 2}", "b'x'", "1j", "...", "-1", "10**30",
    "zz", "int", "qubit", "P", "add2", "ident", "array", "range", "len", "print", "qubit()", "P(1)", "P(1, 2.0, 3)",
    "add2()", "add2(1)", "add2(1, 2, 3)", "add2(1, b=2)", "add2(*[1, 2])", "add2(**{})", "ident[int](1)", "ident[int, int](1)",
    "pair(1)", "lambda: 1", "[i for i in range(3)]", "(i for i in range(3))", "{i: i for i in range(3)}",
    "comptime(1)", "comptime(zz)", "comptime([1, 2])", "comptime((1, 2.0))", "comptime('s')", "comptime(add2)",
    "comptime(1/0)", "py(1)", "array(1, 2.0)", "array()", "array(i for i in range(3) if i > 1)",
    "array(i + j for i in range(2) for j in range(2))", "array(qubit() for _ in range(2))", "1 if True else 2.0",
    "(yield 1)", "f'{1}'", "1 < 2 < 3.0", "1 is 1", "1 in (1, 2)", "not 1", "-True", "~1.5", "1 @ 2", "1 ** -1",
    "1 << 2.0", "True + True", "(w := 1)", "x0", "main", "main()", "measure(qubit())", "h(qubit())", "h(1)",
    "discard(1)", "measure", "result('t', 1)", "result(1, 1)", "panic('x')", "panic(1)", "nat(1)", "nat(-1)", "int('1')",
    "float(True)", "bool(1.5)", "P(1, 2.0).c", "P.a", "(1, 2)[2]", "(1, 2)[zz]", "(1, True)[1:]", "array(1, 2, 3)[5]",
    "array(1, 2, 3)[1:2]", "array(1,2,3)[True]", "Q(qubit(), 1)", "Q(qubit(), 1).n", "fresh_pair()", "fresh_pair()[0]",
    "flip", "flip(qubit())", "owned", "1 @owned", "a.b.c", "().x", "None.x", "(lambda v: v)(1)", "[*range(2)]",
    "(*(1, 2),)", "1 if zz else 2", "abs(1)", "min(1, 2)", "max(1.0, 2)", "pow(2, 3)", "divmod(5, 2)", "round(1.5)",
    "len(array(1, 2, 3))", "len(1)", "str(1)", "list()", "tuple()", "dict()", "set()", "type(1)", "isinstance(1, int)",
    "callable(1)", "id(1)", "iter(range(3))", "next(iter(range(3)))", "sum(array(1,2,3))", "enumerate(range(2))",
    "zip(range(2), range(2))", "sorted(array(1,2,3))", "reversed(range(3))", "all(array(True,))", "any(())", "bytes(1)",
    "0x10", "0b11", "1_000", "1e400", "-0.0", "float('nan')", "2**63", "-2**63 - 1", "2**64",
]

STMT_SNIPPETS = [
    "global gg", "nonlocal nn", "del x0", "import os", "from os import path", "class C:\n    pass", "assert True",
    "assert x0", "raise ValueError()", "raise", "pass", "return", "return 1, 2, 3", "x9: int = 1", "x9: int", "a9 = b9 = 1",
    "a9, *b9 = (1, 2, 3)", "(a9, b9), c9 = (1, 2), 3", "a9, b9 = 1", "a9, b9 = (1, 2, 3)", "[a9, b9] = (1, 2)", "zz.y = 1",
    "zz[0] = 1", "P(1, 2.0).a = 3", "(1, 2)[0] = 3", "array(1, 2, 3)[0] = 3", "with zz:\n    pass", "with open('f') as g:\n    pass",
    "try:\n    pass\nexcept Exception:\n    pass", "try:\n    pass\nfinally:\n    pass", "match 1:\n    case 1:\n        pass",
    "async def g9():\n    pass", "def g9():\n    yield 1", "def g9(a):\n    return a", "def g9(a: int):\n    return a",
    "def g9(a: int = 1) -> int:\n    return a", "def g9(*a: int) -> int:\n    return 1", "def g9(**a: int) -> int:\n    return 1",
    "def g9(a: int, /) -> int:\n    return a", "def g9(*, a: int) -> int:\n    return a", "def g9[T](a: T) -> T:\n    return a",
    "def g9(a: int) -> int:\n    return g9(a)", "def g9(a: int) -> int:\n    return a + zz", "def g9() -> int:\n    return x0",
    "@guppy\ndef g9() -> int:\n    return 1", "g9 = lambda: 1", "for _ in range(3):\n    pass\nelse:\n    pass",
    "while True:\n    pass", "while False:\n    pass", "while True:\n    break\nelse:\n    pass", "for a9, b9 in range(3):\n    pass",
    "for a9 in 1:\n    pass", "for a9 in (1, 2):\n    pass", "for a9 in qubit():\n    pass", "for q9 in array(qubit(), qubit()):\n    pass",
    "for q9 in array(qubit(), qubit()):\n    discard(q9)", "for q9 in array(qubit(), qubit()):\n    discard(q9)\n    break",
    "if zz:\n    pass", "if 1:\n    pass", "if None:\n    pass", "if qubit():\n    pass", "if P(1, 2.0):\n    pass", "if (1, 2):\n    pass",
    "q9 = qubit()", "q9 = qubit()\nq8 = q9\ndiscard(q9)", "q9 = qubit()\ndiscard(q9)\ndiscard(q9)", "q9 = qubit()\nh(q9)\nreturn",
    "q9 = qubit()\nif True:\n    discard(q9)", "q9 = qubit()\nwhile True:\n    discard(q9)", "q9 = qubit()\ncx(q9, q9)\ndiscard(q9)",
    "q9 = qubit()\nq9 = qubit()\ndiscard(q9)", "s9 = Q(qubit(), 1)\ndiscard(s9.q)\ndiscard(s9.q)", "s9 = Q(qubit(), 1)\nn9 = s9.n",
    "s9 = Q(qubit(), 1)\nt9 = s9\ndiscard(s9.q)", "a9 = array(qubit(), qubit())\ndiscard(a9[0])", "a9 = array(qubit(), qubit())",
    "a9 = array(qubit(), qubit())\nb9 = a9[0]\ndiscard(b9)", "qa, qb = fresh_pair()\ndiscard(qa)", "fresh_pair()", "measure(qubit())",
    "x0 = 1", "x0 += 1", "zz += 1", "x0 += 1.5", "x0 @= 1", "x0: float = 1", "print(1)", "comptime(print(1))", "result('a', 1)",
    "result('a', qubit())", "result(zz, 1)", "1", "zz", "qubit()", "(yield)", "await zz", "break", "continue",
    "def g9() -> None:\n    global gg", "h(zz)", "add2(1, 2)", "add2(qubit(), 1)", "ident(qubit())", "discard(ident(qubit()))",
    "type T9 = int", "lambda: 1", "a9 = [1, 2]", "a9 = [qubit()]", "a9 = []", "a9 = {}", "a9 = (1, (2, (3, 4)))\nb9 = a9[1][1][0]",
    "a9 = array(array(1, 2), array(3, 4))\nb9 = a9[0][1]", "a9 = array(array(1, 2), array(3, 4))\na9[0][1] = 5",
    "a9 = comptime([[1, 2], [3, 4]])", "a9 = comptime([1, 2.0])", "a9 = comptime([])", "a9 = comptime({})", "a9 = comptime(None)",
    "a9 = comptime(zz + 1)", "a9 = comptime(main)", "a9 = comptime(P)", "a9 = comptime(P(1, 2.0))", "a9 = comptime(x0)",
]

ANNOTS = ["int", "float", "bool", "nat", "qubit", "qubit @owned", "int @owned", "P", "Q", "Q @owned", "tuple[int, bool]", "tuple[()]",
          "tuple[int, ...]", "tuple", "array[int, 3]", "array[int]", "array[int, 3, 4]", "array[3, int]", "array[qubit, 2]",
          "array[qubit, 2] @owned", "array[int, -1]", "array[int, zz]" if False else "array[int, 2 + 1]", "list[int]", "list[qubit]", "dict[int, int]",
          "None", "'int'", "'qubit @owned'", "'zz'", "int | float", "1", "1.5", "(int, bool)", "[int]", "add2", "comptime", "int @comptime",
          "nat @comptime", "float @comptime", "qubit @comptime", "array[int, 3] @comptime", "ident", "ident[int]", "P[int]", "int[int]",
          "type", "object", "str", "bytes", "complex", "range", "array", "owned", "int @owned @owned", "int @zz" if False else "int @1",
          "tuple[qubit, int]", "tuple[qubit, int] @owned", "tuple[tuple[int, bool], array[int, 3]]", "Callable", "callable",
          "__import__('typing').Callable[[int], int]", "__import__('collections.abc').abc.Callable[[int], int]",
          "__import__('typing').Callable[[qubit], None]", "__import__('typing').Any", "__import__('typing').Optional[int]",
          "__import__('typing').TypeVar('T9')", "guppy.type_var('T8')", "guppy.nat_var('n8')", "array[int, guppy.nat_var('n7')]"]


class Mutator:
    """one random near-miss mutation of the `main` function of a program"""

    def __init__(self, rng):
        self.rng = rng

    def _parse_snip(self, s):
        try:
            return ast.parse(s).body
        except SyntaxError:
            return None

    def _mutate_struct(self, tree, cls) -> tuple[str, str] | None:
        """one mutation of a `@guppy.struct` class definition"""
        r = self.rng
        fields = [n for n in cls.body if isinstance(n, ast.AnnAssign)]
        k = r.choice(["annot", "annot", "dup", "default", "plain_assign", "base", "method_named_field", "empty", "self_ref", "nested_class",
                      "undecorated_method", "deco", "generic_unused", "del_field"])
        if k == "annot" and fields:
            r.choice(fields).annotation = ast.parse(r.choice(ANNOTS), mode="eval").body
        elif k == "dup" and fields:
            cls.body.append(copy.deepcopy(r.choice(fields)))
        elif k == "default" and fields:
            r.choice(fields).value = ast.parse(r.choice(["1", "zz", "qubit()", "None"]), mode="eval").body
        elif k == "plain_assign":
            cls.body.append(ast.parse("y9 = 1").body[0])
        elif k == "base":
            cls.bases.append(ast.parse(r.choice(["int", "object", "zz" if False else "Exception", cls.name if False else "dict",
                                                 "__import__('typing').Generic[__import__('guppylang').guppy.type_var('B9')]"]), mode="eval").body)
        elif k == "method_named_field" and fields:
            nm = fields[0].target.id if isinstance(fields[0].target, ast.Name) else "x"
            cls.body.append(ast.parse(f"@guppy\ndef {nm}(self: '{cls.name}') -> int:\n    return 1").body[0])
        elif k == "empty":
            cls.body = [ast.Pass()]
        elif k == "self_ref" and fields:
            r.choice(fields).annotation = ast.Constant(r.choice([cls.name, f"tuple[{cls.name}, int]", f"array[{cls.name}, 2]", f"{cls.name}[int]"]))
        elif k == "nested_class":
            cls.body.append(ast.parse("class I9:\n    z: int").body[0])
        elif k == "undecorated_method":
            cls.body.append(ast.parse("def m9(self) -> int:\n    return 1").body[0])
        elif k == "deco":
            cls.decorator_list = [ast.parse(r.choice(["guppy", "guppy.struct()", "guppy.struct", "guppy.declare", "guppy.comptime"]), mode="eval").body]
        elif k == "generic_unused":
            cls.body.insert(0, ast.parse("u9: 'U9'").body[0])
        elif k == "del_field" and len(fields) > 0:
            cls.body.remove(r.choice(fields))
            if not cls.body:
                cls.body = [ast.Pass()]
        else:
            return None
        ast.fix_missing_locations(tree)
        try:
            return "struct_" + k, ast.unparse(tree) + "\n"
        except Exception:  # noqa: BLE001
            return None

    def mutate(self, func_src: str) -> tuple[str, str] | None:
        """returns (kind, new source of the function) or None if this mutation was not applicable"""
        r = self.rng
        try:
            tree = ast.parse(func_src)
        except SyntaxError:
            return None
        classes = [n for n in ast.walk(tree) if isinstance(n, ast.ClassDef) and n.decorator_list
                   and ast.unparse(n.decorator_list[-1]).startswith("guppy.struct")]
        if classes and r.random() < 0.1:
            return self._mutate_struct(tree, r.choice(classes))
        cands = [n for n in ast.walk(tree) if isinstance(n, ast.FunctionDef) and n.decorator_list
                 and ast.unparse(n.decorator_list[-1]).startswith(("guppy", "compile_guppy"))]
        if not cands:
            return None
        fd = r.choice(cands)
        exprs, stmts_lists, calls, names, funcs, binops, compares = [], [], [], [], [], [], []
        def walk_no_deco(n):
            yield n
            for field, val in ast.iter_fields(n):
                if field == "decorator_list":
                    continue
                for ch in (val if isinstance(val, list) else [val]):
                    if isinstance(ch, ast.AST):
                        yield from walk_no_deco(ch)

        for parent in walk_no_deco(fd):
            for field, val in ast.iter_fields(parent):
                if field in ("decorator_list", "returns", "annotation", "type_params"):
                    continue
                if isinstance(val, list) and val and all(isinstance(x, ast.stmt) for x in val):
                    stmts_lists.append((parent, field))
                if isinstance(val, ast.expr) and not isinstance(parent, (ast.arg,)):
                    if isinstance(val.ctx if hasattr(val, "ctx") else None, (ast.Store, ast.Del)):
                        continue
                    exprs.append((parent, field, None))
                if isinstance(val, list):
                    for i, x in enumerate(val):
                        if isinstance(x, ast.expr) and not isinstance(getattr(x, "ctx", None), (ast.Store, ast.Del)) \
                                and not isinstance(parent, ast.arguments) and field != "decorator_list":
                            exprs.append((parent, field, i))
            if isinstance(parent, ast.Call):
                calls.append(parent)
            if isinstance(parent, ast.Name) and isinstance(parent.ctx, ast.Load):
                names.append(parent)
            if isinstance(parent, ast.FunctionDef):
                funcs.append(parent)
            if isinstance(parent, ast.BinOp):
                binops.append(parent)
            if isinstance(parent, ast.Compare):
                compares.append(parent)

        def get(slot):
            p, f, i = slot
            v = getattr(p, f)
            return v if i is None else v[i]

        def put(slot, new):
            p, f, i = slot
            if i is None:
                setattr(p, f, new)
            else:
                getattr(p, f)[i] = new

        kind = r.choice(["weird_expr", "weird_expr", "weird_expr", "wrap_expr", "wrap_expr", "rename", "rename", "arity", "binop",
                         "cmpop", "del_stmt", "dup_stmt", "swap_stmt", "wrap_stmt", "wrap_stmt", "ins_stmt", "ins_stmt", "ins_stmt",
                         "early_return", "annot", "annot", "ret_annot", "sig", "swap_expr", "into_nested", "dup_use", "deco",
                         "subscript_target", "lin_arg", "to_comptime", "to_comptime", "to_comptime"])
        if kind == "weird_expr" and exprs:
            slot = r.choice(exprs)
            w = ast.parse(r.choice(WEIRD_EXPRS), mode="eval").body
            put(slot, w)
        elif kind == "wrap_expr" and exprs:
            slot = r.choice(exprs)
            e = get(slot)
            t = r.choice(["zz({})", "{}.foo", "{}[0]", "{}()", "-{}", "not {}", "({} if {} else {})", "({} + 1.5)", "({} and 1)",
                          "({}, {})", "[{} for _ in range(2)]", "array({} for _ in range(2))", "comptime({})", "{}[0:1]", "({} < {} < {})",
                          "({} is None)", "ident({})", "pair({}, {})", "int({})", "bool({})", "float({})", "add2({}, {})", "({} or {})",
                          "(lambda: {})()", "{}.a", "{}.q", "measure({})", "discard({})", "h({})", "({} == {})", "({} != None)",
                          "(w9 := {})", "P({}, {})", "Q({}, 1)", "array({}, {}, {})", "len({})", "abs({})", "({} @ {})", "({} ** 2)",
                          "({} // 0)", "({} % 0)", "({} / 0)", "({} << 70)", "({} >> -1)", "nat({})", "({}, )", "result('r', {})"])
            s = ast.unparse(e)
            try:
                put(slot, ast.parse(t.replace("{}", s), mode="eval").body)
            except SyntaxError:
                return None
        elif kind == "rename" and names:
            n = r.choice(names)
            others = sorted({x.id for x in names} | {a.arg for f in funcs for a in f.args.args})
            n.id = r.choice(["zz", "main", "int", "P", "qubit", "add2"] + others)
        elif kind == "arity" and calls:
            c = r.choice(calls)
            k = r.random()
            if k < 0.35 and c.args:
                del c.args[r.randrange(len(c.args))]
            elif k < 0.7:
                c.args.insert(r.randrange(len(c.args) + 1), ast.parse(r.choice(["1", "True", "zz", "qubit()"]), mode="eval").body)
            elif k < 0.85:
                c.keywords.append(ast.keyword(arg=r.choice(["a", "k", "v"]), value=ast.Constant(1)))
            else:
                c.args.append(ast.Starred(value=ast.parse("(1, 2)", mode="eval").body, ctx=ast.Load()))
        elif kind == "binop" and binops:
            b = r.choice(binops)
            b.op = r.choice([ast.MatMult, ast.Pow, ast.FloorDiv, ast.LShift, ast.RShift, ast.BitOr, ast.BitXor, ast.BitAnd, ast.Div,
                             ast.Mod, ast.Sub])()
        elif kind == "cmpop" and compares:
            c = r.choice(compares)
            c.ops[r.randrange(len(c.ops))] = r.choice([ast.Is, ast.IsNot, ast.In, ast.NotIn, ast.Eq, ast.Lt])()
        elif kind == "swap_expr" and len(exprs) >= 2:
            a, b = r.sample(exprs, 2)
            ea, eb = copy.deepcopy(get(a)), copy.deepcopy(get(b))
            put(a, eb)
            put(b, ea)
        elif kind == "del_stmt" and stmts_lists:
            p, f = r.choice(stmts_lists)
            l = getattr(p, f)
            if len(l) < 2:
                return None
            del l[r.randrange(len(l))]
        elif kind == "dup_stmt" and stmts_lists:
            p, f = r.choice(stmts_lists)
            l = getattr(p, f)
            i = r.randrange(len(l))
            l.insert(r.randrange(len(l) + 1), copy.deepcopy(l[i]))
        elif kind == "swap_stmt" and stmts_lists:
            p, f = r.choice(stmts_lists)
            l = getattr(p, f)
            if len(l) < 2:
                return None
            i = r.randrange(len(l) - 1)
            l[i], l[i + 1] = l[i + 1], l[i]
        elif kind == "wrap_stmt" and stmts_lists:
            p, f = r.choice(stmts_lists)
            l = getattr(p, f)
            i = r.randrange(len(l))
            hdr = r.choice(["if x0 > 0:", "if True:", "if False:", "while False:", "while zz:", "for _ in range(2):", "for _ in range(0):",
                            "if comptime(True):", "if comptime(False):", "with zz:", "try:", "def w9() -> None:", "def w9() -> int:",
                            "if 1 < 2 < 3:", "while True:", "if not True:", "for _ in array(1, 2):", "if x0:", "with dagger:", "with power(2):", "with control(qubit()):",
                            "with control(zz):", "with dagger, power(2):", "with power(x0):", "with dagger as d9:", "with control():",
                            "while x0 > 0:", "for i9 in range(x0):", "if (w8 := True):", "for (a9, b9) in array((1, 2), (3, 4)):"])
            src = hdr + "\n    pass"
            if hdr == "try:":
                src += "\nexcept Exception:\n    pass"
            body = self._parse_snip(src)
            if body is None:
                return None
            w = body[0]
            w.body = [l[i]]
            l[i] = w
        elif kind == "ins_stmt" and stmts_lists:
            p, f = r.choice(stmts_lists)
            l = getattr(p, f)
            body = self._parse_snip(r.choice(STMT_SNIPPETS))
            if body is None:
                return None
            pos = r.randrange(len(l) + 1)
            l[pos:pos] = body
        elif kind == "early_return" and stmts_lists:
            p, f = r.choice(stmts_lists)
            l = getattr(p, f)
            val = r.choice(["1", "1.5", "True", "zz", "None", "", "(1, True)", "P(1, 2.0)", "qubit()"])
            l.insert(r.randrange(len(l) + 1), ast.parse(f"def _f():\n    return {val}").body[0].body[0])
        elif kind == "annot" and funcs:
            f = r.choice(funcs)
            if not f.args.args:
                return None
            a = r.choice(f.args.args)
            k = r.random()
            if k < 0.15:
                a.annotation = None
            else:
                a.annotation = ast.parse(r.choice(ANNOTS), mode="eval").body
        elif kind == "ret_annot" and funcs:
            f = r.choice(funcs)
            f.returns = None if r.random() < 0.2 else ast.parse(r.choice(ANNOTS), mode="eval").body
        elif kind == "sig" and funcs:
            f = r.choice(funcs)
            k = r.random()
            if k < 0.2:
                f.args.args.append(ast.arg(arg="d9", annotation=ast.Name("int", ast.Load())))
                f.args.defaults.append(ast.Constant(1))
            elif k < 0.35:
                f.args.vararg = ast.arg(arg="va", annotation=ast.Name("int", ast.Load()))
            elif k < 0.5:
                f.args.kwarg = ast.arg(arg="kw", annotation=ast.Name("int", ast.Load()))
            elif k < 0.6:
                f.args.kwonlyargs.append(ast.arg(arg="ko", annotation=ast.Name("int", ast.Load())))
                f.args.kw_defaults.append(None)
            elif k < 0.7 and f.args.args:
                f.args.posonlyargs.append(f.args.args.pop(0))
            elif k < 0.8:
                f.args.args.append(ast.arg(arg="q9", annotation=ast.Name("qubit", ast.Load())))
            elif k < 0.9:
                f.args.args.append(ast.arg(arg="q9", annotation=ast.parse("qubit @owned", mode="eval").body))
            else:
                f.args.args.insert(0, ast.arg(arg="self", annotation=None))
        elif kind == "into_nested" and stmts_lists:
            p, f = r.choice(stmts_lists)
            l = getattr(p, f)
            i = r.randrange(len(l))
            w = ast.parse("def n9() -> None:\n    pass\nn9()").body
            w[0].body = [l[i]]
            l[i:i + 1] = w
        elif kind == "deco":
            d = r.choice(["guppy", "guppy.comptime", "guppy.declare", "guppy(unitary=True)", "guppy(dagger=True)", "guppy(control=True)",
                          "guppy(power=True)", "guppy(unitary=1)", "guppy(zz=True)", "guppy.comptime(unitary=True)", "guppy.declare(dagger=True)",
                          "guppy.overload()", "guppy.struct", "guppy()", "guppy.comptime()"])
            fd.decorator_list = [ast.parse(d, mode="eval").body]
        elif kind == "to_comptime":
            # the same body traced by CPython instead of checked: calls of Guppy functions go through `trace_call`
            # (argument conversion, comptime arguments, borrowed arguments, overloads) - a path of its own
            fd.decorator_list = [ast.parse(r.choice(["guppy.comptime", "guppy.comptime", "guppy.comptime()", "guppy.comptime(unitary=True)"]),
                                           mode="eval").body]
            if calls and r.random() < 0.5:
                # and make one call argument a traced value / a Python value of another kind
                c = r.choice(calls)
                if c.args:
                    i = r.randrange(len(c.args))
                    t = r.choice(["nat({})", "int({})", "float({})", "bool({})", "({}, {})", "[{}]", "{} + 1", "comptime({})", "array({})",
                                  "str({})", "-{}", "({} if True else {})", "None"])
                    try:
                        c.args[i] = ast.parse(t.replace("{}", ast.unparse(c.args[i])), mode="eval").body
                    except SyntaxError:
                        return None
        elif kind == "subscript_target" and stmts_lists:
            # turn an assignment target into a subscript / attribute / starred / tuple target
            asg = [n for n in ast.walk(fd) if isinstance(n, (ast.Assign, ast.AugAssign, ast.AnnAssign, ast.For))]
            if not asg:
                return None
            a = r.choice(asg)
            t = r.choice(["{}[0]", "{}[zz]", "{}[0][1]", "{}.a", "{}.q", "{}.a.b", "{}[0].a", "({}, w9)", "[{}, w9]", "(*{},)", "(w9, *{})",
                          "{}[0:1]", "{}[True]", "{}[1.5]", "{}[-1]", "{}[100]", "{}[qubit()]", "{}[(w9 := 0)]", "{}[1 if True else 0]",
                          "{}[add2(0, 0)]", "({}, ({}, w9))", "{}()", "-{}", "zz.y", "P(1, 2.0).a", "(lambda: 1)[0]"])
            tgt = a.targets[0] if isinstance(a, ast.Assign) else a.target
            try:
                new_t = ast.parse(t.replace("{}", ast.unparse(tgt)) + " = 0").body[0].targets[0]
            except SyntaxError:
                return None
            if isinstance(a, ast.Assign):
                a.targets[0] = new_t
            else:
                a.target = new_t
        elif kind == "lin_arg" and funcs:
            # add / change a linear parameter and use it in odd ways
            f = r.choice(funcs)
            ann = r.choice(["qubit", "qubit @owned", "array[qubit, 2]", "array[qubit, 2] @owned", "Q", "Q @owned", "tuple[qubit, int] @owned",
                            "array[array[qubit, 2], 2]", "array[Q, 2] @owned", "qubit @comptime", "int @comptime", "nat @comptime"])
            f.args.args.append(ast.arg(arg="l9", annotation=ast.parse(ann, mode="eval").body))
            use = r.choice(["discard(l9)", "h(l9)", "h(l9[0])", "h(l9.q)", "l8 = l9", "l8 = l9[0]", "l8 = l9.q", "cx(l9[0], l9[0])", "cx(l9[0], l9[1])",
                            "l9 = qubit()", "l9[0] = qubit()", "l9.q = qubit()", "for l8 in l9:\n    discard(l8)", "l8 = (l9, l9)", "l8 = [l9]",
                            "l8 = array(l9)", "l8 = array(l7 for l7 in l9)", "with control(l9):\n    pass", "with control(l9[0]):\n    h(l9[1])",
                            "with dagger:\n    h(l9)", "with power(l9):\n    pass", "measure(l9)", "measure(l9[0])", "l8 = measure(l9.q)",
                            "def n9() -> None:\n    h(l9)", "def n9() -> None:\n    discard(l9)\nn9()", "if l9:\n    pass", "while l9:\n    pass",
                            "l8 = l9 if True else l9", "l8 = l9 and l9", "l8 = comptime(l9)", "l8 = l9 == l9", "l8 = -l9", "l8 = l9 + 1", "del l9",
                            "return l9", "l9 += 1", "l8, l7 = l9", "l8, *l7 = l9", "*l8, = l9", "l8 = l9[0:1]", "l9[0], l9[1] = l9[1], l9[0]"])
            body = self._parse_snip(use)
            if body is None:
                return None
            f.body[r.randrange(len(f.body) + 1):0] = body
        elif kind == "dup_use" and names:
            # use a variable twice (linearity violation when it is a qubit)
            n = r.choice(names)
            tgt = r.choice(["discard({})", "measure({})", "h({})", "ident({})", "z9 = {}", "cx({0}, {0})".replace("{0}", "{}")])
            if not stmts_lists:
                return None
            p, f = r.choice(stmts_lists)
            l = getattr(p, f)
            body = self._parse_snip(tgt.replace("{}", n.id))
            l[r.randrange(len(l) + 1):0] = body
        else:
            return None
        ast.fix_missing_locations(tree)
        try:
            return kind, ast.unparse(tree) + "\n"
        except Exception:  # noqa: BLE001
            return None


# ---------------------------------------------------------------------------------------------- typed-entity programs
class TypedEntityGen:
    """programs whose diagnostic has to PRINT the type of a generic function / generic struct with interleaved comptime,
    const and type parameters: a random signature (type variables, `@comptime` arguments, nat/const variables, arrays,
    callables, generic structs, in every order; old-style type variables or PEP 695 syntax; defined or declared) and one
    misuse of the entity in `main` (arity, argument type at some position, value of the wrong type, type application,
    higher-order use, operators, unknown comptime argument, overloads, struct construction / annotation / field)"""

    HEAD = (
        "from collections.abc import Callable\nfrom typing import Generic\nfrom guppylang import guppy\n"
        "from guppylang.std.builtins import array, owned, comptime, nat\nfrom guppylang.std.quantum import qubit, discard\n"
        "T = guppy.type_var('T')\nU = guppy.type_var('U')\nL = guppy.type_var('L', copyable=False, droppable=False)\n"
        "N = guppy.nat_var('N')\nM = guppy.nat_var('M')\nB = guppy.const_var('B', 'bool')\nF = guppy.const_var('F', 'float')\n"
        "@guppy.struct\nclass S(Generic[T, N, B]):\n    x: T\n    xs: array[int, N]\n"
        "@guppy.struct\nclass R(Generic[N, T, F, U]):\n    t: T\n    u: U\n"
        "@guppy.declare\ndef apply(f: Callable[[T], U], x: T) -> U: ...\n"
        "@guppy.declare\ndef ident(x: T) -> T: ...\n"
    )
    # (annotation, a correct argument expression, uses type params)
    SLOTS = [
        ("T", "1"), ("U", "2.5"), ("T", "True"), ("nat @comptime", "3"), ("int @comptime", "-4"), ("bool @comptime", "True"),
        ("float @comptime", "1.5"), ("array[T, N]", "array(1, 2)"), ("array[int, N]", "array(1, 2, 3)"), ("int", "7"),
        ("Callable[[T], U]", "conv"), ("tuple[T, U]", "(1, 2.5)"), ("S[T, N, B]", "S(1, array(1, 2))"), ("S[int, M, True]", "S(1, array(1, 2))"),
        ("R[N, T, F, U]", "r0"), ("L @owned", "qubit()"), ("array[L, N] @owned", "array(qubit(), qubit())"), ("tuple[int, T]", "(1, 1)"),
        ("Callable[[], T]", "mk"), ("array[array[T, N], M]", "array(array(1), array(2))"),
    ]
    RETS = ["T", "U", "None", "int", "array[T, N]", "tuple[T, U]", "Callable[[T], U]", "S[T, N, B]", "nat", "L", "tuple[()]", "R[N, T, F, U]"]
    BAD_ARGS = ["1.5", "True", "qubit()", "(1, 2)", "ENT", "None", "'s'", "array(1, 2)", "a", "comptime(1)", "S", "conv", "[1]", "nat(1)", "zz"]

    def __init__(self, rng):
        self.rng = rng

    def signature(self):
        r = self.rng
        k = r.randrange(1, 6)
        slots = [r.choice(self.SLOTS) for _ in range(k)]
        if r.random() < 0.7 and not any("@comptime" in s[0] for s in slots):
            slots.insert(r.randrange(len(slots) + 1), r.choice(self.SLOTS[3:7]))
        ret = r.choice(self.RETS)
        names = [f"p{i}" for i in range(len(slots))]
        return slots, names, ret

    def entity(self):
        r = self.rng
        slots, names, ret = self.signature()
        params = ", ".join(f"{n}: {s[0]}" for n, s in zip(names, slots))
        style = r.choice(["declare", "define", "define", "pep695", "comptime", "overload", "method"])
        only_nat = all("@comptime" not in s[0] or s[0].startswith("nat") for s in slots)
        if not only_nat and style in ("declare", "overload", "method"):
            style = "define"  # declarations may only be generic over nat comptime arguments
        rec = f"return ent({', '.join(names)})"  # a body that checks at every return type
        if style == "define":
            src = f"@guppy\ndef ent({params}) -> {ret}:\n    {rec}\n"
        elif style == "pep695":
            used = " ".join(s[0] for s in slots) + " " + ret
            tps = [t for t in ("T", "U", "L") if t in used.replace("L @", "L @").split() or f"[{t}" in used or f"{t}," in used or f" {t}]" in used or used.strip().endswith(t) or f"{t} " in used]
            tp = ", ".join(dict.fromkeys(["T"] + tps + (["N: nat"] if "N" in used else []) + (["M: nat"] if "M" in used else [])
                                          + (["B: bool"] if "B]" in used else []) + (["F: float"] if "F," in used else [])))
            src = (f"@guppy.declare\ndef ent[{tp}]({params}) -> {ret}: ...\n" if only_nat else
                   f"@guppy\ndef ent[{tp}]({params}) -> {ret}:\n    {rec}\n")
        elif style == "comptime":
            src = f"@guppy.comptime\ndef ent({params}) -> {ret}:\n    return None\n"
        elif style == "overload":
            s2, n2, r2 = self.signature()
            p2 = ", ".join(f"{n}: {s[0]}" for n, s in zip(n2, s2))
            src = (f"@guppy.declare\ndef v1({params}) -> {ret}: ...\n@guppy.declare\ndef v2({p2}) -> {r2}: ...\n"
                   "@guppy.overload(v1, v2)\ndef ent(): ...\n")
        elif style == "method":
            src = (f"@guppy.struct\nclass W(Generic[U, M]):\n    w: U\n    @guppy.declare\n    def meth(self: 'W[U, M]', {params}) -> {ret}: ...\n")
        else:
            src = f"@guppy.declare\ndef ent({params}) -> {ret}: ...\n"
        return src, slots, style

    def misuse(self, slots, style):
        r = self.rng
        good = [s[1] for s in slots]
        ent = "w.meth" if style == "method" else "ent"

        def call(args):
            return f"{ent}({', '.join(args)})"
        k = r.randrange(16)
        if k == 0:
            a = list(good)
            if a:
                del a[r.randrange(len(a))]
            return f"{call(a)}"
        if k == 1:
            a = list(good)
            a.insert(r.randrange(len(a) + 1), r.choice(self.BAD_ARGS + good))
            if r.random() < 0.3:
                a.append("1")
            return call(a)
        if k in (2, 3, 4):
            a = list(good)
            a[r.randrange(len(a))] = r.choice(self.BAD_ARGS).replace("ENT", ent)
            return call(a)
        if k == 5:
            return r.choice([f"f: int = {ent}", f"f: Callable[[int], int] = {ent}", f"f: Callable[[], None] = {ent}", f"f: array[int, 2] = {ent}",
                             f"f: S[int, 2, True] = {ent}", f"f: tuple[int, int] = ({ent}, {ent})", f"f: T = {ent}"])
        if k == 6:
            return r.choice([f"{ent}[int]", f"{ent}[int, int, int, 3]", f"{ent}[3]", f"{ent}[int]({', '.join(good)})", f"{ent}[T]",
                             f"{ent}[int, float, qubit, 2, 3, True, 1.5]({', '.join(good)})", f"{ent}[()]", f"{ent}[zz]"])
        if k == 7:
            return r.choice([f"apply({ent}, 1)", f"ident({ent})", f"apply({ent}, {ent})", f"apply(ident, {ent})", f"x = ident({ent})\nx(1)",
                             f"apply(apply, {ent})"])
        if k == 8:
            return r.choice([f"{call(good)}(1)", f"{call(good)}.zz", f"{call(good)}[0]", f"x: qubit = {call(good)}", f"return {call(good)}"])
        if k == 9:
            return r.choice([f"{ent} + 1", f"-{ent}", f"{ent} == {ent}", f"{ent}.foo", f"{ent}[0]", f"len({ent})", f"for x in {ent}:\n    pass",
                             f"if {ent}:\n    pass", f"({ent}, 1) + 1", f"array({ent}, 1)", f"x, y = {ent}", f"{ent} = 1", f"not {ent}",
                             f"{ent} < 1", f"with {ent}:\n    pass", f"int({ent})", f"result('t', {ent})", f"panic({ent})"])
        if k == 10:
            a = [("a" if "@comptime" in s[0] else g) for s, g in zip(slots, good)]
            return call(a)
        if k == 11:
            return r.choice(["S(1)", "S(1, array(1, 2), True)", "S[int](1, array(1))", "S[int, 2, True, int](1, array(1, 2))", "s: S[int] = S(1, array(1))",
                             "s: S[int, 2] = S(1, array(1, 2))", "S(1, array(1, 2)).zz", "S + 1", "s: S[int, True, 2] = S(1, array(1, 2))",
                             "s: S[2, int, True] = S(1, array(1, 2))", "s: S[int, 2, 1.5] = S(1, array(1, 2))", "r: R[1, int, 2, int] = r0",
                             "r: R[int, 1, 1.5, int] = r0", "r: R[1, int, 1.5] = r0", "S(1, array(1, 2)).x = 1.5", "s: S[qubit, 2, True] = S(qubit(), array(1, 2))",
                             "r0.t = r0", "x: int = S", "x: int = r0", "x: int = S(1, array(1, 2))", "apply(S, 1)", "ident(S)(1)", "R(1, 2)", "R(1)",
                             "R[1, int, 1.5, int](1)", "x: int = R"])
        if k == 12:
            a = list(good)
            r.shuffle(a)
            return call(a)
        if k == 13:
            a = [f"n={g}" if r.random() < 0.5 else g for g in good]
            return call(a) if a else call(["k=1"])
        if k == 14:
            return r.choice([f"def inner(f: Callable[[int], int]) -> None:\n    pass\ninner({ent})",
                             f"def inner() -> int:\n    return {ent}\ninner()", f"x = [{ent}]", f"x = array(e for e in {ent})",
                             f"x = {ent} if True else 1", f"x = {ent} and True", f"x = comptime({ent})", f"(lambda: {ent})()"])
        return call(good) + "\n" + r.choice(["", "zz", f"{ent}()", "return 1"])

    def program(self):
        r = self.rng
        ent, slots, style = self.entity()
        body = self.misuse(slots, style)
        pre = ("@guppy.declare\ndef conv(x: int) -> float: ...\n@guppy.declare\ndef mk() -> int: ...\n")
        args = "a: int, r0: R[1, int, 1.5, float]" + (", w: W[int, 2]" if style == "method" else "")
        main = f"@guppy\ndef main({args}) -> None:\n" + "\n".join("    " + l for l in body.split("\n")) + "\n"
        if r.random() < 0.15:
            main = main.replace("@guppy\ndef main", "@guppy.comptime\ndef main")
        return self.HEAD + pre + ent + main + "main.check()\nmain.compile_function()\n"
