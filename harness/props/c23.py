"""C23 — Comptime tracing leaves the user's module untouched."""
from __future__ import annotations

import builtins
import json
import os
import sys

sys.path.insert(0, os.path.dirname(os.path.dirname(os.path.abspath(__file__))))
import vlib

PID = "C23"
THEOREM_MODULES = ["GuppyVerif.Props.C23"]
DRIVER = "C23"
RULE = (
    "case = 1-3 generated modules; each of int/float/len is independently absent or bound, at a random position among the "
    "function definitions, to: a sentinel object / a user function / a user class / the genuine builtin itself (via `from builtins "
    "import x` or `x = builtins.x`) / another builtin (`int = float`) / an object that compares equal to the builtin but is not "
    "identical / a falsy or sentinel-like literal (None, 0, False, '', (), [], 0.0, Ellipsis, NotImplemented); plus other names; optionally after star-importing guppylang.std.builtins; + a tree of "
    "`@guppy.comptime` functions: bodies probe all modules' int/float/len, call other comptime functions (traced later "
    "by the same compilation), start nested compilations of functions of any module from inside the traced body "
    "(dynamically nested mock_builtins, errors caught), and end normally / by raising (Python exception, ZeroDivisionError, "
    "failing Guppy call) / by returning a rejected value (error raised after the mocks were removed). The root is lowered "
    "with /repo's real compiler; observed: every probe, whether the compilation raised, and ordered `__dict__` snapshots "
    "(key order + value identity) of every module before/after. non-trivial = nesting depth >=2 or a raise point; "
    "distinct by request line"
)
ASSUMPTIONS = [
    "CPython dict semantics (insertion order, in-place overwrite, del) as modelled by Model/MockBuiltins.lean `Globals`",
    "traced bodies do not themselves assign or delete module globals named int/float/len (a body that deletes a tracer-inserted name makes the finally block raise KeyError; out of the property's scope)",
    "the Lean model is hand-written; agreement with builtins_mock.py / trace_function is established by the correspondence run here",
    "harness hygiene: the observer's nest hook isolates a nested compilation from the enclosing one (restores the tracing ContextVar after a failed nested compilation, un-patches Hugr.add_node while it runs) and reset_state() is called after each case (set_tracing_state has no try/finally; track_hugr_side_effects is not re-entrant — compiler re-entrancy, not module state)",
]
MANIFEST = {
    "level_text": "Lean theorems over all trees of nested traces, raise points and rejected returns, for any user bindings of "
    "int/float/len (present or absent): one mock_builtins bracket returns exactly the same ordered dict and its finally block "
    "never raises (mock_bracket_exact); after any such tree every module is exactly as before — key order, values, absence "
    "(globals_restored); every intermediate observation equals a state-free dynamic-extent reading (view_is_dynamic_extent). "
    "Model tied to /repo on every run by lowering generated comptime programs with the real compiler and comparing probes, "
    "outcome and ordered __dict__ snapshots (quick 150 programs; thorough 8000).",
    "level_note": "Trusted: Lean kernel + propext/Classical.choice/Quot.sound; hand-written model of dict + mock_builtins "
    "(correspondence is sampling); bodies that themselves mutate the module's int/float/len are excluded by hypothesis.",
    "technique": "Lean 4 proof (structural induction over trace trees, exact ordered-dict equality) + differential correspondence with the real tracer",
    "design_ref": "DESIGN.md §5 C23",
    "ready": True,
}
UNMODELLED = [
    "traced bodies that write/delete module globals themselves",
    "the tracing ContextVar (_STATE) and sys.excepthook handling (exception_hook) — not module state",
    "what the mocks do when called (test_mocked_builtins territory)",
    "threads / concurrent compilations",
]

MOCKED = ("int", "float", "len")
# what the user's module binds a shadowed name to
BIND_KINDS = ["sentinel", "func", "class", "builtin_import", "builtin_import", "builtin_alias", "other_builtin", "equal",
              "lit:None", "lit:None", "lit:0", "lit:False", "lit:''", "lit:()", "lit:...", "lit:0.0", "lit:[]", "lit:NotImplemented"]
HOOKNAME = "_VERIF_C23_HOOKS"

# ----------------------------------------------------------------- abstract programs
# Fn   = {"id": n, "mod": j, "stmts": [Stmt], "end": "ok" | "raise:py|zero|guppy" | "badret:type|obj"}
# Stmt = ["probe"] | ["call", Fn] | ["nest", Fn]       (nest: nested compilation rooted at Fn)


def _gen_case(rng, depth):
    K = rng.choice([1, 2, 2, 3])
    counter = [0]

    def fn(d):
        i = counter[0]
        counter[0] += 1
        stmts = []
        for _ in range(rng.choice([0, 1, 2, 2, 3, 4])):
            t = rng.choice(["probe", "probe", "call", "nest", "nest"] if d > 0 else ["probe"])
            if t == "probe":
                stmts.append(["probe"])
            else:
                stmts.append([t, fn(d - 1)])
        end = rng.choice(["ok"] * 5 + ["raise:py", "raise:py", "raise:zero", "raise:guppy", "badret:type", "badret:obj"])
        return {"id": i, "mod": rng.randrange(K), "stmts": stmts, "end": end}

    root = fn(depth)
    mods = []
    for j in range(K):
        bound = [[n, rng.choice(BIND_KINDS)] for n in MOCKED if rng.random() < 0.55]
        others = [[f"user{k}", "sentinel"] for k in range(rng.choice([0, 1, 2]))]
        mods.append({"std": rng.random() < 0.15, "bind": bound + others, "seed": rng.randrange(1 << 30)})
    return {"mods": mods, "root": root}


def _fns(fn, out=None):
    out = [] if out is None else out
    out.append(fn)
    for s in fn["stmts"]:
        if s[0] in ("call", "nest"):
            _fns(s[1], out)
    return out


def _depth(fn):
    d = 0
    for s in fn["stmts"]:
        if s[0] == "nest":
            d = max(d, 1 + _depth(s[1]))
        elif s[0] == "call":
            d = max(d, _depth(s[1]))
    return d


def _has_raise(fn):
    return any(f["end"] != "ok" for f in _fns(fn))


# ----------------------------------------------------------------- real side
def _module_source(case, j):
    import random

    m = case["mods"][j]
    r = random.Random(m["seed"])
    entries = [("bind", b) for b in m["bind"]] + [("def", f) for f in _fns(case["root"]) if f["mod"] == j]
    r.shuffle(entries)
    H = HOOKNAME
    lines = ["from guppylang import guppy"]
    if m["std"]:
        lines.append("from guppylang.std.builtins import *")
    lines += ["@guppy.declare", "def _decl() -> None: ...", ""]
    for kind, x in entries:
        if kind == "bind":
            name, how = (x, "sentinel") if isinstance(x, str) else x  # old corpus entries: plain names
            if how == "sentinel":
                lines.append(f"{name} = {H}.sentinel({name!r})")
            elif how == "func":
                lines += [f"def {name}(*args):", "    return 0"]
            elif how == "class":
                lines += [f"class {name}:", "    pass"]
            elif how == "builtin_import":
                lines.append(f"from builtins import {name}")
            elif how == "builtin_alias":
                lines += ["import builtins as _py_builtins", f"{name} = _py_builtins.{name}"]
            elif how == "other_builtin":
                other = MOCKED[(MOCKED.index(name) + 1) % 3] if name in MOCKED else "abs"
                lines += ["import builtins as _py_builtins", f"{name} = _py_builtins.{other}"]
            elif how == "equal":
                lines.append(f"{name} = {H}.equal_to_anything({name!r})")
            elif how.startswith("lit:"):  # falsy / singleton / sentinel-like literal values
                lines.append(f"{name} = {how[4:]}")
            else:
                raise AssertionError(how)
        else:
            f = x
            lines += ["@guppy.comptime", f"def f{f['id']}() -> None:", f"    {H}.begin({f['id']})"]
            for s in f["stmts"]:
                if s[0] == "probe":
                    lines.append(f"    {H}.probe()")
                elif s[0] == "call":
                    lines.append(f"    {H}.fn({s[1]['id']})()")
                else:
                    lines.append(f"    {H}.nest({s[1]['id']})")
            e = f["end"]
            if e == "raise:py":
                lines.append("    raise ValueError('boom')")
            elif e == "raise:zero":
                lines.append(f"    {H}.one() // {H}.zero()")
            elif e == "raise:guppy":
                lines.append("    _decl(1)")
            elif e == "badret:type":
                lines.append("    return 1")
            elif e == "badret:obj":
                lines.append(f"    return {H}.sentinel('ret')")
            lines.append("")
    return "\n".join(lines) + "\n"


class _Hooks:
    def __init__(self, case):
        self.case = case
        self.mods = []
        self.events = []  # ("begin", id) | ("probe", str)
        self.fn_mod = {f["id"]: f["mod"] for f in _fns(case["root"])}
        self.before = None

    def sentinel(self, name):
        class Sentinel:
            def __repr__(s):
                return f"<user {name}>"
        return Sentinel()

    def equal_to_anything(self, name):
        class Eq:
            def __eq__(s, other):
                return True

            def __ne__(s, other):
                return False

            def __hash__(s):
                return 0

            def __repr__(s):
                return f"<equal-to-anything {name}>"
        return Eq()

    def one(self):
        return 1

    def zero(self):
        return 0

    def begin(self, i):
        self.events.append(("begin", i))

    def fn(self, i):
        return getattr(self.mods[self.fn_mod[i]], f"f{i}")

    def _cls(self, j, n):
        import guppylang_internals.tracing.builtins_mock as bm

        d = self.mods[j].__dict__
        if n not in d:
            return "a"
        v = d[n]
        if v is getattr(bm, n):
            return "m"
        b = dict(self.before[j])
        return "u" if n in b and b[n] is v else "?"

    def probe(self):
        self.events.append(("probe", "P:" + "/".join("".join(self._cls(j, n) for n in MOCKED) for j in range(len(self.mods)))))

    def nest(self, i):
        import feed
        from guppylang_internals.tracing.state import _STATE

        from hugr.hugr.base import Hugr

        # Re-entrancy hygiene (nothing to do with module globals): CompilerContext.compile monkey-patches
        # Hugr.add_node per compilation (track_hugr_side_effects) and keeps its tracing state in a ContextVar
        # that is not reset on failure.  Isolate the nested compilation from the enclosing one.
        saved, patched = _STATE.get(), Hugr.add_node
        Hugr.add_node = _ORIG_ADD_NODE[0]
        try:
            feed.lower(self.fn(i))
        except Exception:  # noqa: BLE001
            pass
        finally:
            Hugr.add_node = patched
            _STATE.set(saved)


_ORIG_ADD_NODE = []


def _run_real(case):
    """returns (trace string, hooks) ; trace = probes | r=.. final=.."""
    import feed
    from guppylang_internals.tracing.state import reset_state
    from hugr.hugr.base import Hugr

    if not _ORIG_ADD_NODE:
        _ORIG_ADD_NODE.append(Hugr.add_node)  # no compilation is active here

    H = _Hooks(case)
    setattr(builtins, HOOKNAME, H)
    loaded = []
    try:
        for j in range(len(case["mods"])):
            m = feed.load(_module_source(case, j), prelude="")
            loaded.append(m)
            H.mods.append(m)
        H.before = [list(m.__dict__.items()) for m in H.mods]
        raised = 0
        try:
            feed.lower(H.fn(case["root"]["id"]))
        except BaseException:  # noqa: BLE001
            raised = 1
        finally:
            reset_state()
        fin = []
        for j, m in enumerate(H.mods):
            after = list(m.__dict__.items())
            b = H.before[j]
            same = len(after) == len(b) and all(x[0] == y[0] and x[1] is y[1] for x, y in zip(b, after))
            if same:
                fin.append("same")
            else:
                bk, ak = [k for k, _ in b], [k for k, _ in after]
                what = "order/keys" if bk != ak else "values"
                fin.append("diff")
                H.events.append(("note", f"module {j}: {what}: extra={[k for k in ak if k not in bk]} missing={[k for k in bk if k not in ak]}"))
        probes = [e[1] for e in H.events if e[0] == "probe"]
        return " ".join(probes) + f" | r={raised} final={'/'.join(fin)}", H
    finally:
        for m in loaded:
            feed.unload(m)
        if hasattr(builtins, HOOKNAME):
            delattr(builtins, HOOKNAME)


# ----------------------------------------------------------------- model request
def _unit_tree(root, begin_order):
    """compilation unit rooted at `root`: the root trace, then the functions reached through guppy
    calls in the order the real worklist started them (never-started ones last)."""
    members = []

    def collect(f):
        members.append(f)
        for s in f["stmts"]:
            if s[0] == "call":
                collect(s[1])

    collect(root)
    rest = members[1:]
    rest.sort(key=lambda f: begin_order.get(f["id"], 10**9 + f["id"]))
    return [root] + rest


def _fn_tree(f, begin_order):
    body = []
    for s in f["stmts"]:
        if s[0] == "probe":
            body.append(("probe",))
        elif s[0] == "nest":
            body.append(("catch", _seq([_fn_tree(g, begin_order) for g in _unit_tree(s[1], begin_order)])))
    if f["end"].startswith("raise"):
        body.append(("raise",))
    return ("trace", f["mod"], _seq(body), 0 if f["end"].startswith("badret") else 1)


def _seq(items):
    if not items:
        return ("skip",)
    p = items[-1]
    for q in reversed(items[:-1]):
        p = ("seq", q, p)
    return p


def _sexp(p):
    t = p[0]
    if t in ("skip", "probe", "raise"):
        return t
    if t == "seq":
        return f"(seq {_sexp(p[1])} {_sexp(p[2])})"
    if t == "trace":
        return f"(trace {p[1]} {_sexp(p[2])} {p[3]})"
    if t == "catch":
        return f"(catch {_sexp(p[1])})"
    raise AssertionError(p)


def _request(case, H):
    begin_order = {}
    for e in H.events:
        if e[0] == "begin" and e[1] not in begin_order:
            begin_order[e[1]] = len(begin_order)
    tree = _seq([_fn_tree(g, begin_order) for g in _unit_tree(case["root"], begin_order)])
    mods = []
    for b in H.before:
        names, k = [], 0
        for key, _v in b:
            if key in MOCKED:
                names.append(key)
            else:
                names.append(f"o{k}")
                k += 1
        mods.append("(" + " ".join(names) + ")")
    return "(" + " ".join(mods) + ") " + _sexp(tree), tree


def _oracle(tree, H):
    """the statement's literal reading: every module ends exactly as it began; in between, a module's
    int/float/len are the tracer's mocks exactly while one of its functions is being traced."""
    bound = [{k for k, _ in b} for b in H.before]
    probes = []

    class R(Exception):
        pass

    def go(p, active):
        t = p[0]
        if t == "probe":
            probes.append("P:" + "/".join(
                "".join("m" if j in active else ("u" if n in bound[j] else "a") for n in MOCKED)
                for j in range(len(bound))))
        elif t == "raise":
            raise R
        elif t == "seq":
            go(p[1], active)
            go(p[2], active)
        elif t == "trace":
            go(p[2], active + [p[1]])
            if not p[3]:
                raise R
        elif t == "catch":
            try:
                go(p[1], active)
            except R:
                pass

    raised = 0
    try:
        go(tree, [])
    except R:
        raised = 1
    return " ".join(probes) + f" | r={raised} final={'/'.join('same' for _ in bound)}"


# ----------------------------------------------------------------- the tie
def _corpus_cases():
    out = []
    corpus = os.path.join(vlib.VERIF, "corpus", "c23")
    if os.path.isdir(corpus):
        for fn in sorted(os.listdir(corpus)):
            out += json.load(open(os.path.join(corpus, fn)))
    return out


def _eval(ctx, cases, use_model=True):
    rows = []
    for case in cases:
        try:
            real, H = _run_real(case)
        except Exception as e:  # noqa: BLE001
            raise vlib.Infra(f"C23 harness could not run generated program: {e!r}") from e
        line, tree = _request(case, H)
        rows.append((case, real, line, tree, H))
    model = ctx.driver(DRIVER, [r[2] for r in rows]) if use_model else [None] * len(rows)
    for (case, real, line, tree, H), m in zip(rows, model):
        orc = _oracle(tree, H)
        nt = _depth(case["root"]) >= 1 or _has_raise(case["root"])
        ends = sorted({f["end"].split(":")[0] for f in _fns(case["root"])})
        ctx.count(line, nontrivial=nt, kind=f"nest{min(_depth(case['root']), 3)}:" + "+".join(ends))
        for m_ in case["mods"]:
            for b in m_["bind"]:
                if not isinstance(b, str) and b[0] in MOCKED:
                    ctx.bump("bind:" + b[1])
        if real != orc:
            notes = [e[1] for e in H.events if e[0] == "note"]
            ctx.violation(
                "input:" + json.dumps(case, sort_keys=True),
                f"module globals / tracer view differ from the statement: real=[{real}] expected=[{orc}] {notes}",
                {"case": case, "line": line, "real": real, "oracle": orc, "model": m, "notes": notes,
                 "sources": [_module_source(case, j) for j in range(len(case["mods"]))]},
            )
        if use_model and real != m:
            ctx.broke(f"correspondence Model/MockBuiltins.lean vs tracer on `{line}` (real=[{real}] model=[{m}])")


def tie(ctx):
    cases = _corpus_cases()
    if ctx.replay_in and "case" in ctx.replay_in.get("replay", {}):
        cases.append(ctx.replay_in["replay"]["case"])
    for _ in range(ctx.n(150, 8000)):
        cases.append(_gen_case(ctx.rng, ctx.rng.choice([0, 1, 2, 2, 3])))
    _eval(ctx, cases)


def search(ctx, why):
    cases = [_gen_case(ctx.rng, ctx.rng.choice([1, 2, 3])) for _ in range(ctx.n(200, 2000))]
    _eval(ctx, cases, use_model=False)


if __name__ == "__main__":
    vlib.main(sys.modules[__name__])
