"""C21 — Comptime functions agree with regular Guppy functions (partial)."""
from __future__ import annotations

import ast
import json
import os
import sys

sys.path.insert(0, os.path.dirname(os.path.dirname(os.path.abspath(__file__))))
sys.path.insert(0, os.path.dirname(os.path.abspath(__file__)))
import vlib

PID = "C21"
THEOREM_MODULES = ["GuppyVerif.Props.C21"]
RULE = (
    "every binary operator x operand shape (`x op y`, `x op c`, `c op x`; c a Python int/float/bool constant) x numeric type "
    "pair over bool/nat/int/float, every unary operator, the int/float/bool/abs/len/divmod/round/pow builtins, tuple / array / "
    "struct packing and unpacking and calls to Guppy functions (owned and borrowed arguments), each written once as @guppy and "
    "once as @guppy.comptime with the same body; both are checked and lowered by the real compiler. Operator probes: the canonical forms "
    "(multiset of ops, each printed as a tree over the ops feeding its input ports down to function inputs and constants, mirrored "
    "comparisons normalised) must be equal. Builtin/container/call probes: multisets of arithmetic, quantum and user-function operations must "
    "be equal modulo trace-time evaluation (constants, bounds checks of constant indices, len of static arrays are folded by Python). "
    "Data-dependency probes: borrowed arguments of copyable types modified by a Guppy callee and read afterwards; the expression tree "
    "(scalars/tuples/structs) or the set of inputs and callees (arrays) feeding every function output must be equal in both modes. "
    "Non-trivial = both versions compile; both rejecting is also agreement."
)
ASSUMPTIONS = [
    "HUGR op semantics are outside the repository: 'computes the same result' is observed as 'lowers to the same operations with the "
    "same operand wiring' (no emulator for /repo output)",
    "CPython's binary operator protocol: `c op x` with c an int/float/bool and x a GuppyObject calls type(c).__op__ (NotImplemented) and "
    "then type(x).__rop__(x, c); `x op _` calls type(x).__op__(x, _)",
    "HUGR comparison ops: igt/ige/fgt/fge(a, b) = ilt/ile/flt/fle(b, a) and ieq/ine/feq/fne are symmetric (used to canonicalise: with a "
    "constant on the left regular Guppy emits `2 > y` as igt_s(2, y), comptime as ilt_s(y, 2))",
    "when regular and comptime dispatch pick the direct dunder and the reflected dunder of the *same* type (constant on the left, both "
    "accepted), agreement needs T.__rop__(r, l) == T.__op__(l, r); this is a property of std/num.py (C04) and is observed here on the lowered wiring",
    "the acceptance table acc(T, dunder, U) is extracted by checking `a.dunder(b)` with the real checker for a: T, b: U — the same "
    "`synthesize_call` both dispatch procedures use",
]
UNMODELLED = [
    "run-time results (no emulator for /repo output): agreement is on lowered operations and wiring",
    "non-numeric operand types (angle, arrays, user structs with dunders) in the Lean dispatch model; they are only sampled by probes",
    "control flow: comptime branches are resolved by Python at trace time and cannot depend on traced values",
    "builtins_mock functions other than those probed; higher-order comptime functions (rejected as unsupported)",
]
MANIFEST = {
    "level_text": "Lean theorems over tables regenerated from /repo on every run: `mixin_delegates_self` (every DunderMixin operator method "
    "delegates to the dunder of its own name — decide over the AST-extracted table), `tables_inverse` (tracing.binary_table / "
    "reverse_binary_table are the checker's binary_table and its inverse), `dispatch_agree` (for every operator, operand shape and numeric type "
    "pair, comptime dispatch = forward-then-reflected fallback of `binary_operation` under CPython's operator protocol, and regular dispatch = "
    "`_synthesize_binary`, succeed on the same inputs and select the same implementing type and operator with the same operand order), "
    "`dispatch_same_when_traced_left` (identical (type, dunder, argument order) when the left operand is traced). Finite enumeration closed "
    "by decide (the domain is a finite table; said so). Tie: ~330 (quick) / ~700 (thorough) probe pairs lowered in both modes and compared; the model's "
    "predicted success/failure is compared with both real outcomes.",
    "level_note": "partial: agreement is proved for operator dispatch on numeric types and observed (not proved) for builtins, containers and calls; "
    "results are compared as lowered operations + wiring since nothing compiled from /repo can be executed. Trusted: the Lean model of CPython's operator "
    "protocol and of the two dispatch procedures (hand-written from object.py / expr_checker.py), the acceptance-table extraction, the canonicaliser.",
    "technique": "Lean 4 decide over tables regenerated from source/objects (T-src, T-obj) + differential lowering of probe pairs (T-obj)",
    "design_ref": "DESIGN.md §5 C21",
    "ready": True,
}

GEN = os.path.join(vlib.LEAN, "GuppyVerif", "Gen", "C21DunderMixin.lean")
NTYS = ["bool", "nat", "int", "float"]


# ====================================================================== translator
def extract_mixin(repo):
    """DunderMixin: [(method, delegate or None, decorator)] from the AST of tracing/object.py"""
    p = os.path.join(repo, "guppylang-internals", "src", "guppylang_internals", "tracing", "object.py")
    tree = ast.parse(open(p).read())
    rows = []
    for n in tree.body:
        if isinstance(n, ast.ClassDef) and n.name == "DunderMixin":
            for m in n.body:
                if not (isinstance(m, ast.FunctionDef) and m.name.startswith("__") and m.name.endswith("__")):
                    continue
                deco = "none"
                for d in m.decorator_list:
                    nm = ast.unparse(d)
                    if nm in ("binary_operation", "unary_operation"):
                        deco = nm.split("_")[0]
                delegate = None
                for c in ast.walk(m):
                    if (isinstance(c, ast.Call) and isinstance(c.func, ast.Attribute) and c.func.attr == "_get_method"
                            and c.args and isinstance(c.args[0], ast.Constant)):
                        delegate = c.args[0].value
                rows.append((m.name, delegate, deco))
    return sorted(rows)


def extract_return_unpack(repo):
    """trace_function's rule for wiring the returned value to the outputs (AST of tracing/function.py):
    `if [is_row and] len(out_tys) > A: UnpackTuple … elif len(out_tys) > B: [value] else: []`
    -> (requires_row_tuple, A, B); unrecognised shape -> (False, 999, 999)"""
    p = os.path.join(repo, "guppylang-internals", "src", "guppylang_internals", "tracing", "function.py")
    tree = ast.parse(open(p).read())

    def len_gt(t):
        if (isinstance(t, ast.Compare) and len(t.ops) == 1 and isinstance(t.ops[0], ast.Gt)
                and ast.unparse(t.left) == "len(out_tys)" and isinstance(t.comparators[0], ast.Constant)):
            return t.comparators[0].value
        return None

    for n in ast.walk(tree):
        if isinstance(n, ast.If) and "UnpackTuple" in ast.unparse(n.body) and "regular_returns" in ast.unparse(n.body):
            test, row = n.test, False
            if isinstance(test, ast.BoolOp) and isinstance(test.op, ast.And) and len(test.values) == 2:
                row = ast.unparse(test.values[0]) == "is_row"
                test = test.values[1]
            a = len_gt(test)
            b = len_gt(n.orelse[0].test) if len(n.orelse) == 1 and isinstance(n.orelse[0], ast.If) else None
            if a is not None and b is not None:
                if row:   # is_row must be "a non-preserved tuple type"
                    src = ast.unparse(tree)
                    row = "is_row = isinstance(out_obj._ty, TupleType) and (not out_obj._ty.preserve)" in src
                    if not row:
                        return (False, 999, 999)
                return (row, a, b)
    return (False, 999, 999)


def extract_tables():
    """checker binary/unary tables and the tracing module's derived tables (imported objects)"""
    import guppylang_internals.checker.expr_checker as ec
    import guppylang_internals.tracing.object as to

    ops = sorted((k.__name__, l, r) for k, (l, r, _d) in ec.binary_table.items())
    uops = sorted((k.__name__, d) for k, (d, _n) in ec.unary_table.items())
    fwd = sorted((m, r) for m, (r, _d) in to.binary_table.items())
    rev = sorted((r, m) for r, (m, _d) in to.reverse_binary_table.items())
    return ops, uops, fwd, rev


def extract_acc(dunders, unary):
    """acc(T, d, U): does `a.d(b)` type-check for a: T, b: U (the real `synthesize_call`)"""
    import feed

    src, names = "", []
    for T in NTYS:
        for d in unary:
            n = f"u_{T}_{d}"
            src += f"@guppy\ndef {n}(a: {T}) -> None:\n    a.{d}()\n"
            names.append((n, T, d, None))
        for U in NTYS:
            for d in dunders:
                n = f"f_{T}_{d}_{U}"
                src += f"@guppy\ndef {n}(a: {T}, b: {U}) -> None:\n    a.{d}(b)\n"
                names.append((n, T, d, U))
    m = feed.load(src)
    acc, uacc = [], []
    try:
        for n, T, d, U in names:
            o, _e = feed.check_outcome(getattr(m, n))
            if o == "ok":
                (acc if U else uacc).append((T, d, U) if U else (T, d))
    finally:
        feed.unload(m)
    return sorted(acc), sorted(uacc)


def _d(name):  # Lean constructor for a dunder
    return "d_" + name.strip("_")


def render(mixin, ops, uops, fwd, rev, acc, uacc, retrule=(True, 0, 0)):
    dunders = sorted({d for _o, l, r in ops for d in (l, r)} | {d for _o, d in uops}
                     | {m for m, _x, _y in mixin} | {x for _m, x, _y in mixin if x}
                     | {a for p in fwd + rev for a in p})
    L = [
        "/-! GENERATED on every run by harness/props/c21.py (translate): the AST of `DunderMixin`",
        "    (tracing/object.py), the imported tables `expr_checker.binary_table` / `unary_table`, `tracing.object.binary_table` /",
        "    `reverse_binary_table`, and the acceptance table obtained by checking `a.dunder(b)` with the real checker.  Do not edit. -/",
        "namespace GuppyVerif.C21",
        "",
        "inductive Dunder where",
        *[f"  | {_d(d)}" for d in dunders],
        "  deriving DecidableEq, Repr",
        "",
        "inductive Op where",
        *[f"  | {o}" for o, _l, _r in ops],
        "  deriving DecidableEq, Repr",
        "",
        "inductive UOp where",
        *[f"  | {o}" for o, _d2 in uops],
        "  deriving DecidableEq, Repr",
        "",
        "inductive NTy where | bool | nat | int | float deriving DecidableEq, Repr",
        "inductive Deco where | binary | unary | none deriving DecidableEq, Repr",
        "",
        "/-- `DunderMixin`: method, the dunder its body delegates to via `_get_method`, decorator -/",
        "def mixin : List (Dunder × Option Dunder × Deco) := [",
        ",\n".join(f"  (.{_d(m)}, {'some .' + _d(x) if x else 'none'}, .{dc})" for m, x, dc in mixin),
        "]",
        "",
        "/-- `expr_checker.binary_table`: AST operator, left dunder, reflected dunder -/",
        "def checkerOps : List (Op × Dunder × Dunder) := [",
        ",\n".join(f"  (.{o}, .{_d(l)}, .{_d(r)})" for o, l, r in ops),
        "]",
        "",
        "def checkerUOps : List (UOp × Dunder) := [",
        ",\n".join(f"  (.{o}, .{_d(d)})" for o, d in uops),
        "]",
        "",
        "/-- `tracing.object.binary_table`: method ↦ reverse method -/",
        "def fwdTable : List (Dunder × Dunder) := [",
        ",\n".join(f"  (.{_d(a)}, .{_d(b)})" for a, b in fwd),
        "]",
        "",
        "/-- `tracing.object.reverse_binary_table`: reverse method ↦ method -/",
        "def revTable : List (Dunder × Dunder) := [",
        ",\n".join(f"  (.{_d(a)}, .{_d(b)})" for a, b in rev),
        "]",
        "",
        "/-- accepted dunders by (self type, other type): `a.dunder(b)` type-checks for a : self, b : other.",
        "    (A function by cases rather than one flat list: the kernel evaluates lookups by linear scan.) -/",
        "def accBy : NTy → NTy → List Dunder",
        *[f"  | .{T}, .{U} => [" + ", ".join("." + _d(d) for t, d, u in acc if t == T and u == U) + "]" for T in NTYS for U in NTYS],
        "",
        "/-- accepted unary (self type, dunder) -/",
        "def uaccTable : List (NTy × Dunder) := [",
        ",\n".join(f"  (.{T}, .{_d(d)})" for T, d in uacc),
        "]",
        "",
        "def opNames : List (String × Op) := [" + ", ".join(f'("{o}", .{o})' for o, _l, _r in ops) + "]",
        "def uopNames : List (String × UOp) := [" + ", ".join(f'("{o}", .{o})' for o, _d2 in uops) + "]",
        "def dunderNames : List (Dunder × String) := [" + ", ".join(f'(.{_d(d)}, "{d}")' for d in dunders) + "]",
        "",
        "/-- `trace_function`: the returned value is unpacked into a row when [it is a tuple and] `len(row) > unpackIfLenGt`,",
        "    handed on as one value when `len(row) > singleIfLenGt`, and dropped otherwise (AST of tracing/function.py) -/",
        f"def unpackNeedsTuple : Bool := {'true' if retrule[0] else 'false'}",
        f"def unpackIfLenGt : Nat := {retrule[1]}",
        f"def singleIfLenGt : Nat := {retrule[2]}",
        "",
        "end GuppyVerif.C21",
        "",
    ]
    return "\n".join(L)


def translate(ctx):
    import bootstrap

    mixin = extract_mixin(bootstrap.REPO)
    ops, uops, fwd, rev = extract_tables()
    dunders = sorted({d for _o, l, r in ops for d in (l, r)})
    unary = sorted({d for _o, d in uops})
    acc, uacc = extract_acc(dunders, unary)
    txt = render(mixin, ops, uops, fwd, rev, acc, uacc, extract_return_unpack(bootstrap.REPO))
    old = open(GEN).read() if os.path.exists(GEN) else None
    if old != txt:
        with open(GEN, "w") as f:
            f.write(txt)
    ctx.extra["table_rows"] = {"mixin": len(mixin), "ops": len(ops), "acc": len(acc), "uacc": len(uacc)}
    ctx._c21 = {"ops": ops, "uops": uops}



# ====================================================================== tie (T-obj)
OPSYM = {"Add": "+", "Sub": "-", "Mult": "*", "Div": "/", "FloorDiv": "//", "Mod": "%", "Pow": "**", "LShift": "<<",
         "RShift": ">>", "BitOr": "|", "BitXor": "^", "BitAnd": "&", "MatMult": "@", "Eq": "==", "NotEq": "!=",
         "Lt": "<", "LtE": "<=", "Gt": ">", "GtE": ">="}
USYM = {"UAdd": "+", "USub": "-", "Invert": "~"}
CONST = {"int": "2", "float": "2.5", "bool": "True"}
CTYS = ["bool", "int", "float"]

STRUCTURAL = ("MakeTuple", "UnpackTuple", "Tag", "Input", "Output", "CFG", "DataflowBlock", "ExitBlock", "Module",
              "LoadConst", "DFG", "LoadFunc", "Noop")


MIRROR = [("igt_s", "ilt_s"), ("ige_s", "ile_s"), ("igt_u", "ilt_u"), ("ige_u", "ile_u"), ("fgt", "flt"), ("fge", "fle")]
SYMMETRIC = ("ieq", "ine", "feq", "fne")
MIRROR_NAMES = {gt: lt for gt, lt in MIRROR}


def _is_struct_op(name):
    return (name in STRUCTURAL or name.startswith("collections.") or name.startswith("tket.bool.")
            or name.startswith("prelude.") or name.startswith("guppylang.") or name.startswith("tket.guppy"))


def _lower_canon(defn, wiring):
    """canonical form of a lowered definition: multiset of semantic ops.  With `wiring`, every op is printed as
    a tree over its input ports (leaves: function inputs by position, constants), looking through
    tuple pack/unpack."""
    import feed
    import hugr.ops as ops
    from collections import Counter

    g = feed.lower(defn)
    h = g.hugr
    src = {}
    for a, b in h.links():
        src[(b.node.idx, b.offset)] = (a.node, a.offset)
    memo = {}

    def tree(node, off, depth=0):
        key = (node.idx, off)
        if key in memo:
            return memo[key]
        op = h[node].op
        name = feed.op_name(op)
        if depth > 12:
            r = "…"
        elif isinstance(op, ops.Input):
            r = f"in{off}"
        elif isinstance(op, ops.LoadConst):
            c = src.get((node.idx, 0))
            r = "const:" + repr(h[c[0]].op.val)[:60] if c else "const?"
        elif isinstance(op, ops.UnpackTuple):
            s0 = src.get((node.idx, 0))
            if s0 and isinstance(h[s0[0]].op, ops.MakeTuple):
                s1 = src.get((s0[0].idx, off))
                r = tree(s1[0], s1[1], depth + 1) if s1 else "?"
            else:
                r = (tree(s0[0], s0[1], depth + 1) if s0 else "?") + f".{off}"
        else:
            n_in = h.num_in_ports(node)
            args = []
            for i in range(n_in):
                s0 = src.get((node.idx, i))
                if s0 is None:
                    continue
                sop = h[s0[0]].op
                if isinstance(sop, (ops.FuncDefn, ops.FuncDecl)):
                    args.append("fn:" + sop.f_name)
                elif isinstance(sop, ops.Const):
                    continue
                else:
                    args.append(tree(s0[0], s0[1], depth + 1))
            # comparisons: `a > b` and `b < a` (resp. `==`, `!=` with swapped operands) are one operation
            # (assumed HUGR semantics of arithmetic.int / arithmetic.float comparison ops)
            base = name.rsplit(".", 1)[-1]
            if len(args) == 2:
                for gt, lt in MIRROR:
                    if base == gt:
                        name, args = name[: -len(gt)] + lt, [args[1], args[0]]
                        break
                else:
                    if base in SYMMETRIC:
                        args = sorted(args)
            if isinstance(op, ops.Call) and len(args) == 3 and args[2] in ("fn:__eq__", "fn:__ne__"):
                args = sorted(args[:2]) + args[2:]    # bool.__eq__ / __ne__ are symmetric Guppy functions
            r = f"{name}({','.join(args)})" + (f"#{off}" if h.num_out_ports(node) > 1 else "")
        memo[key] = r
        return r

    out = Counter()
    for n in h:
        op = h[n].op
        name = feed.op_name(op)
        if isinstance(op, ops.Const):
            out["Const:" + repr(op.val)[:60]] += 1
        elif isinstance(op, ops.FuncDefn):
            if op.f_name != "f":
                out["FuncDefn:" + op.f_name] += 1
        elif isinstance(op, ops.Call):
            if wiring:
                out[tree(n, 0)] += 1
            else:
                callee = [h[a.node].op for a, b in h.links() if b.node.idx == n.idx and isinstance(h[a.node].op, (ops.FuncDefn, ops.FuncDecl))]
                out["Call:" + (callee[0].f_name if callee else "?")] += 1
        elif not _is_struct_op(name):
            if wiring:
                out[tree(n, 0).split("#")[0]] += 1
            else:
                b = name.rsplit(".", 1)[-1]
                out[name[: -len(b)] + MIRROR_NAMES.get(b, b)] += 1
    if not wiring:
        # trace-time evaluation: Python folds constants, `len` of statically sized arrays and the bounds
        # checks of constant indices; these show up as constants / control plumbing / index conversions only
        for k in list(out):
            if (k.startswith("Const:") or k in ("Case", "Conditional", "Call:__len__") or k.startswith("Call:unwrap_result") or k in FOLDED
                    or k.startswith("FuncDefn:__len__") or k.startswith("FuncDefn:unwrap_result")):
                del out[k]
    return sorted(out.items())


FOLDED = ("arithmetic.conversions.itousize", "arithmetic.conversions.ifromusize")


def _both(sig, ret, body, prelude, wiring):
    """compile `body` as @guppy and as @guppy.comptime; -> {mode: (outcome, canon|errclass)}"""
    import feed

    res = {}
    for mode, deco in (("regular", "@guppy"), ("comptime", "@guppy.comptime")):
        src = prelude + f"{deco}\ndef f({sig}) -> {ret}:\n" + "".join("    " + l + "\n" for l in body.split("\n"))
        m = None
        try:
            m = feed.load(src)
            o, e = feed.check_outcome(m.f)
            if o != "ok":
                res[mode] = ("reject" if o == "user" else "crash", feed.err_class(e))
                continue
            res[mode] = ("ok", _lower_canon(m.f, wiring))
        except BaseException as e:  # noqa: BLE001
            from guppylang_internals.error import GuppyComptimeError, GuppyError
            kind = "reject" if isinstance(e, (GuppyError, GuppyComptimeError, TypeError, AttributeError)) else "crash"
            res[mode] = (kind, type(e).__name__ + ":" + str(e)[:80])
        finally:
            if m is not None:
                feed.unload(m)
    return res


CONTAINER_PRELUDE = (
    "from guppylang.std.quantum import qubit, h, cx, measure, discard\n"
    "@guppy.struct\nclass S:\n    a: int\n    b: float\n"
    "@guppy\ndef g(y: int) -> int:\n    return y + 1\n"
    "@guppy\ndef g2(y: int, z: float) -> float:\n    return z\n"
    "@guppy\ndef inc(xs: array[int, 2]) -> None:\n    xs[0] += 1\n"
    "@guppy\ndef hq(q: qubit) -> None:\n    h(q)\n"
)

# (name, signature, return type, body) — straight-line bodies valid in both modes
SHAPES = [
    ("int()", "x: float", "int", "return int(x)"),
    ("int(nat)", "x: nat", "int", "return int(x)"),
    ("int(bool)", "x: bool", "int", "return int(x)"),
    ("float()", "x: int", "float", "return float(x)"),
    ("float(nat)", "x: nat", "float", "return float(x)"),
    ("nat()", "x: int", "nat", "return nat(x)"),
    ("bool()", "x: int", "bool", "return bool(x)"),
    ("abs()", "x: int", "int", "return abs(x)"),
    ("abs(float)", "x: float", "float", "return abs(x)"),
    ("len()", "xs: array[int, 3]", "int", "return len(xs)"),
    ("divmod()", "x: int, y: int", "tuple[int, int]", "return divmod(x, y)"),
    ("pow()", "x: int, y: int", "int", "return pow(x, y)"),
    ("round()", "x: float", "int", "return round(x)"),
    ("int(const) folded", "x: int", "int", "return 2 + x"),
    ("tuple build", "x: int, y: float", "tuple[float, int]", "return (y, x)"),
    ("tuple unpack", "t: tuple[int, float]", "float", "a, b = t\nreturn b"),
    ("tuple index", "t: tuple[int, float]", "int", "return t[0]"),
    ("tuple nested", "t: tuple[int, tuple[float, int]]", "int", "a, (b, c) = t\nreturn a + c"),
    ("array index", "xs: array[int, 2]", "int", "return xs[0] + xs[1]"),
    ("array build", "x: int, y: int", "array[int, 2]", "return array(x, y)"),
    ("array roundtrip", "xs: array[int, 2] @owned", "array[int, 2]", "return xs"),
    ("array len of built", "x: int", "int", "xs = array(x, x, x)\nreturn len(xs)"),
    ("struct fields", "s: S", "float", "return s.a + s.b"),
    ("struct build", "x: int, y: float", "S", "return S(x, y)"),
    ("struct rebuild", "s: S @owned, x: int", "S", "return S(x, s.b)"),
    ("call", "x: int", "int", "return g(x)"),
    ("call nested", "x: int", "int", "return g(g(x) + 1)"),
    ("call two args", "x: int, y: float", "float", "return g2(x, y)"),
    ("call const arg", "x: int", "int", "return g(3) + x"),
    ("call borrow array", "xs: array[int, 2]", "int", "inc(xs)\nreturn xs[0]"),
    ("call borrow local array", "x: int", "int", "xs = array(x, 2)\ninc(xs)\nreturn xs[0] + xs[1]"),
    ("qubit borrow", "q: qubit", "None", "h(q)"),
    ("qubit call borrow", "q: qubit", "None", "hq(q)\nhq(q)"),
    ("qubit alloc", "", "bool", "q = qubit()\nh(q)\nreturn measure(q)"),
    ("qubit two", "a: qubit, b: qubit", "None", "cx(a, b)\ncx(b, a)"),
    ("mixed arith", "x: int, y: float, n: nat", "float", "return (x + n) * y - 2"),
    ("compare chain free", "x: int, y: int", "bool", "return (x < y) == (y > x)"),
    ("neg/pos", "x: int, y: float", "float", "return -x + +y"),
    ("invert", "x: int", "int", "return ~x"),
]

# D15 witness and friends (plain Python values inside containers handed to a borrowing call)
COMPTIME_ONLY_EQUIV = [
    ("D15 list of python ints", "", "int", "xs = array(1, 2)\ninc(xs)\nreturn xs[0] + xs[1]", "xs = [1, 2]\ninc(xs)\nreturn xs[0] + xs[1]"),
]


# ---------------------------------------------------------------------- data-dependency probes
# A borrowed (inout) argument of a COPYABLE type that the Guppy callee modifies must be re-bound to the
# callee's returned wire; reading it afterwards must see the new value in both modes.  Op multisets cannot
# see this (the same ops are emitted; only *which wire feeds the later use* differs), so these probes compare
# the expression tree (scalars / tuples / structs) or the set of function inputs and user callees (arrays,
# where the two modes legitimately use different array operations) that every function OUTPUT depends on.
DEP_PRELUDE = (
    "from guppylang.std.mem import mem_swap\n"
    "@guppy.struct\nclass P:\n    a: int\n    b: float\n"
    "@guppy\ndef bump(xs: array[int, 2]) -> None:\n    xs[0] += 10\n"
    "@guppy\ndef fbump(xs: array[float, 2]) -> None:\n    xs[1] = xs[0] * 2.0\n"
    "@guppy\ndef move(xs: array[int, 2], ys: array[int, 2]) -> None:\n    ys[1] = xs[0]\n"
    "@guppy\ndef inc(x: int) -> int:\n    return x + 1\n"
    "@guppy\ndef tbump(ts: array[tuple[int, bool], 2]) -> None:\n    ts[0] = (7, False)\n"
    "@guppy\ndef one(x: int) -> tuple[int]:\n    return (x,)\n"
)
DEP_CALLEES = ("mem_swap", "bump", "fbump", "move", "inc", "tbump", "one")
SCALARS = {"int": ("x - y", "int"), "nat": ("x + y", "nat"), "float": ("x / y", "float"), "bool": ("x & y", "bool"),
           "tuple[int, float]": ("x[0] + y[0]", "int"), "P": ("x.a - y.a", "int")}


def dep_probes():
    out = []
    for T, (expr, rt) in SCALARS.items():
        sig = f"x: {T}, y: {T}"
        out.append((f"swap {T} read both", sig, rt, f"mem_swap(x, y)\nreturn {expr}", "exact"))
        out.append((f"swap {T} return first", sig, T.replace("P", "P"), "mem_swap(x, y)\nreturn x", "exact"))
        out.append((f"swap {T} twice", sig, T, "mem_swap(x, y)\nmem_swap(y, x)\nreturn y", "exact"))
        out.append((f"swap {T} then compute then swap", sig, rt, f"mem_swap(x, y)\nz = {expr}\nmem_swap(x, y)\nreturn z", "exact"))
    out.append(("swap computed values", "x: int, y: int", "int", "a = x + 1\nb = y * 2\nmem_swap(a, b)\nreturn a - b", "exact"))
    out.append(("swap after call", "x: int, y: int", "int", "a = inc(x)\nmem_swap(a, y)\nreturn a - y", "exact"))
    out.append(("plain calls", "x: int", "int", "return inc(inc(x)) - x", "exact"))
    # return shapes: the row of the signature vs what the traced function wires to its Output
    for n, sig, rt, body in [
        ("return scalar", "x: int", "int", "return x + 1"),
        ("return None", "x: int", "None", "y = x + 1"),
        ("return 1-tuple", "x: int", "tuple[int]", "return (x + 1,)"),
        ("return 1-tuple of tuple", "x: int, y: float", "tuple[tuple[int, float]]", "return ((x, y),)"),
        ("return 1-tuple of 1-tuple", "x: int", "tuple[tuple[int]]", "return ((x,),)"),
        ("return 1-tuple of struct", "x: P", "tuple[P]", "return (x,)"),
        ("return 1-tuple of built struct", "x: int, y: float", "tuple[P]", "return (P(x, y),)"),
        ("return 1-tuple of array", "x: int", "tuple[array[int, 2]]", "return (array(x, x + 1),)"),
        ("return 1-tuple of bool", "x: int", "tuple[bool]", "return (x > 1,)"),
        ("return 1-tuple const", "", "tuple[int]", "return (3,)"),
        ("return 2-tuple", "x: int, y: float", "tuple[float, int]", "return (y, x)"),
        ("return 3-tuple", "x: int", "tuple[int, int, int]", "return (x, x + 1, x + 2)"),
        ("return 2-tuple containing 1-tuple", "x: int", "tuple[int, tuple[int]]", "return (x, (x + 1,))"),
        ("return empty tuple", "x: int", "tuple[()]", "return ()"),
        ("return struct", "x: int, y: float", "P", "return P(x, y)"),
        ("return array", "x: int", "array[int, 2]", "return array(x, x)"),
        ("return tuple arg", "t: tuple[int]", "tuple[int]", "return t"),
        ("return tuple arg element", "t: tuple[int]", "int", "return t[0]"),
        ("1-tuple through call", "x: int", "tuple[int]", "return one(x)"),
        ("1-tuple with borrowed array", "xs: array[int, 2]", "tuple[int]", "bump(xs)\nreturn (xs[0],)"),
    ]:
        out.append((n, sig, rt, body, "deps" if "array" in sig else "exact"))
    arr = [
        ("array bump read", "xs: array[int, 2]", "int", "bump(xs)\nreturn xs[0]"),
        ("array bump twice", "xs: array[int, 2]", "int", "bump(xs)\nbump(xs)\nreturn xs[0] + xs[1]"),
        ("array bump other elem", "xs: array[int, 2]", "int", "bump(xs)\nreturn xs[1]"),
        ("float array", "xs: array[float, 2]", "float", "fbump(xs)\nreturn xs[1]"),
        ("two arrays", "xs: array[int, 2], ys: array[int, 2]", "int", "move(xs, ys)\nreturn ys[1]"),
        ("two arrays read source", "xs: array[int, 2], ys: array[int, 2]", "int", "move(xs, ys)\nreturn xs[0]"),
        ("array of tuples", "ts: array[tuple[int, bool], 2]", "int", "tbump(ts)\nreturn ts[0][0]"),
        ("local array", "x: int", "int", "xs = array(x, x)\nbump(xs)\nreturn xs[0]"),
        ("array swap", "xs: array[int, 2], ys: array[int, 2]", "int", "mem_swap(xs, ys)\nreturn xs[0]"),
        ("array bump no read", "xs: array[int, 2]", "None", "bump(xs)"),
    ]
    for n, sig, rt, body in arr:
        out.append((n, sig, rt, body, "deps"))
    return out


def _lower_outputs(defn):
    """[(tree, deps)] for every output of the lowered function `f`, or None if it is not straight-line"""
    import feed
    import hugr.ops as ops

    g = feed.lower(defn)
    h = g.hugr
    src = {}
    for a, b in h.links():
        src[(b.node.idx, b.offset)] = (a.node, a.offset)
    fn = next(n for n in h if isinstance(h[n].op, ops.FuncDefn) and h[n].op.f_name == "f")
    kids = list(h.children(fn))
    cfgs = [k for k in kids if isinstance(h[k].op, ops.CFG)]
    first = 0
    if cfgs:
        blocks = [b for b in h.children(cfgs[0]) if isinstance(h[b].op, ops.DataflowBlock)]
        if len(blocks) != 1:
            return None
        kids, first = list(h.children(blocks[0])), 1
    out = next(k for k in kids if isinstance(h[k].op, ops.Output))
    region = {k.idx for k in kids}

    def ins(node):
        return [(i, src[(node.idx, i)]) for i in range(h.num_in_ports(node)) if (node.idx, i) in src]

    def tree(node, off, depth=0):
        op = h[node].op
        name = feed.op_name(op)
        if depth > 40:
            return "…"
        if isinstance(op, ops.Input):
            return f"in{off}"
        if isinstance(op, ops.LoadConst):
            c = src.get((node.idx, 0))
            return "const:" + repr(h[c[0]].op.val)[:60] if c else "const?"
        if isinstance(op, ops.UnpackTuple):
            s0 = src.get((node.idx, 0))
            if s0 and isinstance(h[s0[0]].op, ops.MakeTuple):
                s1 = src.get((s0[0].idx, off))
                if s1:
                    return tree(s1[0], s1[1], depth + 1)
        if isinstance(op, ops.MakeTuple):
            ss = [s0 for _i, s0 in ins(node)]
            if (ss and all(isinstance(h[a].op, ops.UnpackTuple) for a, _o in ss) and len({a.idx for a, _o in ss}) == 1
                    and [o for _a, o in ss] == list(range(h.num_out_ports(ss[0][0])))):
                s0 = src.get((ss[0][0].idx, 0))
                if s0:
                    return tree(s0[0], s0[1], depth + 1)
        args = []
        for _i, (a, o) in ins(node):
            sop = h[a].op
            if isinstance(sop, (ops.FuncDefn, ops.FuncDecl)):
                args.append("fn:" + sop.f_name)
            elif isinstance(sop, ops.Const):
                continue
            else:
                args.append(tree(a, o, depth + 1))
        base = name.rsplit(".", 1)[-1]
        if len(args) == 2:
            for gt, lt in MIRROR:
                if base == gt:
                    name, args = name[: -len(gt)] + lt, [args[1], args[0]]
                    break
            else:
                if base in SYMMETRIC:
                    args = sorted(args)
        return f"{name}({','.join(args)})" + (f"#{off}" if h.num_out_ports(node) > 1 else "")

    def deps(node, off):
        seen, todo, out_ = set(), [node], set()
        while todo:
            n = todo.pop()
            if n.idx in seen:
                continue
            seen.add(n.idx)
            for _i, (a, o) in ins(n):
                sop = h[a].op
                if isinstance(sop, (ops.FuncDefn, ops.FuncDecl)):
                    if sop.f_name in DEP_CALLEES:
                        out_.add("fn:" + sop.f_name)
                elif isinstance(sop, ops.Input) and a.idx in region:
                    out_.add(f"in{o}")
                elif not isinstance(sop, ops.Const):
                    todo.append(a)
        return sorted(out_)

    res = []
    for i, (a, o) in ins(out):
        if i < first:
            continue
        if isinstance(h[a].op, ops.Input) and a.idx in region:
            res.append((f"in{o}", [f"in{o}"]))
        else:
            res.append((tree(a, o), deps(a, o)))
    return res


def tie_deps(ctx):
    import feed
    from guppylang_internals.error import GuppyComptimeError, GuppyError

    for name, sig, ret, body, how in dep_probes():
        got = {}
        for mode, deco in (("regular", "@guppy"), ("comptime", "@guppy.comptime")):
            src = DEP_PRELUDE + f"{deco}\ndef f({sig}) -> {ret}:\n" + "".join("    " + l + "\n" for l in body.split("\n"))
            m = None
            try:
                m = feed.load(src)
                o, e = feed.check_outcome(m.f)
                if o != "ok":
                    got[mode] = ("reject" if o == "user" else "crash", feed.err_class(e))
                    continue
                outs = _lower_outputs(m.f)
                got[mode] = ("ok", outs) if outs is not None else ("unsupported", "not straight-line")
            except (GuppyError, GuppyComptimeError, TypeError) as e:
                got[mode] = ("reject", type(e).__name__ + ":" + str(e)[:80])
            except BaseException as e:  # noqa: BLE001
                got[mode] = ("crash", type(e).__name__ + ":" + str(e)[:80])
            finally:
                if m is not None:
                    feed.unload(m)
        (ro, rv), (co, cv) = got["regular"], got["comptime"]
        key = f"deps:{name}:{body!r}"
        rep = {"name": name, "sig": sig, "ret": ret, "body": body, "how": how, "regular": [ro, rv], "comptime": [co, cv]}
        if ro == co == "ok":
            a = [t for t, _d in rv] if how == "exact" else [d for _t, d in rv]
            b = [t for t, _d in cv] if how == "exact" else [d for _t, d in cv]
            same = a == b
            ctx.count(["deps", name, body], nontrivial=True, kind=f"deps:{how}:" + ("same" if same else "DIFF"))
            if not same:
                what = "output expression trees" if how == "exact" else "inputs/callees the outputs depend on"
                ctx.violation(key, f"`{body}` ({sig}): {what} differ: @guppy {a} vs @guppy.comptime {b} "
                              "(a borrowed argument modified by the callee is read back with a stale value)", rep)
        else:
            ctx.count(["deps", name, body], nontrivial=False, kind=f"deps:{ro}/{co}")
            if "crash" in (ro, co):
                ctx.violation(key, f"`{body}` ({sig}): compiler crash: regular {ro} {rv if ro != 'ok' else ''} / comptime {co} {cv if co != 'ok' else ''}", rep)
            elif ro != co and "unsupported" not in (ro, co):
                ctx.violation(key, f"`{body}` ({sig}): regular is {ro} ({rv if ro != 'ok' else ''}) but comptime is {co} ({cv if co != 'ok' else ''})", rep)


# ---------------------------------------------------------------------- constant-reuse probes
# Multi-statement bodies that mention Python constants which are EQUAL as Python values but have different Guppy
# types (1 / 1.0 / True, 0 / 0.0 / -0.0 / False, 2 / 2.0), and the same constant twice: a tracer that identifies
# constants by value (a cache, an interning table) gives the later statement the earlier statement's object.
CONST_FAMILIES = {
    "one": ["1", "1.0", "True"],
    "zero": ["0", "0.0", "-0.0", "False"],
    "two": ["2", "2.0"],
}
VARS = {"x": "int", "n": "nat", "f": "float", "b": "bool"}


def _const_stmts(consts):
    out = []
    for c in consts:
        if c in ("True", "False"):
            out += [f"b & {c}", f"{c} | b", f"b == {c}"]
        else:
            for v in ("x", "n", "f"):
                out += [f"{v} + {c}", f"{c} * {v}"]
            out.append(f"f - {c}" if not c.startswith("-") else f"1.0 / (f * {c})")
    return out


def const_reuse_cases(ctx):
    cases = []
    for fam, consts in CONST_FAMILIES.items():
        st = _const_stmts(consts)
        for a in st:
            for b in st:
                cases.append((fam, f"z1 = {a}\nz2 = {b}"))
        for a in st[:6]:
            cases.append((fam, f"z1 = {a}\nz2 = {st[-1]}\nz3 = {a}"))
    if ctx.quick:
        cases = ctx.rng.sample(cases, 45)
    return cases


def tie_const_reuse(ctx):
    sig = ", ".join(f"{v}: {t}" for v, t in VARS.items())
    for fam, body in const_reuse_cases(ctx):
        _check_pair(ctx, "constreuse:" + fam, sig, "None", body, None, "", wiring=True)


# ---------------------------------------------------------------------- builtin x operand-kind grid
# Every builtin that the tracer mocks (int, float, len) or the checker special-cases (bool, nat, abs, round, pow,
# divmod) applied to every kind of operand: traced numerics, a struct that defines the corresponding dunder, a struct
# that does not, arrays, tuples, comptime constants.
BUILTIN_PRELUDE = (
    "@guppy.struct\nclass D:\n    a: int\n    b: float\n"
    "    @guppy\n    def __len__(self: \"D\") -> int:\n        return self.a\n"
    "    @guppy\n    def __int__(self: \"D\") -> int:\n        return self.a + 1\n"
    "    @guppy\n    def __float__(self: \"D\") -> float:\n        return self.b\n"
    "    @guppy\n    def __bool__(self: \"D\") -> bool:\n        return self.a > 0\n"
    "    @guppy\n    def __abs__(self: \"D\") -> int:\n        return self.a * 2\n"
    "    @guppy\n    def __round__(self: \"D\") -> int:\n        return self.a\n"
    "@guppy.struct\nclass N:\n    a: int\n"
)
BUILTINS1 = ["int", "float", "bool", "nat", "len", "abs", "round"]
OPERANDS = [
    ("int", "v: int", "v"), ("nat", "v: nat", "v"), ("float", "v: float", "v"), ("bool", "v: bool", "v"),
    ("struct with dunder", "v: D", "v"), ("struct without dunder", "v: N", "v"),
    ("struct built locally", "x: int, y: float", "D(x, y)"),
    ("array", "v: array[int, 3]", "v"), ("array of float", "v: array[float, 2]", "v"),
    ("tuple", "v: tuple[int, float]", "v"), ("tuple element", "v: tuple[int, float]", "v[1]"),
    ("array element", "v: array[int, 3]", "v[1]"), ("struct field", "v: D", "v.b"),
    ("const int", "", "3"), ("const float", "", "2.5"), ("const bool", "", "True"), ("const negative", "", "-3"),
    ("expression", "v: int", "(v + 1)"),
]


def tie_builtins(ctx):
    cases = []
    for bname in BUILTINS1:
        for oname, sig, expr in OPERANDS:
            cases.append((f"builtin:{bname}({oname})", sig, f"z = {bname}({expr})"))
    for oname, sig, expr in OPERANDS[:6]:
        cases.append((f"builtin:pow({oname})", sig, f"z = pow({expr}, 2)"))
        cases.append((f"builtin:divmod({oname})", sig, f"z = divmod({expr}, 2)"))
        cases.append((f"builtin:nested({oname})", sig, f"z = float(int({expr})) + len(array(1, 2))"))
    if ctx.quick:
        must = [c for c in cases if "struct" in c[0]]
        rest = [c for c in cases if "struct" not in c[0]]
        cases = must + ctx.rng.sample(rest, 35)
    for name, sig, body in cases:
        # a builtin applied to a Python constant is evaluated by Python at trace time: only accept/reject is compared
        _check_pair(ctx, name, sig, "None", body, None, BUILTIN_PRELUDE, wiring=False, both_modes_only=True,
                    fold="(const" in name)
    # a Python int constant handed to a Guppy function where `nat` is expected
    _check_pair(ctx, "call:nat parameter with constant", "v: nat", "None", "z = takes_nat(2)", None,
                BUILTIN_PRELUDE + "@guppy\ndef takes_nat(y: nat) -> nat:\n    return y\n", wiring=False)


# ---------------------------------------------------------------------- constructor probes
# `array(...)` with 0 / 1 / n arguments of every kind (scalars, arrays, tuples, structs, generators), nested, and the
# other std constructors callable in both modes (some / nothing, struct constructors, tuples).  The declared return
# type pins the type of the constructed value, so a constructor that builds a different shape in one mode is rejected
# there (accept/reject disagreement) even where the op multiset would not show it.
CTOR_PRELUDE = (
    "from guppylang.std.option import Option, some, nothing\n"
    "@guppy.struct\nclass S:\n    a: int\n    b: float\n"
    "@guppy.struct\nclass W:\n    s: S\n    n: int\n"
    "@guppy.struct\nclass B:\n    xs: array[int, 2]\n    k: int\n"
)
A2 = "array[int, 2]"
CTORS = [
    ("array()", "", "array[int, 0]", "return array()"),
    ("array(scalar)", "x: int", "array[int, 1]", "return array(x)"),
    ("array(expr)", "x: int", "array[int, 1]", "return array(x * 2)"),
    ("array(n scalars)", "x: int, y: int", "array[int, 3]", "return array(x, y, x + y)"),
    ("array(floats)", "x: float", "array[float, 2]", "return array(x, 2.5)"),
    ("array(bools)", "b: bool", "array[bool, 2]", "return array(b, True)"),
    ("array(consts)", "", "array[int, 3]", "return array(1, 2, 3)"),
    ("array(one array)", f"xs: {A2} @owned", f"array[{A2}, 1]", "return array(xs)"),
    ("len(array(one array))", f"xs: {A2} @owned", "int", "m = array(xs)\nreturn len(m)"),
    ("array(one array)[0][1]", f"xs: {A2} @owned", "int", "m = array(xs)\nreturn m[0][1]"),
    ("array(two arrays)", f"xs: {A2} @owned, ys: {A2} @owned", f"array[{A2}, 2]", "return array(xs, ys)"),
    ("array(one local array)", "x: int", f"array[{A2}, 1]", "xs = array(x, x)\nreturn array(xs)"),
    ("array(array(..))", "x: int", f"array[{A2}, 1]", "return array(array(x, x + 1))"),
    ("array(array, array)", "x: int, y: int", "array[array[int, 1], 2]", "return array(array(x), array(y))"),
    ("array(array(array))", "x: int", "array[array[array[int, 1], 1], 1]", "return array(array(array(x)))"),
    ("array(one tuple)", "x: int", "array[tuple[int, int], 1]", "return array((x, x + 1))"),
    ("array(tuples)", "x: int", "array[tuple[int, bool], 2]", "return array((x, True), (1, False))"),
    ("array(one struct)", "x: int, y: float", "array[S, 1]", "return array(S(x, y))"),
    ("array(structs)", "x: int, y: float", "array[S, 2]", "return array(S(x, y), S(1, 2.0))"),
    ("array(generator range)", "", "array[int, 3]", "return array(i + 1 for i in range(3))"),
    ("array(generator over array)", "xs: array[int, 3] @owned", "array[int, 3]", "return array(x + 1 for x in xs)"),
    ("array(generator over borrowed array)", "xs: array[int, 3]", "array[int, 3]", "return array(x + 1 for x in xs.copy())"),
    ("array(generator of arrays)", "", f"array[{A2}, 2]", "return array(array(i, i) for i in range(2))"),
    ("array(elements of array)", "xs: array[int, 3]", A2, "return array(xs[0], xs[1] + xs[2])"),
    ("some(x)", "x: int", "Option[int]", "return some(x)"),
    ("some(array)", f"xs: {A2} @owned", f"Option[{A2}]", "return some(xs)"),
    ("some(tuple)", "x: int", "Option[tuple[int, int]]", "return some((x, x))"),
    ("nothing()", "", "Option[int]", "return nothing()"),
    ("nothing[int]()", "", "Option[int]", "return nothing[int]()"),
    ("some(x).unwrap()", "x: int", "int", "return some(x).unwrap()"),
    ("struct", "x: int, y: float", "S", "return S(x, y)"),
    ("struct consts", "", "S", "return S(1, 2.5)"),
    ("nested struct", "x: int, y: float", "W", "return W(S(x, y), x)"),
    ("struct with array", "x: int", "B", "return B(array(x, x), 1)"),
    ("struct with array arg", f"xs: {A2} @owned", "B", "return B(xs, 1)"),
    ("tuple", "x: int, y: float", "tuple[float, int]", "return (y, x)"),
    ("nested tuple", "x: int", "tuple[int, tuple[int, int]]", "return (x, (x, x))"),
    ("tuple of arrays", "x: int", f"tuple[{A2}, int]", "return (array(x, x), x)"),
    ("empty tuple", "", "tuple[()]", "return ()"),
]


def tie_ctors(ctx):
    for name, sig, ret, body in CTORS:
        # a comprehension is unrolled by Python at trace time (no iterator loop): accept/reject + return type only
        _check_pair(ctx, "ctor:" + name, sig, ret, body, None, CTOR_PRELUDE, wiring=False, fold="generator" in name)


def _binary_cases(ctx, ops):
    rng = ctx.rng
    cases = []
    for op, _l, _r in ops:
        for a in NTYS:
            for b in NTYS:
                cases.append((op, ("t", a), ("t", b)))
            for c in CTYS:
                cases.append((op, ("t", a), ("c", c)))
                cases.append((op, ("c", c), ("t", a)))
    if ctx.quick:
        # every operator x every shape kind at least once, ~1/3 of the grid; reflected/constant-left always
        keep = [c for c in cases if c[1][0] == "c" or rng.random() < 0.15]
        cases = keep
    return cases


def tie(ctx):
    tabs = getattr(ctx, "_c21", None)
    if tabs is None:
        ops, uops, _f, _r = extract_tables()
    else:
        ops, uops = tabs["ops"], tabs["uops"]
    # ---- corpus / replay first
    corpus = os.path.join(vlib.VERIF, "corpus", "c21")
    extra = []
    if os.path.isdir(corpus):
        for fn in sorted(os.listdir(corpus)):
            extra += json.load(open(os.path.join(corpus, fn)))
    if ctx.replay_in and "body" in ctx.replay_in.get("replay", {}):
        extra.append(ctx.replay_in["replay"])
    for r in extra:
        _check_pair(ctx, r["name"], r["sig"], r["ret"], r["body"], r.get("comptime_body"), r.get("prelude", CONTAINER_PRELUDE), wiring=r.get("wiring", False))
    # ---- operators: model vs real, regular vs comptime
    bcases = _binary_cases(ctx, ops)
    lines = [f"bin {op} {l[0]} {l[1]} {r[0]} {r[1]}" for op, l, r in bcases]
    ucases = [(op, t) for op, _d2 in uops for t in NTYS]
    lines += [f"un {op} {t}" for op, t in ucases]
    replies = ctx.driver("C21", lines)
    for (op, l, r), line, rep in zip(bcases, lines, replies):
        params = []
        le = "x" if l[0] == "t" else CONST[l[1]]
        re_ = "y" if r[0] == "t" else CONST[r[1]]
        if l[0] == "t":
            params.append(f"x: {l[1]}")
        if r[0] == "t":
            params.append(f"y: {r[1]}")
        body = f"z = {le} {OPSYM[op]} {re_}"
        fields = dict(kv.split("=", 1) for kv in rep.split(" "))
        _check_pair(ctx, line, ", ".join(params), "None", body, None, "", wiring=True,
                    model=(fields["reg"] != "none", fields["ct"] != "none"), model_line=rep)
    for (op, t), line, rep in zip(ucases, lines[len(bcases):], replies[len(bcases):]):
        fields = dict(kv.split("=", 1) for kv in rep.split(" "))
        _check_pair(ctx, line, f"x: {t}", "None", f"z = {USYM[op]}x", None, "", wiring=True,
                    model=(fields["reg"] != "none", fields["ct"] != "none"), model_line=rep)
    # ---- builtins, containers, calls
    for name, sig, ret, body in SHAPES:
        _check_pair(ctx, "shape:" + name, sig, ret, body, None, CONTAINER_PRELUDE, wiring=False)
    for name, sig, ret, body, cbody in COMPTIME_ONLY_EQUIV:
        _check_pair(ctx, "shape:" + name, sig, ret, body, cbody, CONTAINER_PRELUDE, wiring=False)
    tie_deps(ctx)
    tie_const_reuse(ctx)
    tie_builtins(ctx)
    tie_ctors(ctx)


def _check_pair(ctx, name, sig, ret, body, comptime_body, prelude, wiring, model=None, model_line=None, both_modes_only=False, fold=False):
    if comptime_body is None:
        res = _both(sig, ret, body, prelude, wiring)
    else:
        res = {"regular": _both(sig, ret, body, prelude, wiring)["regular"],
               "comptime": _both(sig, ret, comptime_body, prelude, wiring)["comptime"]}
    (ro, rc), (co, cc) = res["regular"], res["comptime"]
    agree = (ro == co == "ok" and (rc == cc or fold)) or (ro == co == "reject")
    if both_modes_only and ro == "reject" and co == "ok":
        # the operation is not available in regular Guppy (Python evaluates it on a plain value at trace time,
        # e.g. `float(True)`, `len` of a tuple): outside the property ("operations available in both modes")
        ctx.count([name, body], nontrivial=False, kind="python-only")
        return
    ctx.count([name, body], nontrivial=(ro == "ok" and co == "ok"), kind=f"{ro}/{co}" + ("" if agree else ":DIFF"))
    rep = {"name": name, "sig": sig, "ret": ret, "body": body, "comptime_body": comptime_body, "prelude": prelude,
           "wiring": wiring, "regular": [ro, rc], "comptime": [co, cc], "model": model_line}
    key = f"pair:{name}:{body!r}"
    if "crash" in (ro, co):
        which = "regular" if ro == "crash" else "comptime"
        ctx.violation(key, f"`{body}` ({sig}): the {which} version crashes the compiler ({rc if ro == 'crash' else cc})", rep)
    elif not agree:
        if ro == co == "ok":
            d1 = [x for x in rc if x not in cc]
            d2 = [x for x in cc if x not in rc]
            what = f"lower differently: regular-only {d1[:4]} comptime-only {d2[:4]}"
        else:
            what = f"regular is {ro} ({rc if ro != 'ok' else ''}) but comptime is {co} ({cc if co != 'ok' else ''})"
        ctx.violation(key, f"`{body}` ({sig}) as @guppy and as @guppy.comptime {what}", rep)
    if model is not None:
        if model[0] != (ro == "ok"):
            ctx.broke(f"model of _synthesize_binary disagrees with the real checker on `{name}` (model {model_line}, real {ro})")
        if model[1] != (co == "ok"):
            ctx.broke(f"model of comptime dispatch disagrees with the real tracer on `{name}` (model {model_line}, real {co}: {cc if co != 'ok' else ''})")


if __name__ == "__main__":
    vlib.main(sys.modules[__name__])
