"""C21 — Comptime functions agree with regular Guppy functions (partial)."""
from __future__ import annotations

import ast
import json
import os
import sys

sys.path.insert(0, os.path.dirname(os.path.dirname(os.path.abspath(__file__))))
sys.path.insert(0, os.path.dirname(os.path.abspath(__file__)))
import vlib

PID = "C21"
THEOREM_MODULES = ["GuppyVerif.Props.C21"]
RULE = (
    "every binary operator x operand shape (`x op y`, `x op c`, `c op x`; c a Python int/float/bool constant) x numeric type "
    "pair over bool/nat/int/float, every unary operator, the int/float/bool/abs/len/divmod/round/pow builtins, tuple / array / "
    "struct packing and unpacking and calls to Guppy functions (owned and borrowed arguments), each written once as @guppy and "
    "once as @guppy.comptime with the same body; both are checked and lowered by the real compiler and the canonical forms "
    "(multiset of ops, each with the ops feeding its input ports; constants; called functions) are compared. Non-trivial = both "
    "versions compile (then they must agree); both rejecting is also agreement."
)
ASSUMPTIONS = [
    "HUGR op semantics are outside the repository: 'computes the same result' is observed as 'lowers to the same operations with the "
    "same operand wiring' (no emulator for /repo output)",
    "CPython's binary operator protocol: `c op x` with c an int/float/bool and x a GuppyObject calls type(c).__op__ (NotImplemented) and "
    "then type(x).__rop__(x, c); `x op _` calls type(x).__op__(x, _)",
    "when regular and comptime dispatch pick the direct dunder and the reflected dunder of the *same* type (constant on the left, both "
    "accepted), agreement needs T.__rop__(r, l) == T.__op__(l, r); this is a property of std/num.py (C04) and is observed here on the lowered wiring",
    "the acceptance table acc(T, dunder, U) is extracted by checking `a.dunder(b)` with the real checker for a: T, b: U — the same "
    "`synthesize_call` both dispatch procedures use",
]
UNMODELLED = [
    "run-time results (no emulator for /repo output): agreement is on lowered operations and wiring",
    "non-numeric operand types (angle, arrays, user structs with dunders) in the Lean dispatch model; they are only sampled by probes",
    "control flow: comptime branches are resolved by Python at trace time and cannot depend on traced values",
    "builtins_mock functions other than those probed; higher-order comptime functions (rejected as unsupported)",
]
MANIFEST = {
    "level_text": "Lean theorems over tables regenerated from /repo on every run: `mixin_delegates_self` (every DunderMixin operator method "
    "delegates to the dunder of its own name — decide over the AST-extracted table), `tables_inverse` (tracing.binary_table / "
    "reverse_binary_table are the checker's binary_table and its inverse), `dispatch_agree` (for every operator, operand shape and numeric type "
    "pair, comptime dispatch = forward-then-reflected fallback of `binary_operation` under CPython's operator protocol, and regular dispatch = "
    "`_synthesize_binary`, succeed on the same inputs and select the same implementing type and operator with the same operand order), "
    "`dispatch_same_when_traced_left` (identical (type, dunder, argument order) when the left operand is traced). Finite enumeration closed "
    "by decide (the domain is a finite table; said so). Tie: ~330 (quick) / ~700 (thorough) probe pairs lowered in both modes and compared; the model's "
    "predicted success/failure is compared with both real outcomes.",
    "level_note": "partial: agreement is proved for operator dispatch on numeric types and observed (not proved) for builtins, containers and calls; "
    "results are compared as lowered operations + wiring since nothing compiled from /repo can be executed. Trusted: the Lean model of CPython's operator "
    "protocol and of the two dispatch procedures (hand-written from object.py / expr_checker.py), the acceptance-table extraction, the canonicaliser.",
    "technique": "Lean 4 decide over tables regenerated from source/objects (T-src, T-obj) + differential lowering of probe pairs (T-obj)",
    "design_ref": "DESIGN.md §5 C21",
    "ready": False,
}

GEN = os.path.join(vlib.LEAN, "GuppyVerif", "Gen", "C21DunderMixin.lean")
NTYS = ["bool", "nat", "int", "float"]


# ====================================================================== translator
def extract_mixin(repo):
    """DunderMixin: [(method, delegate or None, decorator)] from the AST of tracing/object.py"""
    p = os.path.join(repo, "guppylang-internals", "src", "guppylang_internals", "tracing", "object.py")
    tree = ast.parse(open(p).read())
    rows = []
    for n in tree.body:
        if isinstance(n, ast.ClassDef) and n.name == "DunderMixin":
            for m in n.body:
                if not (isinstance(m, ast.FunctionDef) and m.name.startswith("__") and m.name.endswith("__")):
                    continue
                deco = "none"
                for d in m.decorator_list:
                    nm = ast.unparse(d)
                    if nm in ("binary_operation", "unary_operation"):
                        deco = nm.split("_")[0]
                delegate = None
                for c in ast.walk(m):
                    if (isinstance(c, ast.Call) and isinstance(c.func, ast.Attribute) and c.func.attr == "_get_method"
                            and c.args and isinstance(c.args[0], ast.Constant)):
                        delegate = c.args[0].value
                rows.append((m.name, delegate, deco))
    return sorted(rows)


def extract_tables():
    """checker binary/unary tables and the tracing module's derived tables (imported objects)"""
    import guppylang_internals.checker.expr_checker as ec
    import guppylang_internals.tracing.object as to

    ops = sorted((k.__name__, l, r) for k, (l, r, _d) in ec.binary_table.items())
    uops = sorted((k.__name__, d) for k, (d, _n) in ec.unary_table.items())
    fwd = sorted((m, r) for m, (r, _d) in to.binary_table.items())
    rev = sorted((r, m) for r, (m, _d) in to.reverse_binary_table.items())
    return ops, uops, fwd, rev


def extract_acc(dunders, unary):
    """acc(T, d, U): does `a.d(b)` type-check for a: T, b: U (the real `synthesize_call`)"""
    import feed

    src, names = "", []
    for T in NTYS:
        for d in unary:
            n = f"u_{T}_{d}"
            src += f"@guppy\ndef {n}(a: {T}) -> None:\n    a.{d}()\n"
            names.append((n, T, d, None))
        for U in NTYS:
            for d in dunders:
                n = f"f_{T}_{d}_{U}"
                src += f"@guppy\ndef {n}(a: {T}, b: {U}) -> None:\n    a.{d}(b)\n"
                names.append((n, T, d, U))
    m = feed.load(src)
    acc, uacc = [], []
    try:
        for n, T, d, U in names:
            o, _e = feed.check_outcome(getattr(m, n))
            if o == "ok":
                (acc if U else uacc).append((T, d, U) if U else (T, d))
    finally:
        feed.unload(m)
    return sorted(acc), sorted(uacc)


def _d(name):  # Lean constructor for a dunder
    return "d_" + name.strip("_")


def render(mixin, ops, uops, fwd, rev, acc, uacc):
    dunders = sorted({d for _o, l, r in ops for d in (l, r)} | {d for _o, d in uops}
                     | {m for m, _x, _y in mixin} | {x for _m, x, _y in mixin if x}
                     | {a for p in fwd + rev for a in p})
    L = [
        "/-! GENERATED on every run by harness/props/c21.py (translate): the AST of `DunderMixin`",
        "    (tracing/object.py), the imported tables `expr_checker.binary_table` / `unary_table`, `tracing.object.binary_table` /",
        "    `reverse_binary_table`, and the acceptance table obtained by checking `a.dunder(b)` with the real checker.  Do not edit. -/",
        "namespace GuppyVerif.C21",
        "",
        "inductive Dunder where",
        *[f"  | {_d(d)}" for d in dunders],
        "  deriving DecidableEq, Repr",
        "",
        "inductive Op where",
        *[f"  | {o}" for o, _l, _r in ops],
        "  deriving DecidableEq, Repr",
        "",
        "inductive UOp where",
        *[f"  | {o}" for o, _d2 in uops],
        "  deriving DecidableEq, Repr",
        "",
        "inductive NTy where | bool | nat | int | float deriving DecidableEq, Repr",
        "inductive Deco where | binary | unary | none deriving DecidableEq, Repr",
        "",
        "/-- `DunderMixin`: method, the dunder its body delegates to via `_get_method`, decorator -/",
        "def mixin : List (Dunder × Option Dunder × Deco) := [",
        ",\n".join(f"  (.{_d(m)}, {'some .' + _d(x) if x else 'none'}, .{dc})" for m, x, dc in mixin),
        "]",
        "",
        "/-- `expr_checker.binary_table`: AST operator, left dunder, reflected dunder -/",
        "def checkerOps : List (Op × Dunder × Dunder) := [",
        ",\n".join(f"  (.{o}, .{_d(l)}, .{_d(r)})" for o, l, r in ops),
        "]",
        "",
        "def checkerUOps : List (UOp × Dunder) := [",
        ",\n".join(f"  (.{o}, .{_d(d)})" for o, d in uops),
        "]",
        "",
        "/-- `tracing.object.binary_table`: method ↦ reverse method -/",
        "def fwdTable : List (Dunder × Dunder) := [",
        ",\n".join(f"  (.{_d(a)}, .{_d(b)})" for a, b in fwd),
        "]",
        "",
        "/-- `tracing.object.reverse_binary_table`: reverse method ↦ method -/",
        "def revTable : List (Dunder × Dunder) := [",
        ",\n".join(f"  (.{_d(a)}, .{_d(b)})" for a, b in rev),
        "]",
        "",
        "/-- accepted (self type, dunder, other type): `a.dunder(b)` type-checks -/",
        "def accTable : List (NTy × Dunder × NTy) := [",
        ",\n".join(f"  (.{T}, .{_d(d)}, .{U})" for T, d, U in acc),
        "]",
        "",
        "/-- accepted unary (self type, dunder) -/",
        "def uaccTable : List (NTy × Dunder) := [",
        ",\n".join(f"  (.{T}, .{_d(d)})" for T, d in uacc),
        "]",
        "",
        "def opNames : List (String × Op) := [" + ", ".join(f'("{o}", .{o})' for o, _l, _r in ops) + "]",
        "def uopNames : List (String × UOp) := [" + ", ".join(f'("{o}", .{o})' for o, _d2 in uops) + "]",
        "def dunderNames : List (Dunder × String) := [" + ", ".join(f'(.{_d(d)}, "{d}")' for d in dunders) + "]",
        "",
        "end GuppyVerif.C21",
        "",
    ]
    return "\n".join(L)


def translate(ctx):
    import bootstrap

    mixin = extract_mixin(bootstrap.REPO)
    ops, uops, fwd, rev = extract_tables()
    dunders = sorted({d for _o, l, r in ops for d in (l, r)})
    unary = sorted({d for _o, d in uops})
    acc, uacc = extract_acc(dunders, unary)
    txt = render(mixin, ops, uops, fwd, rev, acc, uacc)
    old = open(GEN).read() if os.path.exists(GEN) else None
    if old != txt:
        with open(GEN, "w") as f:
            f.write(txt)
    ctx.extra["table_rows"] = {"mixin": len(mixin), "ops": len(ops), "acc": len(acc), "uacc": len(uacc)}
    ctx._c21 = {"ops": ops, "uops": uops}


if __name__ == "__main__":
    vlib.main(sys.modules[__name__])
