"""C04 — Numeric operators compute Python's results (partial: HUGR op semantics assumed)."""
from __future__ import annotations

import json
import math
import os
import sys

sys.path.insert(0, os.path.dirname(os.path.dirname(os.path.abspath(__file__))))
import vlib

PID = "C04"
THEOREM_MODULES = ["GuppyVerif.Props.C04"]
BUILD_EXTRA = ["GuppyVerif.Lemmas.IntSem"]
DRIVER = "C04"
GEN = os.path.join(vlib.LEAN, "GuppyVerif", "Gen", "C04NumTable.lean")
RULE = (
    "two kinds of cases. (1) table rows: every method of the nat/int/float/bool classes of std/num.py + std/bool.py and every "
    "numeric builtin is lowered by the REAL compiler in a one-call probe (`a.__dunder__(b)`, `abs(a)`, …) and every operator form "
    "(`a OP b` for all operators x accepted operand-type pairs, unary ops, not, builtins) in a one-operator probe; the emitted "
    "HUGR ops (per FuncDefn, with operand wiring) are compared with the table row extracted from the source (T-src vs T-obj). "
    "(2) value cases (form, operand types, operands): operands from boundary grids (0, ±1, ±2, ±3, ±7, 10, 63, 64, 65, ±2^31, "
    "2^32+1, 2^53(+1), ±2^62, 2^63-1, -2^63(+1), 2^64-1 …; floats incl. 0.1, 0.3, 1e308, 2^53); value computed three ways: REAL = "
    "the op the real compiler emitted for the probe, evaluated by the IntSem op model with the extracted wiring; MODEL = NumEval "
    "through the regenerated table; ORACLE = Python's own arithmetic, wrapped as the statement says. non-trivial = an operand is "
    "0, ±1, within 2 of ±2^63 / 2^64, or the operands differ in sign; distinct by canonical case"
)
ASSUMPTIONS = [
    "HUGR arithmetic.int / conversions / logic ops behave as their shipped descriptions say (Model/IntSem.lean quotes each); in particular "
    "idivmod_s reads its divisor unsigned and ishr is a logical shift. They live outside /repo; nothing compiled from /repo can be executed here.",
    "thorough tier: IntSem agrees with the installed 1.0.4 emulator on ~3100 boundary results (28 ops) EXCEPT imod_s with n = -2^63, where the runtime "
    "returns a remainder outside [0, m) (e.g. (-2^63) % 7 = 8) contradicting the op's description; IntSem follows the description, so `int % b` at "
    "a = -2^63 is covered by the theorem only modulo that runtime defect (outside /repo)",
    "is_to_u: the shipped description is a copy of iabs's; modelled as identity on non-negative inputs and panic on negative ones",
    "every arithmetic.float op (fadd, fsub, fmul, fdiv, ffloor, fneg, fabs, fpow, comparisons) is the IEEE-754 double operation that CPython uses "
    "for the same operator; convert_s / convert_u round the signed / unsigned reading to nearest-even like Python's float(int). Float results are "
    "symbolic terms in Lean (no rounding proved) and are evaluated with CPython floats in the harness.",
    "Guppy's claim that a @guppy dunder body means what its Python source means (C03) for the five-line bodies of __bool__, __pow__, __truediv__, "
    "float __floordiv__/__mod__/__divmod__, bool __ne__/__int__/__nat__: the body AST is evaluated by Model/NumEval.lean",
]
UNMODELLED = [
    "float -> int/nat conversions (trunc_s / trunc_u through UnwrapOpCompiler): only the emitted op is cross-checked",
    "float round/ceil/floor/trunc dunders and fpow/fround semantics beyond 'is the IEEE op'",
    "int ∘ float comparisons are evaluated with the integer converted to float first (as the code does); Python compares exactly — differences "
    "beyond 2^53 are reported under the known-finding class op:mixed-int-float-compare",
    "shift counts >= 64 and negative shift counts (outside the statement's guard); pow with exponents > 65 is not evaluated on the grid",
    "the 1.0.4-emulator validation of IntSem runs in the thorough tier only and covers the integer ops and convert_s/convert_u on a 12x12 / 10x10 grid",
]
MANIFEST = {
    "level_text": "Lean theorems, one per operator family, for ALL 64-bit operands under the statement's definedness guard: the value the operator "
    "computes according to the dunder table regenerated from std/num.py + std/bool.py + expr_checker's operator tables on every run "
    "(evaluated by the kernel through the real dispatch rules: left dunder, reflected dunder, ReversingChecker, DunderChecker, @guppy bodies) "
    "equals Python's result on unbounded Int wrapped into the signed (int) / unsigned (nat) 64-bit range: + - * unary -/+ & | ^ ~ << abs ** "
    "== != < <= > >= bool() not int() nat() float(), nat // % divmod >>, reflected and nat∘int coerced forms, bool ops. "
    "D11: int // % divmod and int >> are proved only under the forced hypotheses (0 < b, 0 <= a) with decided counterexamples; float // % divmod and "
    "int/int are proved structurally (floor(a/b); float(a)/float(b)). Tie: T-src table + T-obj cross-check of every row and operator form by "
    "lowering probes with the real compiler (op names and operand wiring) + value grids REAL/MODEL/ORACLE.",
    "level_note": "partial: HUGR op semantics are assumed from the shipped descriptions; in the thorough tier Model/IntSem is additionally validated "
    "against the installed 1.0.4 emulator (one program, ~3000 results, same dunder->op mapping as /repo) — nothing compiled from /repo is executed; "
    "float results are symbolic in Lean and evaluated with CPython floats. Known findings (D11) are keyed by operator class; any other operator/row "
    "that breaks is a violation.",
    "technique": "Lean 4 proof over a table regenerated from source (T-src) + extraction from real lowering (T-obj) + value grids against Python arithmetic",
    "design_ref": "DESIGN.md §5 C04, §6 D11",
    "ready": True,
}

P63, P64, P53 = 1 << 63, 1 << 64, 1 << 53
NUMT = ("nat", "int", "float", "bool")
RANK = {"bool": -1, "nat": 0, "int": 1, "float": 2}


def translate(ctx):
    import numtable as nt
    src = nt.lean_table()
    old = open(GEN).read() if os.path.exists(GEN) else None
    if old != src:
        with open(GEN, "w") as f:
            f.write(src)
    ctx.extra["gen_changed_vs_baseline"] = old is not None and old != src
    ctx.extra["table_rows"] = len(nt.rows())
    ctx.extra["table_sources"] = dict(nt.LAST_OVERLAY)


# =====================================================================================================
# helpers: values
# =====================================================================================================
def wrapS(x):
    return ((x + P63) % P64) - P63


def wrapU(x):
    return x % P64


def bits(ty, v):
    """python value -> unsigned 64-bit pattern (driver input)"""
    return v % P64


def val_of(ty, u):
    return u - P64 if (ty == "int" and u >= P63) else u


def parse_sexp(s):
    toks = s.replace("(", " ( ").replace(")", " ) ").split()
    pos = 0

    def rd():
        nonlocal pos
        t = toks[pos]
        pos += 1
        if t == "(":
            out = []
            while toks[pos] != ")":
                out.append(rd())
            pos += 1
            return out
        return t
    return rd()


class Undefined(Exception):
    """outside the definedness guard (zero division, overflow to inf, complex result …)"""


def feval(t, fin):
    """evaluate a symbolic float term with CPython floats (the assumed IEEE semantics)"""
    h = t[0]
    if h == "var":
        return fin[int(t[1])]
    if h == "lit":
        return float(t[1])
    if h == "ofS":
        return float(val_of("int", int(t[1])))
    if h == "ofU":
        return float(int(t[1]))
    a = feval(t[1], fin)
    b = feval(t[2], fin) if len(t) > 2 else None
    try:
        if h == "fadd":
            return a + b
        if h == "fsub":
            return a - b
        if h == "fmul":
            return a * b
        if h == "fdiv":
            if b == 0:
                raise Undefined
            return a / b
        if h == "fpow":
            r = a ** b
            if isinstance(r, complex):
                raise Undefined
            return r
        if h == "ffloor":
            if math.isinf(a) or math.isnan(a):
                raise Undefined
            return float(math.floor(a))
        if h == "fneg":
            return -a
        if h == "fabs":
            return abs(a)
        if h == "flt":
            return a < b
        if h == "fle":
            return a <= b
        if h == "fgt":
            return a > b
        if h == "fge":
            return a >= b
        if h == "feq":
            return a == b
        if h == "fne":
            return a != b
        if h == "not":
            return not a
    except (OverflowError, ZeroDivisionError) as e:
        raise Undefined from e
    raise AssertionError("float op " + h)


def parse_reply(rep, fin):
    """driver reply -> canonical python value: ('int', v) | ('nat', v) | ('bool', b) | ('float', x) | ('tup', a, b) | 'panic' | ('stuck', why)"""
    rep = rep.strip()
    if rep == "panic":
        return "panic"
    if rep.startswith("stuck"):
        return ("stuck", rep[6:])
    if rep.startswith("tup "):
        s = parse_sexp("(" + rep[4:] + ")")
        return ("tup", _pv(s[0], fin), _pv(s[1], fin))
    return _pv(parse_sexp("(" + rep + ")"), fin)


def _pv(s, fin):
    k = s[0]
    if k == "int":
        return ("int", val_of("int", int(s[1])))
    if k == "nat":
        return ("nat", int(s[1]))
    if k == "bool":
        return ("bool", s[1] == "1")
    if k == "flt":
        return ("float", feval(s[1], fin))
    if k == "fbool":
        return ("bool", bool(feval(s[1], fin)))
    raise AssertionError(s)


def same(x, y):
    """equality of canonical values (floats: equal or both nan; signed zeros not distinguished)"""
    if isinstance(x, tuple) and isinstance(y, tuple) and len(x) == len(y) and x[0] == y[0]:
        if x[0] == "float":
            a, b = x[1], y[1]
            return a == b or (math.isnan(a) and math.isnan(b))
        if x[0] == "tup":
            return same(x[1], y[1]) and same(x[2], y[2])
        return x == y
    return x == y


# =====================================================================================================
# forms: what is evaluated, its Guppy source, model request, oracle
# =====================================================================================================
BINOPS = ["+", "-", "*", "/", "//", "%", "**", "<<", ">>", "&", "|", "^", "==", "!=", "<", "<=", ">", ">="]
ARITH = {"+", "-", "*", "/", "//", "%", "**"}
CMPS = {"==", "!=", "<", "<=", ">", ">="}
BITS = {"<<", ">>", "&", "|", "^"}


def result_type(form):
    """static result type of an accepted form (mirrors the dispatch: the wider operand type's dunder), or None"""
    k = form[0]
    if k == "bin":
        _k, op, t1, t2 = form
        if "bool" in (t1, t2):
            if t1 == t2 == "bool" and op in ("&", "|", "^", "==", "!="):
                return "bool"
            return None
        w = t1 if RANK[t1] >= RANK[t2] else t2
        if w == "float" and op in BITS:
            return None
        if op in CMPS:
            return "bool"
        if op == "/":
            return "float"
        return w
    if k == "un":
        _k, op, t = form
        if t == "bool" or (op == "-" and t == "nat") or (op == "~" and t == "float"):
            return None
        return t
    if k == "not":
        return "bool"
    if k == "call":
        f, ts = form[1], form[2:]
        if f in ("int", "nat", "float", "bool"):
            if ts[0] == "float" and f in ("int", "nat"):
                return None      # trunc: not modelled
            if ts[0] == "bool" and f == "float":
                return None
            return f
        if f == "abs":
            return ts[0] if ts[0] != "bool" else None
        if f in ("divmod", "pow"):
            if len(ts) != 2 or ts[0] != ts[1] or ts[0] == "bool":
                return None
            return ("tup", ts[0]) if f == "divmod" else ts[0]
    return None


def resolved_row(form):
    """(type, dunder) whose implementation finally computes the form — used to classify findings"""
    k = form[0]
    if k == "bin":
        _k, op, t1, t2 = form
        w = t1 if RANK[t1] >= RANK[t2] else t2
        d = {"+": "__add__", "-": "__sub__", "*": "__mul__", "/": "__truediv__", "//": "__floordiv__", "%": "__mod__", "**": "__pow__",
             "<<": "__lshift__", ">>": "__rshift__", "&": "__and__", "|": "__or__", "^": "__xor__", "==": "__eq__", "!=": "__ne__",
             "<": "__lt__", "<=": "__le__", ">": "__gt__", ">=": "__ge__"}[op]
        return (w, d)
    if k == "call" and form[1] in ("divmod", "pow", "abs"):
        return (form[2], f"__{form[1]}__")
    return (form[-1], "?")


def form_src(form):
    """one-operator probe"""
    k = form[0]
    rt = result_type(form)
    R = f"tuple[{rt[1]}, {rt[1]}]" if isinstance(rt, tuple) else rt
    if k == "bin":
        _k, op, t1, t2 = form
        return f"@guppy\ndef f(a: {t1}, b: {t2}) -> {R}:\n    return a {op} b\n"
    if k == "un":
        return f"@guppy\ndef f(a: {form[2]}) -> {R}:\n    return {form[1]}a\n"
    if k == "not":
        return f"@guppy\ndef f(a: {form[1]}) -> bool:\n    return not a\n"
    if k == "call":
        ts = form[2:]
        if len(ts) == 1:
            return f"@guppy\ndef f(a: {ts[0]}) -> {R}:\n    return {form[1]}(a)\n"
        return f"@guppy\ndef f(a: {ts[0]}, b: {ts[1]}) -> {R}:\n    return {form[1]}(a, b)\n"
    raise AssertionError(form)


def form_req(form, us):
    """driver request for the model evaluation; `us` = driver operand tokens per operand"""
    k = form[0]
    if k == "bin":
        return f"bin {form[1]} {form[2]} {us[0]} {form[3]} {us[1]}"
    if k == "un":
        return f"un {form[1]} {form[2]} {us[0]}"
    if k == "not":
        return f"not {form[1]} {us[0]}"
    if k == "call":
        ts = form[2:]
        return f"call {form[1]} " + " ".join(f"{t} {u}" for t, u in zip(ts, us))
    raise AssertionError(form)


def oracle(form, vals):
    """Python's result for the operand *values*, wrapped as the statement says.  Raises Undefined outside the guard."""
    k = form[0]
    rt = result_type(form)

    def wrap(t, x):
        if t == "int":
            return ("int", wrapS(x))
        if t == "nat":
            return ("nat", wrapU(x))
        if t == "bool":
            return ("bool", bool(x))
        if t == "float":
            return ("float", float(x))
        raise AssertionError(t)
    try:
        if k == "bin":
            _k, op, t1, t2 = form
            a, b = vals
            # coerced forms: a nat used as int keeps its value only below 2^63 (C16's guard); ring ops are insensitive
            if {t1, t2} == {"nat", "int"} and op not in ("+", "-", "*", "&", "|", "^"):
                for t, v in ((t1, a), (t2, b)):
                    if t == "nat" and v >= P63:
                        raise Undefined
            if op in ("//", "%") and b == 0:
                raise Undefined
            if op == "/" and b == 0:
                raise Undefined
            if op in ("<<", ">>") and not (0 <= b < 64):
                raise Undefined
            if op == "**":
                if rt != "float" and b < 0:
                    raise Undefined
                if rt != "float" and b > 70:
                    raise Undefined
            if rt == "float" and op != "/" and "float" not in (t1, t2):
                raise AssertionError
            r = {"+": lambda: a + b, "-": lambda: a - b, "*": lambda: a * b, "/": lambda: a / b, "//": lambda: a // b,
                 "%": lambda: a % b, "**": lambda: a ** b, "<<": lambda: a << b, ">>": lambda: a >> b, "&": lambda: a & b,
                 "|": lambda: a | b, "^": lambda: a ^ b, "==": lambda: a == b, "!=": lambda: a != b, "<": lambda: a < b,
                 "<=": lambda: a <= b, ">": lambda: a > b, ">=": lambda: a >= b}[op]()
            if isinstance(r, complex):
                raise Undefined
            return wrap(rt, r)
        if k == "un":
            a = vals[0]
            return wrap(rt, {"-": -a, "+": +a, "~": (~a if not isinstance(a, float) else 0)}[form[1]])
        if k == "not":
            return ("bool", not vals[0])
        if k == "call":
            f = form[1]
            a = vals[0]
            if f == "abs":
                return wrap(rt, abs(a))
            if f == "bool":
                return ("bool", bool(a))
            if f == "int":
                if form[2] == "nat" and a >= P63:
                    raise Undefined
                return wrap("int", int(a))
            if f == "nat":
                if a < 0:
                    raise Undefined
                return wrap("nat", int(a))
            if f == "float":
                return ("float", float(a))
            b = vals[1]
            if f == "divmod":
                if b == 0:
                    raise Undefined
                q, r = divmod(a, b)
                return ("tup", wrap(rt[1], q), wrap(rt[1], r))
            if f == "pow":
                if rt != "float" and (b < 0 or b > 70):
                    raise Undefined
                r = pow(a, b)
                if isinstance(r, complex):
                    raise Undefined
                return wrap(rt, r)
    except (OverflowError, ZeroDivisionError) as e:
        raise Undefined from e
    raise AssertionError(form)


# =====================================================================================================
# T-obj: what the real compiler emits
# =====================================================================================================
KEEP = ("arithmetic.", "tket.bool.", "logic.")
IGNORE = {"tket.bool.make_opaque", "tket.bool.read", "arithmetic.conversions.itousize", "arithmetic.conversions.ifromusize"}


def lower_probe(src):
    """-> ('ok', {funcname: [(opname, [input sources])…]}) | (class, detail).  Input sources of an op's ports: 'a'/'b' for the
    probe function's parameters, '#k' for the k-th kept op of the same function, '?' otherwise."""
    import feed
    import hugr.ops as ops
    try:
        m = feed.load(src)
    except BaseException as e:  # noqa: BLE001
        return ("load-crash", type(e).__name__ + ":" + str(e)[:100])
    try:
        kind, exc = feed.check_outcome(m.f)
        if kind != "ok":
            return ("rejected" if kind == "user" else "crash", feed.err_class(exc) if kind == "user" else type(exc).__name__)
        try:
            g = feed.lower(m.f)
        except BaseException as e:  # noqa: BLE001
            return ("lower-crash", type(e).__name__ + ":" + str(e)[:100])
        h = g.hugr
        out = {}
        for n in h:
            op = h[n].op
            if not isinstance(op, ops.FuncDefn):
                continue
            kept = []
            idx = {}
            inputs = {}
            for c in h.descendants(n):
                cop = h[c].op
                if isinstance(cop, ops.Input) and h[c].parent is not None and isinstance(h[h[c].parent].op, ops.DataflowBlock):
                    inputs[c] = "blockin"
                nm = feed.op_name(cop)
                if nm.startswith(KEEP) and nm not in IGNORE:
                    idx[c] = len(kept)
                    kept.append((nm, c))
            res = []
            for nm, c in kept:
                srcs = []
                try:
                    nin = len(h[c].op.outer_signature().input)
                except BaseException:  # noqa: BLE001
                    nin = 2
                for p in range(nin):
                    try:
                        links = h.linked_ports(c.inp(p))
                    except BaseException:  # noqa: BLE001
                        links = []
                    s = "?"
                    for lp in links:
                        s = _trace(h, lp, idx)
                    srcs.append(s)
                res.append((nm, srcs))
            out[op.f_name] = res
        return ("ok", out)
    finally:
        feed.unload(m)


def _trace(h, port, idx, depth=0):
    """follow a wire backwards through no-op plumbing to a kept op ('#k'), or a function parameter ('p<i>')"""
    import hugr.ops as ops
    node = port.node
    op = h[node].op
    if node in idx:
        return f"#{idx[node]}"
    if isinstance(op, ops.Input):
        par = h[node].parent
        pop = h[par].op
        if isinstance(pop, ops.FuncDefn):
            return f"p{port.offset}"
        if isinstance(pop, ops.DataflowBlock) and depth < 8:
            # entry block of the CFG: its inputs are the CFG node's inputs, in order
            cfg = h[par].parent
            try:
                links = h.linked_ports(cfg.inp(port.offset))
                for lp in links:
                    return _trace(h, lp, idx, depth + 1)
            except BaseException:  # noqa: BLE001
                return "?"
        return "?"
    return "?"


# =====================================================================================================
# additional oracle: the reference HUGR interpreter (harness/hugr_interp.py, notes/INTERP.md)
# =====================================================================================================
def interp_handle(src):
    """a second lowering of the probe, kept alive for the interpreter: -> (module, hugr) | None"""
    import feed
    try:
        m = feed.load(src)
    except BaseException:  # noqa: BLE001
        return None
    try:
        return (m, feed.lower(m.f).hugr)
    except BaseException:  # noqa: BLE001
        feed.unload(m)
        return None


def interp_value(hi, hugr, form, vals, order):
    """what the lowered probe computes on `vals` according to the interpreter, in the canonical value form of this check:
    ('int', v) | ('nat', v) | ('bool', b) | ('float', x) | ('tup', a, b) | 'panic' | ('unsupported', op) | ('stuck', why)"""
    rt = result_type(form)
    try:
        r = hi.run(hugr, "f", list(vals), order=order, fuel=200_000)
    except hi.Unsupported as e:
        return ("unsupported", e.name)
    except (hi.OutOfFuel, hi.InterpError) as e:
        return ("stuck", f"{type(e).__name__}: {e}")
    if r.status != "value":
        return "panic"

    def cv(t, v):
        if t == "int":
            return ("int", val_of("int", v))
        if t == "nat":
            return ("nat", v)
        if t == "float":
            return ("float", v)
        if t == "bool":
            return ("bool", v.v if isinstance(v, hi.OBool) else v.tag == 1)
        raise AssertionError(t)
    try:
        if isinstance(rt, tuple):
            return ("tup", cv(rt[1], r.raw[0]), cv(rt[1], r.raw[1]))
        return cv(rt, r.raw[0])
    except (AttributeError, IndexError, TypeError) as e:
        return ("stuck", f"unexpected result shape {r.raw!r}: {e}")


def arith_ops(funcs, fname="f"):
    return [nm for nm, _s in funcs.get(fname, [])]


# ---- expectation from the table (Python-side reading of the Gen'd rows; cross-checks the translator against the compiler)
def direct_ops(row):
    k = row["impl"]["kind"]
    if k in ("hugr", "boolop", "unwrapop"):
        return [f"{row['impl']['ext']}.{row['impl']['op']}"]
    return []


class Table:
    def __init__(self):
        import numtable as nt
        self.rows = {(r["type"], r["name"]): r for r in nt.rows()}
        self.binary, self.unary = nt.operator_tables()

    def coercible(self, a, t):
        return a == t or (a, t) in (("nat", "int"), ("nat", "float"), ("int", "float"))

    def conv(self, a, t):
        return {("nat", "float"): ["arithmetic.conversions.convert_u"], ("int", "float"): ["arithmetic.conversions.convert_s"]}.get((a, t), [])

    def accepts(self, row, argtys):
        if row["impl"]["kind"] == "reversed":
            tgt = self.rows.get((argtys[0], row["impl"]["target"]))
            return tgt is not None and self.accepts(tgt, [argtys[1], argtys[0]])
        ps = row["params"]
        return len(ps) == len(argtys) and all(self.coercible(a, p) for a, p in zip(argtys, ps))

    def call_ops(self, row, argtys):
        """ops emitted in the *calling* function for `row(args)`, and the result type"""
        if row["impl"]["kind"] == "reversed":
            tgt = self.rows[(argtys[0], row["impl"]["target"])]
            return self.call_ops(tgt, [argtys[1], argtys[0]])
        if row["impl"]["kind"] == "dunder":
            tgt = self.rows.get((argtys[0], row["impl"]["name"]))
            if tgt is None:
                return None
            return self.call_ops(tgt, argtys)
        convs = []
        for a, p in zip(argtys, row["params"]):
            convs += self.conv(a, p)
        return (convs + direct_ops(row), row["ret"])

    def binop(self, op, t1, t2):
        lop, rop = self.binary[op]
        r = self.rows.get((t1, lop))
        if r is not None and self.accepts(r, [t1, t2]):
            return self.call_ops(r, [t1, t2])
        r = self.rows.get((t2, rop))
        if r is not None and self.accepts(r, [t2, t1]):
            return self.call_ops(r, [t2, t1])
        return None

    def body_ops(self, row):
        """ops emitted inside the FuncDefn of a @guppy dunder body"""
        env = dict(zip(row["pnames"], row["params"]))
        ops = []

        def ex(e):
            k = e[0]
            if k == "var":
                return env[e[1]]
            if k == "int":
                return "int"
            if k == "flt":
                return "float"
            if k == "bool":
                return "bool"
            if k == "str":
                return "str"
            if k == "bin":
                tl, tr = ex(e[2]), ex(e[3])
                r = self.binop(e[1], tl, tr)
                if r is None:
                    raise KeyError(f"binop {e[1]} {tl} {tr}")
                ops.extend(r[0])
                return r[1]
            if k == "not":
                t = ex(e[1])
                self_bool(t)
                ops.append("tket.bool.not")
                return "bool"
            if k == "call":
                if e[1] == "panic":
                    return "none"
                t = ex(e[2][0])
                r = self.call_ops(self.rows[(e[1], "__new__")], [t])
                ops.extend(r[0])
                return r[1]
            if k == "meth":
                tr_ = ex(e[1])
                ats = [ex(a) for a in e[3]]
                r = self.call_ops(self.rows[(tr_, e[2])], [tr_] + ats)
                ops.extend(r[0])
                return r[1]
            if k == "ite":
                self_bool(ex(e[1]))
                ta = ex(e[2])
                ex(e[3])
                return ta
            if k == "tup":
                return "tuple[" + ", ".join(ex(x) for x in e[1]) + "]"
            raise KeyError(k)

        def self_bool(t):
            if t != "bool":
                r = self.call_ops(self.rows[(t, "__bool__")], [t])
                ops.extend(r[0])

        def st(s):
            if s[0] == "ret":
                ex(s[1])
            elif s[0] == "expr":
                ex(s[1])
            elif s[0] == "if":
                self_bool(ex(s[1]))
                for x in s[2]:
                    st(x)
            else:
                raise KeyError(s[0])
        for s in row["impl"]["stmts"]:
            st(s)
        return ops


# =====================================================================================================
# grids
# =====================================================================================================
def grids(ctx):
    if ctx.quick:
        gi = [0, 1, -1, 2, -3, 7, 63, 64, P53 + 1, -(1 << 62), P63 - 1, -P63]
        gn = [0, 1, 2, 7, 63, 64, P53 + 1, P63 - 1, P63, P64 - 1]
        gf = [0.0, 1.0, -1.0, 0.1, -0.3, 1.5, 7.0, -7.5, 1e10, float(P53), 1e308]
    else:
        gi = [0, 1, -1, 2, -2, 3, -3, 7, -7, 10, 63, 64, 65, -64, 1 << 31, -(1 << 31), (1 << 32) + 1, P53, P53 + 1, -(P53 + 1),
              1 << 62, -(1 << 62), P63 - 1, P63 - 2, -P63, -P63 + 1]
        gn = [0, 1, 2, 3, 7, 10, 63, 64, 65, 1 << 31, (1 << 32) + 1, P53 + 1, 1 << 62, P63 - 1, P63, P63 + 1, P64 - 2, P64 - 1]
        gf = [0.0, 1.0, -1.0, 0.1, -0.1, 0.3, -0.3, 0.5, 1.5, -1.5, 2.0, 3.0, 7.0, -7.5, 1e-3, 1e10, -1e10, float(P53), float(P53) + 2.0,
              1e308, -1e308, 5e-324, 0.7, 10.0]
    # a few random operands on top (seeded)
    rng = ctx.rng
    for _ in range(ctx.n(2, 6)):
        gi.append(rng.randrange(-P63, P63))
        gn.append(rng.randrange(0, P64))
        gf.append(rng.choice([-1, 1]) * rng.random() * 10 ** rng.randrange(-3, 12))
    return {"int": gi, "nat": gn, "float": gf, "bool": [False, True]}


def operands(form, G):
    """operand tuples for a form (second operand restricted where the guard / cost requires)"""
    k = form[0]
    ts = [form[2], form[3]] if k == "bin" else ([form[2]] if k == "un" else ([form[1]] if k == "not" else list(form[2:])))
    if len(ts) == 1:
        return [(a,) for a in G[ts[0]]]
    op = form[1]
    A, B = G[ts[0]], G[ts[1]]
    if op in ("<<", ">>"):
        B = [b for b in (0, 1, 2, 5, 31, 32, 33, 62, 63) ]
    if op in ("**", "pow") and ts[1] != "float":
        B = [0, 1, 2, 3, 5, 10, 63, 64, 65] + ([-1, -2] if ts[1] == "int" else [])
    return [(a, b) for a in A for b in B]


def all_forms():
    forms = []
    for op in BINOPS:
        for t1 in NUMT:
            for t2 in NUMT:
                if result_type(("bin", op, t1, t2)) is not None:
                    forms.append(("bin", op, t1, t2))
    for op in ("-", "+", "~"):
        for t in ("nat", "int", "float"):
            if result_type(("un", op, t)) is not None:
                forms.append(("un", op, t))
    for t in NUMT:
        forms.append(("not", t))
    for f in ("int", "nat", "float", "bool", "abs"):
        for t in NUMT:
            if result_type(("call", f, t)) is not None:
                forms.append(("call", f, t))
    for f in ("divmod", "pow"):
        for t in ("nat", "int", "float"):
            forms.append(("call", f, t, t))
    return forms


# =====================================================================================================
# findings classification
# =====================================================================================================
def classify(form, vals, real, orc, emitted=None):
    """known-finding class key for a (form, operands) whose value differs from Python's, or None.  The D11 classes are tied to
    their mechanism: the op the REAL compiler emitted for the probe (`emitted`) must be the one the finding is about — an
    `int` division that goes through anything but idiv_s/imod_s/idivmod_s is not D11."""
    ty, dn = resolved_row(form)
    k = form[0]
    em = emitted if emitted is not None else set()
    d11_op = {"__floordiv__": "arithmetic.int.idiv_s", "__mod__": "arithmetic.int.imod_s", "__divmod__": "arithmetic.int.idivmod_s"}
    # ... and to the VALUE the documented defect predicts (the counter-semantics of the `_partial` theorems): a different wrong
    # result for the same operands is a second defect and stays a VIOLATION keyed by the input
    if ty == "int" and dn in d11_op and vals[1] < 0 and (emitted is None or d11_op[dn] in em):
        a_s, m = wrapS(int(vals[0])), int(vals[1]) % P64          # dividend read signed, divisor read UNSIGNED
        q, r = a_s // m, a_s % m
        exp = {"__floordiv__": ("int", wrapS(q)), "__mod__": ("int", wrapS(r)),
               "__divmod__": ("tup", ("int", wrapS(q)), ("int", wrapS(r)))}[dn]
        if same(real, exp):
            return f"op:int.{dn}:negative-divisor"
        return None
    if ty == "int" and dn == "__rshift__" and vals[0] < 0 and (emitted is None or "arithmetic.int.ishr" in em):
        if 0 <= vals[1] < 64 and same(real, ("int", wrapS((int(vals[0]) % P64) >> int(vals[1])))):   # LOGICAL shift of the 64-bit pattern
            return "op:int.__rshift__:negative-left-operand"
        return None
    if ty == "float" and dn in ("__floordiv__", "__mod__", "__divmod__"):
        a, b = float(vals[0]), float(vals[1])
        try:
            q = a / b
            # IEEE floor: the quotient may have been rounded all the way to +-inf (1e308 % 0.1), floor(inf) = inf and the
            # remainder a - inf * b = -+inf — the same mechanism, only seen by the interpreter oracle (the float model is
            # undefined there)
            fl = q if (math.isinf(q) or math.isnan(q)) else float(math.floor(q))
            exp = {"__floordiv__": ("float", fl), "__mod__": ("float", a - fl * b),
                   "__divmod__": ("tup", ("float", fl), ("float", a - fl * b))}[dn]
        except (OverflowError, ZeroDivisionError, ValueError):
            return None
        if same(real, exp):
            return f"op:float.{dn}:floor-of-rounded-quotient"
    if k == "bin" and form[1] == "/" and form[2] in ("int", "nat") and form[3] in ("int", "nat"):
        a, b = vals
        try:
            if max(abs(a), abs(b)) > P53 and same(real, ("float", float(a) / float(b))):
                return f"op:{ty}.__truediv__:operands-rounded-first"
        except (OverflowError, ZeroDivisionError):
            return None
    if k == "bin" and form[1] in CMPS and "float" in (form[2], form[3]) and (form[2] in ("int", "nat") or form[3] in ("int", "nat")):
        iv = vals[0] if form[2] != "float" else vals[1]
        if abs(iv) > P53:
            import operator as _o
            f = {"==": _o.eq, "!=": _o.ne, "<": _o.lt, "<=": _o.le, ">": _o.gt, ">=": _o.ge}[form[1]]
            try:
                exp = ("bool", f(float(vals[0]), float(vals[1])))       # the integer operand rounded to double FIRST
            except OverflowError:
                return None
            if same(real, exp):
                return "op:mixed-int-float-compare:integer-rounded-first"
    return None


# =====================================================================================================
# the tie
# =====================================================================================================
def _nontrivial(vals):
    for v in vals:
        if isinstance(v, bool):
            continue
        if isinstance(v, float):
            if v in (0.0, 1.0, -1.0) or abs(v) >= 2.0 ** 53 or v != round(v, 1) or abs(v) < 1:
                return True
            continue
        if abs(v) <= 1 or abs(abs(v) - P63) <= 2 or abs(v - P64) <= 2:
            return True
    if len(vals) == 2 and not isinstance(vals[0], bool) and not isinstance(vals[1], bool) and (vals[0] < 0) != (vals[1] < 0):
        return True
    return False


def _tok(t, v, fin):
    """driver token for an operand; floats are passed symbolically (index into `fin`)"""
    if t == "float":
        fin.append(float(v))
        return str(len(fin) - 1)
    if t == "bool":
        return "1" if v else "0"
    return str(bits(t, v))


def _fkey(form):
    return " ".join(str(x) for x in form)


def _probe_violation(ctx, what_key, what, src, detail):
    """Decision rule.  A disagreement between the regenerated TABLE and the REAL lowering of a probe only means that the
    translator/table no longer describes the code: `ctx.broke` (the value grid then searches for a failing input through the op the
    real compiler actually emitted).  A concrete VIOLATION is reported only when (a) the real lowered probe, evaluated, differs
    from Python under the statement's guard (value grid), or (b) — here — the real check()/lowering crashes on or rejects an
    operator form / dunder the statement covers: the probe program is then the failing input."""
    ctx.violation("probe:" + what_key, what, {"probe_source": src, "detail": detail})


def tie(ctx):
    T = Table()
    G = grids(ctx)
    forms = all_forms()
    # ---------------------------------------------------------------- (1a) every table row, lowered through a method-call probe
    row_mismatch = 0
    for (ty, name), row in sorted(T.rows.items()):
        if ty not in NUMT or row["impl"]["kind"] in ("dunder", "unknown", "checker", "compiler"):
            continue
        params = row["params"]
        if any(p not in NUMT for p in params) or len(params) not in (1, 2):
            continue
        ret = row["ret"]
        args = ", ".join(f"{n}: {p}" for n, p in zip("ab", params))
        call = f"a.{name}(b)" if len(params) == 2 else f"a.{name}()"
        if name.startswith("__") and not name.endswith("__"):
            continue  # name-mangled private helper (int.__pow_impl): reached through __pow__ below
        src = f"@guppy\ndef f({args}) -> {ret}:\n    return {call}\n"
        st, funcs = lower_probe(src)
        case = {"row": f"{ty}.{name}", "impl": _impl_str(row)}
        ctx.count(case, nontrivial=row["impl"]["kind"] in ("hugr", "boolop", "reversed", "body"), kind=f"row:{row['impl']['kind']}:{st}")
        if row["impl"]["kind"] == "unsupported":
            continue
        if st != "ok":
            ctx.broke(f"T-obj: probe for table row {ty}.{name} does not compile: {st} {funcs}")
            _probe_violation(ctx, f"row {ty}.{name} {' '.join(params)}",
                             f"`{call}` with operand types ({', '.join(params)}) is a table row ({_impl_str(row)}) but the real compiler "
                             f"fails on it: {st} {funcs}", src, {"status": st, "info": str(funcs)})
            row_mismatch += 1
            continue
        kind = row["impl"]["kind"]
        got = funcs.get("f", [])
        if kind == "body":
            want_f = []
            callee = [v for k, v in funcs.items() if k == name]
            try:
                want_body = sorted(T.body_ops(row))
            except KeyError as e:
                ctx.broke(f"T-src: body of {ty}.{name} is outside the modelled expression language ({e})")
                continue
            got_body = sorted(nm for nm, _s in callee[0]) if callee else None
            if got_body != want_body:
                ctx.broke(f"T-obj: body row {ty}.{name}: compiled FuncDefn has ops {got_body}, table/body AST predicts {want_body}")
                row_mismatch += 1
        else:
            want = T.call_ops(row, params)[0]
            if [nm for nm, _s in got] != want:
                ctx.broke(f"T-obj: row {ty}.{name}: real compiler emits {[nm for nm, _s in got]}, table says {want}")
                row_mismatch += 1
                continue
            # operand wiring: a reflected dunder must feed (other, self)
            if kind in ("hugr", "boolop", "reversed") and len(params) == 2 and got:
                wiring = got[-1][1]
                exp_w = ["p1", "p0"] if kind == "reversed" else ["p0", "p1"]
                if "?" not in wiring and wiring != exp_w:
                    ctx.broke(f"T-obj: row {ty}.{name}: operand wiring {wiring}, expected {exp_w}")
                    row_mismatch += 1
    ctx.extra["row_probe_mismatches"] = row_mismatch

    # ---------------------------------------------------------------- (1b) + (2) operator forms: lowering, then values
    extra = {}
    corpus = os.path.join(vlib.VERIF, "corpus", "c04")
    cases = []
    if os.path.isdir(corpus):
        for fn in sorted(os.listdir(corpus)):
            cases.extend(json.load(open(os.path.join(corpus, fn))))
    if ctx.replay_in and "form" in ctx.replay_in.get("replay", {}):
        rp = ctx.replay_in["replay"]
        cases.append({"form": rp["form"], "operands": [eval(x, {"__builtins__": {}}, {"inf": float("inf"), "nan": float("nan")}) for x in rp["operands"]]})
    for c in cases:
        extra.setdefault(tuple(c["form"]), []).append(tuple(c["operands"]))
    reqs, meta = [], []
    real_reqs = []
    import hugr_interp as hi
    handles, n_seen = [], 0
    for form in forms:
        src = form_src(form)
        st, funcs = lower_probe(src)
        fk = _fkey(form)
        # expectation for the probe function from the table
        try:
            if form[0] == "bin":
                exp = T.binop(form[1], form[2], form[3])
            elif form[0] == "un":
                exp = T.call_ops(T.rows[(form[2], T.unary[form[1]])], [form[2]])
            elif form[0] == "not":
                exp = (([] if form[1] == "bool" else T.call_ops(T.rows[(form[1], "__bool__")], [form[1]])[0]) + ["tket.bool.not"], "bool")
            else:
                f = form[1]
                r0 = T.rows[(f, "__new__")] if f in NUMT else T.rows[("<builtin>", f)]
                exp = T.call_ops(r0, list(form[2:]))
        except KeyError as e:
            exp = None
            ctx.broke(f"T-src: no table row for form `{fk}` ({e})")
        if st != "ok":
            ctx.broke(f"T-obj: operator form `{fk}` is not accepted/compiled by the real compiler: {st} {funcs}")
            ctx.count({"form": fk}, nontrivial=True, kind=f"form:{st}")
            _probe_violation(ctx, f"form {fk}", f"`{fk}` is an operator form the statement covers (accepted and lowered by the unchanged tree) but the "
                             f"real check()/lowering fails: {st} {funcs}", src, {"status": st, "info": str(funcs), "table_ops": exp[0] if exp else None})
            continue
        fops = funcs.get("f", [])
        emitted = {nm for fl in funcs.values() for nm, _s in fl}
        ctx.count({"form": fk, "ops": [nm for nm, _s in fops]}, nontrivial=True, kind="form:ok")
        if exp is None:
            ctx.broke(f"T-obj: form `{fk}` is accepted by the real compiler (ops {[nm for nm, _s in fops]}) but the table dispatch has no applicable row")
        if exp is not None and [nm for nm, _s in fops] != exp[0]:
            ctx.broke(f"T-obj: form `{fk}`: real compiler emits {[nm for nm, _s in fops]}, table dispatch predicts {exp[0]}")
        # interpreter oracle: the whole lowered probe (every FuncDefn it calls, control flow included) is interpreted
        ih = interp_handle(src)
        if ih is not None:
            handles.append(ih[0])
        # independent REAL value path: exactly one integer op in the probe function, operands wired from the parameters
        single = None
        ints = [(nm, s) for nm, s in fops if nm.startswith("arithmetic.int.")]
        if len(fops) == 1 and len(ints) == 1 and all(x in ("p0", "p1") for x in ints[0][1]) and "float" not in form:
            single = (ints[0][0].split(".")[-1], [int(x[1]) for x in ints[0][1]])
        for vals in extra.get(form, []) + operands(form, G):
            fin = []
            ts = [form[2], form[3]] if form[0] == "bin" else ([form[2]] if form[0] == "un" else ([form[1]] if form[0] == "not" else list(form[2:])))
            us = [_tok(t, v, fin) for t, v in zip(ts, vals)]
            reqs.append(form_req(form, us))
            rr = None
            if single is not None:
                rr = "op " + single[0] + " " + " ".join(us[i] for i in single[1])
            real_reqs.append(rr)
            ires = None
            if ih is not None:
                ires = interp_value(hi, ih[1], form, vals, "default")
                n_seen += 1
                if not ctx.quick or n_seen % 4 == 0:
                    adv = interp_value(hi, ih[1], form, vals, "adversarial")
                    if adv != ires and not same(adv, ires):
                        ctx.violation(f"order:{fk} {' '.join(repr(v) for v in vals)}",
                                      f"`{fk}` on operands {vals}: the lowered probe computes {ires} under the default schedule and "
                                      f"{adv} under the adversarial one (a side effect is missing an order edge)",
                                      {"form": list(form), "operands": [repr(v) for v in vals], "default": repr(ires),
                                       "adversarial": repr(adv), "source": src})
            meta.append((form, vals, fin, ires, emitted))
    # ---------------------------------------------------------------- (1c) operand-type pairs OUTSIDE the list above
    # Which pairs the compiler accepts is itself data: every (operator, left type, right type) over nat/int/float/bool that the
    # static list does not contain is lowered too (trying each result type).  On the unchanged tree all of them are rejected.  A
    # pair that is accepted now is covered by the statement ("every operand type combination Guppy accepts"): its lowered probe is
    # interpreted on the grid and compared with Python's result for the same operand values (bool operands count as 0/1 as in
    # Python); a difference is a concrete violation, agreement is reported as evidence only.
    listed = {f for f in forms if f[0] == "bin"}
    newly = []
    for op in BINOPS:
        for t1 in NUMT:
            for t2 in NUMT:
                form = ("bin", op, t1, t2)
                if form in listed:
                    continue
                for rt_try in ("bool",) if op in CMPS else ("nat", "int", "float", "bool"):
                    src = f"@guppy\ndef f(a: {t1}, b: {t2}) -> {rt_try}:\n    return a {op} b\n"
                    st0, info0 = lower_probe(src)
                    if st0 == "rejected" and info0 == "BinaryOperatorNotDefinedError":
                        break          # no dunder applies to this operand pair: the result type is irrelevant
                    if st0 != "ok":
                        continue
                    ih = interp_handle(src)
                    if ih is None:
                        continue
                    handles.append(ih[0])
                    newly.append((form, rt_try))
                    fk = _fkey(form) + " -> " + rt_try
                    ctx.count({"form": fk}, nontrivial=True, kind="form:newly-accepted")
                    A = G[t1] if op not in () else G[t1]
                    B = [0, 1, 2, 5, 31, 63] if op in ("<<", ">>") else ([0, 1, 2, 3, 5, 10] if op == "**" and t2 != "float" else G[t2])
                    bad = 0
                    for a in A:
                        for b in B:
                            try:
                                r = hi.run(ih[1], "f", [a, b], ret_shape=rt_try, fuel=200_000)
                            except (hi.Unsupported, hi.OutOfFuel, hi.InterpError):
                                continue
                            try:
                                if op in ("//", "%", "/") and b == 0:
                                    continue
                                pa, pb = (int(a) if isinstance(a, bool) else a), (int(b) if isinstance(b, bool) else b)
                                py = eval(f"pa {op} pb", {"pa": pa, "pb": pb})
                                if isinstance(py, complex):
                                    continue
                                want = (bool(py) if rt_try == "bool" else float(py) if rt_try == "float" else
                                        wrapS(int(py)) if rt_try == "int" else wrapU(int(py)))
                                if rt_try in ("int", "nat") and isinstance(py, float) and py != int(py):
                                    continue
                            except (OverflowError, ZeroDivisionError, ValueError, TypeError):
                                continue
                            got = r.value if r.status == "value" else "panic"
                            if got != want and not (isinstance(got, float) and isinstance(want, float) and math.isnan(got) and math.isnan(want)):
                                bad += 1
                                if bad <= 3:
                                    ctx.violation(f"input:{fk} {a!r} {b!r}",
                                                  f"`a {op} b` with a: {t1}, b: {t2} (result {rt_try}) is accepted by the compiler (the unchanged tree "
                                                  f"rejects this operand pair); on ({a}, {b}) the lowered program computes {got}, Python gives {want}",
                                                  {"source": src, "operands": [repr(a), repr(b)], "real": repr(got), "oracle": repr(want)})
                    break
    # ---------------------------------------------------------------- (1d) the comptime front end: `C op x` / `x op C`
    # In a `@guppy.comptime` function Python itself dispatches the operator: with a plain Python number on one side the traced
    # Guppy value's (reflected) dunder of `DunderMixin` is called.  Each accepted probe is interpreted on the grid and compared
    # with Python on the same operands (same oracle, guards and known-finding classes as the ordinary forms).
    n_ct, n_ct_vals = 0, 0
    consts = {"int": ([23, -7] if ctx.quick else [23, -7, 2, -1, 1 << 40]), "float": ([7.5] if ctx.quick else [7.5, -0.3])}
    for op in BINOPS:
        for T_ in ("int", "nat", "float"):
            for ck in ("int", "float"):
                if ck == "float" and T_ != "float":
                    continue
                for side in ("left", "right"):
                    form = ("bin", op, ck, T_) if side == "left" else ("bin", op, T_, ck)
                    rt = result_type(form)
                    if rt is None:
                        continue
                    for C in consts[ck]:
                        expr = f"({C!r}) {op} a" if side == "left" else f"a {op} ({C!r})"
                        src = f"@guppy.comptime\ndef f(a: {T_}) -> {rt}:\n    return {expr}\n"
                        st0, funcs0 = lower_probe(src)
                        n_ct += 1
                        ctx.count({"comptime": expr, "type": T_}, nontrivial=True, kind=f"comptime-form:{st0}")
                        if st0 != "ok":
                            continue      # which constants the comptime front end types at which kind is C21's subject
                        ih = interp_handle(src)
                        if ih is None:
                            continue
                        handles.append(ih[0])
                        emitted = {nm for fl in funcs0.values() for nm, _s in fl}
                        xs = G[T_]
                        if op in ("<<", ">>") and side == "left":
                            xs = [0, 1, 2, 5, 31, 62, 63]
                        if op == "**" and side == "left" and T_ != "float":
                            xs = [0, 1, 2, 3, 5, 10]
                        if (op in ("<<", ">>") and side == "right" and not (0 <= C < 64)) or (op == "**" and side == "right" and ck == "int" and not (0 <= C <= 64)):
                            continue
                        bad = 0
                        for x in xs:
                            vals = (C, x) if side == "left" else (x, C)
                            try:
                                orc = oracle(form, vals)
                            except Undefined:
                                continue
                            try:
                                r = hi.run(ih[1], "f", [x], fuel=200_000)
                            except (hi.Unsupported, hi.OutOfFuel, hi.InterpError):
                                continue
                            n_ct_vals += 1
                            if r.status != "value":
                                got = "panic"
                            else:
                                raw = r.raw[0]
                                got = (("int", val_of("int", raw)) if rt == "int" else ("nat", raw) if rt == "nat" else ("float", raw) if rt == "float"
                                       else ("bool", raw.v if isinstance(raw, hi.OBool) else raw.tag == 1))
                            if not same(got, orc):
                                key = classify(form, vals, got, orc, emitted) or f"input:comptime `{expr}` a: {T_} = {x!r}"
                                bad += 1
                                if bad <= 3 or not key.startswith("input:"):
                                    ctx.violation(key, f"comptime function `return {expr}` with a: {T_} = {x}: the lowered program computes {got}, Python gives {orc}",
                                                  {"source": src, "operand": repr(x), "real": repr(got), "oracle": repr(orc)})
    ctx.extra["comptime_forms"] = {"probes": n_ct, "values_compared": n_ct_vals}
    ctx.extra["operand_pairs_outside_list_accepted"] = [f"{_fkey(f)} -> {r}" for f, r in newly]
    import feed
    for m in handles:
        feed.unload(m)
    lines = reqs + [r for r in real_reqs if r is not None]
    replies = ctx.driver(DRIVER, lines)
    model_rep = replies[:len(reqs)]
    it = iter(replies[len(reqs):])
    n_real = 0
    n_interp, interp_unsupported, n_interp_checked = 0, {}, 0
    for (form, vals, fin, ires, emitted), mrep, rr in zip(meta, model_rep, real_reqs):
        fk = _fkey(form)
        case = {"form": fk, "operands": [repr(v) for v in vals]}
        rt = result_type(form)
        try:
            model = parse_reply(mrep, fin)
        except Undefined:
            model = "undefined"
        # REAL
        if rr is not None:
            n_real += 1
            raw = next(it).split()
            if raw[0] == "w":
                real = (rt if rt in ("int", "nat") else "int", val_of(rt if rt in ("int", "nat") else "int", int(raw[1])))
            elif raw[0] == "b":
                real = ("bool", raw[1] == "1")
            elif raw[0] == "t":
                e = rt[1]
                real = ("tup", (e, val_of(e, int(raw[1]))), (e, val_of(e, int(raw[2]))))
            elif raw[0] == "panic":
                real = "panic"
            else:
                real = ("stuck", " ".join(raw))
            independent = True
        else:
            real, independent = model, False
        try:
            orc = oracle(form, vals)
        except Undefined:
            orc = None
        ctx.count(case, nontrivial=_nontrivial(vals), kind=f"val:{form[0]}:{'indep' if independent else 'model'}:{'guarded' if orc is None else 'checked'}")
        if independent and not same(real, model):
            ctx.broke(f"correspondence NumEval(Gen table) vs emitted op for `{fk}` on {vals}: real={real} model={model}")
        # ---- interpreter oracle (third, independent evaluation of the SAME lowered probe)
        if ires is not None:
            if isinstance(ires, tuple) and ires[0] == "unsupported":
                interp_unsupported[ires[1]] = interp_unsupported.get(ires[1], 0) + 1
            elif isinstance(ires, tuple) and ires[0] == "stuck":
                ctx.broke(f"hugr_interp cannot run the lowered probe of `{fk}` on {vals}: {ires[1]}")
            else:
                n_interp += 1
                model_usable = real != "undefined" and not (isinstance(real, tuple) and real and real[0] == "stuck")
                if model_usable and not same(ires, real):
                    ctx.broke(f"hugr_interp vs {'IntSem (emitted op)' if independent else 'NumEval (table)'} for `{fk}` on {vals}: "
                              f"interpreter={ires} model={real}")
                if orc is not None:
                    n_interp_checked += 1
                    if not same(ires, orc):
                        key = classify(form, vals, ires, orc, emitted) or f"input:{fk} {' '.join(repr(v) for v in vals)}"
                        ctx.violation(key, f"`{fk}` on operands {vals}: the lowered probe, run by the reference HUGR interpreter, computes "
                                      f"{ires}, Python gives {orc}",
                                      {"form": list(form), "operands": [repr(v) for v in vals], "real": repr(ires), "oracle": repr(orc),
                                       "model": repr(model), "source": form_src(form), "oracle_path": "hugr_interp"})
        if isinstance(model, tuple) and model and model[0] == "stuck":
            ctx.broke(f"model is stuck on accepted form `{fk}` {vals}: {model[1]}")
            continue
        if orc is None or real == "undefined":
            continue
        if not same(real, orc):
            key = classify(form, vals, real, orc, emitted) or f"input:{fk} {' '.join(repr(v) for v in vals)}"
            ctx.violation(key, f"`{fk}` on operands {vals}: compiled code computes {real}, Python gives {orc}",
                          {"form": list(form), "operands": [repr(v) for v in vals], "real": repr(real), "oracle": repr(orc),
                           "model": repr(model), "source": form_src(form), "independent_real_path": independent})
    ctx.extra["value_cases_with_independent_real_path"] = n_real
    ctx.extra["interpreter_oracle"] = {"cases_interpreted": n_interp, "compared_with_python_under_guard": n_interp_checked,
                                       "skipped_unsupported_ops": interp_unsupported}
    ctx.bump("interp-oracle-cases", n_interp)
    ctx.extra["unexplained_violation_keys"] = [v["key"] + " :: " + v["what"] for v in ctx.violations][:60]
    ctx.extra["forms"] = len(forms)
    if not ctx.quick and not getattr(ctx, "_emu_done", False):
        ctx._emu_done = True
        emulator_validation(ctx)


# =====================================================================================================
# thorough-tier extra: validate Model/IntSem.lean against the installed 1.0.4 emulator
# =====================================================================================================
EMU_OPS = [  # (guppy type, dunder, expression over a,b, HUGR op expected in the *installed* table, arity)
    ("int", "__add__", "a + b", "iadd", 2), ("int", "__sub__", "a - b", "isub", 2), ("int", "__mul__", "a * b", "imul", 2),
    ("int", "__and__", "a & b", "iand", 2), ("int", "__or__", "a | b", "ior", 2), ("int", "__xor__", "a ^ b", "ixor", 2),
    ("int", "__floordiv__", "a // b", "idiv_s", 2), ("int", "__mod__", "a % b", "imod_s", 2),
    ("int", "__lshift__", "a << b", "ishl", 2), ("int", "__rshift__", "a >> b", "ishr", 2),
    ("int", "__lt__", "a < b", "ilt_s", 2), ("int", "__le__", "a <= b", "ile_s", 2), ("int", "__gt__", "a > b", "igt_s", 2),
    ("int", "__ge__", "a >= b", "ige_s", 2), ("int", "__eq__", "a == b", "ieq", 2), ("int", "__ne__", "a != b", "ine", 2),
    ("int", "__neg__", "-a", "ineg", 1), ("int", "__invert__", "~a", "inot", 1), ("int", "__abs__", "abs(a)", "iabs", 1),
    ("nat", "__floordiv__", "a // b", "idiv_u", 2), ("nat", "__mod__", "a % b", "imod_u", 2),
    ("nat", "__sub__", "a - b", "isub", 2), ("nat", "__mul__", "a * b", "imul", 2), ("nat", "__rshift__", "a >> b", "ishr", 2),
    ("nat", "__lshift__", "a << b", "ishl", 2), ("nat", "__pow__", "a ** b", "ipow", 2),
    ("nat", "__lt__", "a < b", "ilt_u", 2), ("nat", "__le__", "a <= b", "ile_u", 2), ("nat", "__gt__", "a > b", "igt_u", 2),
    ("nat", "__ge__", "a >= b", "ige_u", 2), ("nat", "__invert__", "~a", "inot", 1),
]


def emulator_validation(ctx):
    """One Guppy 1.0.4 program (site-packages, separate process, no bootstrap shim) with one `result` per (op, operands);
    its emulated values are compared with Model/IntSem.lean evaluated by the driver.  Only ops whose dunder the *installed*
    num.py maps to the same HUGR op are used.  A disagreement means the assumed op semantics are wrong: infrastructure error."""
    import subprocess
    import numtable as nt
    sp = "/venv/lib/python3.12/site-packages/guppylang/std/"
    if not os.path.exists(sp + "num.py"):
        ctx.extra["emulator_validation"] = "skipped: installed guppylang not found"
        return
    inst = {(r["type"], r["name"]): r["impl"] for r in nt.rows((sp + "num.py", sp + "bool.py"))}
    gi = [0, 1, -1, 2, -3, 7, 63, -64, P53 + 1, -(1 << 62), P63 - 1, -P63]
    gn = [0, 1, 2, 7, 63, 64, P53 + 1, P63 - 1, P63, P64 - 1]
    funcs, calls, expect = [], [], []
    skipped = []
    for i, (ty, dn, expr, op, ar) in enumerate(EMU_OPS):
        im = inst.get((ty, dn))
        if not im or im.get("op") != op:
            skipped.append(f"{ty}.{dn}")
            continue
        G = gi if ty == "int" else gn
        cmp_ = op in ("ilt_s", "ile_s", "igt_s", "ige_s", "ieq", "ine", "ilt_u", "ile_u", "igt_u", "ige_u")
        ret = "bool" if cmp_ else ty
        args = f"a: {ty}, b: {ty}" if ar == 2 else f"a: {ty}"
        funcs.append(f"@guppy\ndef f{i}({args}) -> {ret}:\n    return {expr}\n")
        pairs = [(a, b) for a in G for b in G] if ar == 2 else [(a,) for a in G]
        for j, vs in enumerate(pairs):
            if ar == 2:
                b = vs[1]
                if op in ("idiv_s", "imod_s", "idiv_u", "imod_u") and b == 0:
                    continue
                if op in ("ishl", "ishr") and not (0 <= b < 64):
                    continue
                if op == "ipow" and b > 70:
                    continue
            tag = f"{i}:{j}"
            calls.append(f"    result(\"{tag}\", f{i}({', '.join(str(v) for v in vs)}))")
            expect.append((tag, op, ty, vs, ret))
    # conversions
    for k, (ty, G) in enumerate((("int", gi), ("nat", gn))):
        funcs.append(f"@guppy\ndef c{k}(a: {ty}) -> float:\n    return float(a)\n")
        for j, a in enumerate(G):
            tag = f"c{k}:{j}"
            calls.append(f"    result(\"{tag}\", c{k}({a}))")
            expect.append((tag, "convert_s" if ty == "int" else "convert_u", ty, (a,), "float"))
    prog = ("from guppylang import guppy\nfrom guppylang.std.builtins import nat, result\n\n" + "\n".join(funcs) +
            "\n@guppy\ndef main() -> None:\n" + "\n".join(calls) + "\n\n"
            "res = main.emulator(n_qubits=1).with_seed(1).run()\nimport json\n"
            "print('EMU-RESULTS ' + json.dumps([[k, v] for k, v in res.results[0].entries]))\n")
    path = os.path.join(vlib.OUT, "c04_emulator_prog.py")
    os.makedirs(vlib.OUT, exist_ok=True)
    open(path, "w").write(prog)
    env = {k: v for k, v in os.environ.items() if k not in ("PYTHONPATH", "VERIF_REPO")}
    try:
        p = subprocess.run(["/venv/bin/python", path], cwd=vlib.OUT, env=env, capture_output=True, text=True, timeout=900)
    except subprocess.TimeoutExpired:
        ctx.extra["emulator_validation"] = "skipped: emulator run timed out"
        return
    line = next((l for l in p.stdout.splitlines() if l.startswith("EMU-RESULTS ")), None)
    if line is None:
        ctx.extra["emulator_validation"] = "skipped: emulator run failed: " + (p.stderr or p.stdout)[-300:]
        return
    got = dict(json.loads(line[len("EMU-RESULTS "):]))
    reqs = []
    for tag, op, ty, vs, ret in expect:
        if ret != "float":
            reqs.append("op " + op + " " + " ".join(str(bits(ty, v)) for v in vs))
    reps = iter(ctx.driver(DRIVER, reqs))
    bad, deviations = [], []
    n = 0
    for tag, op, ty, vs, ret in expect:
        if tag not in got:
            bad.append(f"{op}{vs}: no result")
            continue
        g = got[tag]
        if ret == "float":
            want = float(vs[0])
            ok = float(g) == want
        else:
            r = next(reps).split()
            if r[0] == "w":
                # the emulator reports a signed 64-bit result for `int` and the unsigned value for `nat`; compare bit patterns
                ok = (int(g) % P64) == int(r[1])
                want = int(r[1])
            elif r[0] == "b":
                ok = bool(g) == (r[1] == "1")
                want = r[1]
            else:
                ok, want = False, " ".join(r)
        n += 1
        if not ok:
            if op == "imod_s" and vs[0] == -P63:
                # the 1.0.4 runtime's lowering of imod_s returns a remainder outside [0, m) for n = -2^63 (e.g. 8 for m = 7),
                # contradicting the op's own description ("0<=r<m"); IntSem follows the description.  Outside /repo.
                deviations.append(f"{op}{vs}: emulator {g}, description/IntSem {want}")
            else:
                bad.append(f"{op}{vs}: emulator {g}, IntSem {want}")
    ctx.extra["emulator_validation"] = {"ops": sorted({e[1] for e in expect}), "results_compared": n, "skipped_dunders": skipped,
                                        "mismatches": bad[:20], "known_runtime_deviations_from_description": deviations,
                                        "program": os.path.relpath(path, vlib.VERIF)}
    ctx.bump("emulator-validation-results", n)
    if bad:
        raise vlib.Infra("Model/IntSem.lean disagrees with the 1.0.4 emulator (assumed op semantics wrong): " + "; ".join(bad[:8]))


def _impl_str(row):
    import numtable as nt
    return nt.impl_str(row["impl"])


def search(ctx, why):
    """something broke and the quick grid found no failing input: evaluate the thorough grid"""
    if ctx.quick:
        ctx.quick = False
        try:
            tie(ctx)
        finally:
            ctx.quick = True


if __name__ == "__main__":
    vlib.main(sys.modules[__name__])
