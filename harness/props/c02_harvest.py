"""C02: harvest programs from /repo's own test-suite (run against /repo's sources, which the pinned suite never does).

* `error_programs()`  : every tests/error/*/*.py  - a module expected to be rejected
* `integration_seeds()`: every `def test_*` of tests/integration/**/test_*.py turned into a module: the file's top-level
  statements (imports, helpers, module-level definitions) followed by the dedented body of the test function, pytest
  fixtures replaced by no-op stand-ins.  These are (mostly) accepted programs covering every language feature; they serve
  as mutation seeds.
"""
from __future__ import annotations

import ast
import glob
import os

import bootstrap

FIXTURES = ("validate", "run_int_fn", "run_float_fn_approx", "run_float_fn", "run_bool_fn", "capsys", "snapshot", "request",
            "export_test_cases_dir", "tmp_path", "benchmark", "monkeypatch")
STUBS = (
    "import pytest as _pytest\n"
    "def _noop(*a, **k):\n    return None\n"
    + "".join(f"{f} = _noop\n" for f in FIXTURES)
)


def error_programs() -> list[tuple[str, str]]:
    root = os.path.join(bootstrap.REPO, "tests", "error")
    out = []
    for f in sorted(glob.glob(os.path.join(root, "*", "*.py"))):
        if f.endswith("__init__.py"):
            continue
        out.append((os.path.relpath(f, root), open(f).read()))
    return out


def integration_seeds() -> list[tuple[str, str]]:
    root = os.path.join(bootstrap.REPO, "tests", "integration")
    out = []
    files = sorted(glob.glob(os.path.join(root, "test_*.py")) + glob.glob(os.path.join(root, "*", "test_*.py")))
    for f in files:
        base = os.path.basename(f)
        if base in ("test_emulator.py", "test_wasm.py", "test_examples.py", "test_imports.py", "test_pytket_circuits.py",
                    "test_qsystem.py", "test_state_result.py", "test_docstring.py"):
            continue
        try:
            tree = ast.parse(open(f).read())
        except SyntaxError:
            continue
        top = [n for n in tree.body if not (isinstance(n, ast.FunctionDef) and n.name.startswith("test_"))]
        # `from __future__` imports must stay first
        fut = [n for n in top if isinstance(n, ast.ImportFrom) and n.module == "__future__"]
        top = [n for n in top if n not in fut]
        head = "\n".join(ast.unparse(n) for n in fut) + "\n" + STUBS + "\n".join(ast.unparse(n) for n in top) + "\n"
        for n in tree.body:
            if not (isinstance(n, ast.FunctionDef) and n.name.startswith("test_")):
                continue
            if any(isinstance(x, (ast.Return, ast.Yield, ast.YieldFrom, ast.Nonlocal)) for st in n.body
                   for x in _walk_same_scope(st)):
                continue
            body = "\n".join(ast.unparse(st) for st in n.body)
            out.append((f"{os.path.relpath(f, root)}::{n.name}", head + body + "\n"))
    return out


def _walk_same_scope(node):
    """walk `node` without descending into nested function/class scopes"""
    if isinstance(node, (ast.FunctionDef, ast.AsyncFunctionDef, ast.ClassDef, ast.Lambda)):
        return
    yield node
    for ch in ast.iter_child_nodes(node):
        if isinstance(ch, (ast.FunctionDef, ast.AsyncFunctionDef, ast.ClassDef, ast.Lambda)):
            continue
        yield from _walk_same_scope(ch)
