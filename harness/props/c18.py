"""C18 — range() yields Python's sequence.

Tie (T-exec + T-src/T-obj): the REAL bodies of `Range.__next__`, `_range1/2/3`, `_range_comptime`
are fetched from /repo's working tree (DEF_STORE) on every run, rebuilt over shim globals
(`Int64` wrap-around ints, `Option` shims, a `Range` class built from the real struct's field
list) and driven like a `for` loop; the result is compared with the Lean model (driver C18) and
with CPython's own `range` (oracle).  Which variant a call form resolves to, and the static
size the checker assigns to `range(<literal>)`, are read off probe programs type-checked by the
real compiler (T-obj)."""
from __future__ import annotations

import ast
import hashlib
import json
import os
import sys
import types

sys.path.insert(0, os.path.dirname(os.path.dirname(os.path.abspath(__file__))))
import vlib

PID = "C18"
THEOREM_MODULES = ["GuppyVerif.Props.C18"]
DRIVER = "C18"
RULE = (
    "calls range(start,stop,step) / range(start,stop) / range(stop) / range(<comptime n>) with 64-bit "
    "arguments, generated from a target length (0..60), a step class (+-1, small, medium, huge, extreme) and a "
    "start class (small, near +-2^63, random), stop placed for exact fit / overshoot / empty / wrong side, plus "
    "families where start+len*step lands exactly on 2^63-1, 2^63, -2^63, -2^63-1; single `__next__` steps on "
    "arbitrary states (incl. step=0); thorough adds the exhaustive grid start,stop in [-6,6], step in [-4,4]\\{0}. "
    "non-trivial = at least one value is yielded or a bound is within 2^16 of +-2^63; distinct by request line. "
    "Compiled path: three Guppy loops `for i in range(..)` with RUN-TIME arguments (260 / 4000 generated calls incl. near +-2^63, "
    "negative steps, empty, and the known overflow class), literal-argument programs incl. `array(i for i in range(n))` (12 / 68) and "
    "functions mixing run-time and comptime range calls in random order (8 / 80); each run in the default and adversarial schedule"
)
ASSUMPTIONS = [
    "Guppy `int` is 64-bit two's complement: `+` wraps (HUGR iadd), `>=`/`<=` are signed (ige_s/ile_s); the Int64 shim and the Lean `wrap` implement exactly that",
    "Guppy source executed under CPython with shims means what the compiled HUGR means (that claim is property C03); now also "
    "observed directly: the same calls are run through the real lowering on the reference HUGR interpreter (T-hugr)",
    "the implicit coercion nat->int inserted by the checker in `_range_comptime` (`nat.__int__`, a NoopCompiler) reinterprets the 64 bits "
    "as signed (confirmed on the interpreter: the lowered `for i in range(2^63)` runs zero times; the production runtime is unobservable)",
    "harness/hugr_interp.py gives the HUGR ops their documented semantics (iadd wraps, ige_s/ile_s signed, Option sums, arrays; validated "
    "against CPython and the real 1.0.4 emulator, notes/INTERP.md); it is a sampling oracle over the real lowering, not a proof",
    "the Lean model Model/Range.lean is hand-written; agreement with iter.py is established by the same-input correspondence run here",
    "Spec/C18.lean (`pyLen`, `pyRange`) is compared with CPython's `range` on every generated triple",
]
UNMODELLED = [
    "the production runtime (selene) executing /repo's HUGR; the `for` desugaring over __iter__/__next__, SizedIter NoopCompilers and "
    "array-comprehension lowering are exercised on the reference interpreter on sampled programs (T-hugr), not modelled in Lean",
    "step = 0 (Python raises ValueError; Guppy silently iterates forever or not at all) is outside the property; only checked model-vs-code",
    "comptime n >= 2^64 (not a `nat`: rejected by the compiler)",
]
MANIFEST = {
    "level_text": "Lean theorems over a model of std/iter.py (Int with 64-bit wrap): for all 64-bit start, stop, step != 0 whose "
    "`start + len*step` does not overflow, the iteration yields exactly Python's list(range(..)) and terminates "
    "(`range_correct_partial`); the one- and two-argument forms for ALL 64-bit arguments (`range1_correct`, `range2_correct`); "
    "`range(n)` comptime is annotated with size n and yields exactly 0..n-1 for all n < 2^63 (`range_comptime_size`). The full "
    "statement is false of the code and the negations are proved: whenever `start + len*step` overflows an extra wrapped value "
    "is yielded (`range_wrong_on_overflow`, witness `range_overflow_counterexample`, D12) and a comptime n >= 2^63 yields "
    "nothing (`range_comptime_large_empty`). The specification list is characterised independently (`pyRange_mem_iff`, "
    "`pyRange_getElem`) and compared with CPython's range on every case. Tie: the real function bodies from /repo executed under CPython on Int64 shims vs "
    "the model vs CPython's range (quick ~2500 calls, thorough ~10^5 + exhaustive small grid); overload resolution and static "
    "sizes read from the real type checker on probe programs; second, independent tie on the compiled path: Guppy loops over range "
    "(run-time and literal arguments, comptime array comprehensions, mixed call orders) lowered by the real compiler and run on the "
    "reference HUGR interpreter in two schedules must yield the model's and CPython's sequence.",
    "level_note": "Partial: the 3-argument theorem needs the no-overflow hypothesis (D12 known finding; hypothesis proved necessary). "
    "Trusted: Lean kernel + propext/Classical.choice/Quot.sound; the Int64 shim / `wrap` as the meaning of Guppy int ops (HUGR op "
    "semantics as in harness/hugr_interp.py, validated against the 1.0.4 emulator); CPython execution of Guppy source standing for "
    "compiled execution is now cross-checked by interpreting the real lowering; both correspondences are sampling.",
    "technique": "Lean 4 proof over a hand-written model + T-exec differential correspondence with std/iter.py + T-obj probes + T-hugr "
    "(real lowering run on the reference HUGR interpreter)",
    "design_ref": "DESIGN.md §5 C18",
    "ready": True,
}

M63 = 1 << 63
M64 = 1 << 64
CANON = ("r3", M63 - 2, M63 - 1, 2)
CANON_KEY = "input:range 9223372036854775806 9223372036854775807 2"
CLASS_KEY = "class:range-next-overflow"
CANON_RC = ("rc", M63)
CANON_RC_KEY = "input:range comptime 9223372036854775808"
CLASS_RC_KEY = "class:range-comptime-nat-ge-2^63"
MAXLEN = 60


def _i64(x):
    return -M63 <= x < M63


def _wrap(x):
    return (x + M63) % M64 - M63


# ------------------------------------------------------------------ shims (T-exec)
class Int64:
    """Guppy `int`: 64-bit two's complement; + - * wrap, comparisons signed."""

    __slots__ = ("v",)

    def __init__(self, v):
        if isinstance(v, Int64):
            v = v.v
        if isinstance(v, bool) or not isinstance(v, int):
            raise TypeError(f"Int64 from {type(v).__name__}")
        self.v = _wrap(v)

    @staticmethod
    def _o(o):
        if isinstance(o, Int64):
            return o.v
        if isinstance(o, int) and not isinstance(o, bool):
            return _wrap(o)
        return None

    def _bin(self, o, f):
        b = Int64._o(o)
        return NotImplemented if b is None else Int64(f(self.v, b))

    def _cmp(self, o, f):
        b = Int64._o(o)
        return NotImplemented if b is None else f(self.v, b)

    def __add__(self, o): return self._bin(o, lambda a, b: a + b)
    def __radd__(self, o): return self._bin(o, lambda a, b: b + a)
    def __sub__(self, o): return self._bin(o, lambda a, b: a - b)
    def __rsub__(self, o): return self._bin(o, lambda a, b: b - a)
    def __mul__(self, o): return self._bin(o, lambda a, b: a * b)
    def __rmul__(self, o): return self._bin(o, lambda a, b: b * a)
    def __neg__(self): return Int64(-self.v)
    def __ge__(self, o): return self._cmp(o, lambda a, b: a >= b)
    def __le__(self, o): return self._cmp(o, lambda a, b: a <= b)
    def __gt__(self, o): return self._cmp(o, lambda a, b: a > b)
    def __lt__(self, o): return self._cmp(o, lambda a, b: a < b)
    def __eq__(self, o): return self._cmp(o, lambda a, b: a == b)
    def __ne__(self, o): return self._cmp(o, lambda a, b: a != b)
    __hash__ = None
    def __repr__(self): return f"Int64({self.v})"


class Nat64:
    """Guppy `nat` (comptime argument of `_range_comptime`): 64-bit unsigned, opaque here."""

    __slots__ = ("v",)

    def __init__(self, v):
        assert 0 <= v < M64
        self.v = v

    def __repr__(self): return f"Nat64({self.v})"


class _Nothing:
    def __repr__(self): return "nothing"


class _Some:
    def __init__(self, value): self.value = value


class _SizedIter:
    """`SizedIter(it)`: records that the cast was applied (a NoopCompiler in /repo)."""

    def __init__(self, iterator): self.iterator = iterator
    def __class_getitem__(cls, item): return cls


def _to_field(v):
    """what the type checker does to a constructor argument of a field typed `int`"""
    if isinstance(v, Nat64):  # implicit nat.__int__ (NoopCompiler): bits reinterpreted as signed
        return Int64(v.v)
    return Int64(v)


class Real:
    """The real code objects of /repo, fetched on every run (honours VERIF_REPO via bootstrap)."""

    def __init__(self, ctx):
        from guppylang_internals.engine import DEF_STORE
        import guppylang.std.iter as itm

        self.ctx, self.itm, self.store = ctx, itm, DEF_STORE
        raw = DEF_STORE.raw_defs
        # --- struct fields (T-src)
        cls = raw[itm.Range.id].python_class
        ann = dict(getattr(cls, "__annotations__", {}))
        self.fields = list(ann)
        ctx.extra["struct_fields"] = ann
        if len(self.fields) != 3 or any(str(t) != "int" for t in ann.values()):
            ctx.broke(f"T-src: struct Range is no longer three `int` fields: {ann}")
        elif self.fields != ["next", "stop", "step"]:
            ctx.extra["struct_fields_renamed"] = self.fields  # consistent renames are harmless (shim follows)
        fields = self.fields
        NOTHING = _Nothing()
        self.NOTHING = NOTHING

        class Range:
            def __init__(self, *args):
                if len(args) != len(fields):
                    raise TypeError("Range() arity")
                for f, a in zip(fields, args):
                    setattr(self, f, _to_field(a))

        self.Range = Range
        g = {"Range": Range, "some": _Some, "nothing": lambda: NOTHING, "SizedIter": _SizedIter,
             "__builtins__": {}}
        self.globals = g

        def rebuild(defid):
            r = raw[defid]
            f = r.python_func
            return types.FunctionType(f.__code__, g, f.__name__, f.__defaults__, None), f

        impls = DEF_STORE.impls[itm.Range.id]
        self.next_fn, _ = rebuild(impls["__next__"])
        self.iter_fn, _ = rebuild(impls["__iter__"])
        # --- overload list (T-src)
        ov = raw[itm.range.id]
        self.order = [raw[i].name for i in ov.func_ids]
        ctx.extra["overload_order"] = self.order
        self.variants = {}
        for i in ov.func_ids:
            fn, orig = rebuild(i)
            self.variants[raw[i].name] = (fn, dict(orig.__annotations__))
        need = {"_range_comptime", "_range1", "_range2", "_range3"}
        if set(self.order) != need or len(self.order) != 4:
            ctx.broke(f"T-src: overload list of `range` changed: {self.order}")
        elif self.order.index("_range_comptime") > self.order.index("_range1"):
            ctx.broke(f"T-src: `_range_comptime` no longer precedes `_range1` in the overload list: {self.order}")
        rc = self.variants.get("_range_comptime")
        if rc is not None:
            a = rc[1]
            if a.get("return") not in ("'SizedIter[Range, stop]'", "SizedIter[Range, stop]") or a.get("stop") != "nat @ comptime":
                ctx.broke(f"T-src: signature of `_range_comptime` changed: {a}")
        self._probe()

    # ---- T-obj: ask the real type checker
    def _probe(self):
        import feed
        from guppylang_internals.engine import ENGINE

        ctx = self.ctx
        src = (
            "@guppy\ndef p1(x: int) -> None:\n    for i in range(x):\n        pass\n"
            "@guppy\ndef pc() -> None:\n    for i in range(5):\n        pass\n"
            "@guppy\ndef pbig() -> None:\n    for i in range(9223372036854775808):\n        pass\n"
            "@guppy\ndef p2(x: int, y: int) -> None:\n    for i in range(x, y):\n        pass\n"
            "@guppy\ndef p3(x: int, y: int, z: int) -> None:\n    for i in range(x, y, z):\n        pass\n"
        )
        self.dispatch = {}
        try:
            m = feed.load(src)
            for form, fn in (("r1", "p1"), ("rc", "pc"), ("rcbig", "pbig"), ("r2", "p2"), ("r3", "p3")):
                d = getattr(m, fn)
                out = feed.check_outcome(d)
                if out[0] != "ok":
                    self.dispatch[form] = "rejected:" + feed.err_class(out[1])
                    continue
                names = [self.store.raw_defs[n.def_id].name for n in self._calls(ENGINE.checked[d.id])
                         if n.def_id in self.store.raw_defs]
                hit = [n for n in names if n in self.variants]
                self.dispatch[form] = hit[0] if len(hit) == 1 else "ambiguous:" + ",".join(hit)
            feed.unload(m)
        except Exception as e:  # noqa: BLE001
            ctx.broke(f"T-obj: probe programs calling range() could not be checked: {type(e).__name__}: {e}")
            self.dispatch = {"r1": "_range1", "rc": "_range_comptime", "rcbig": "_range_comptime",
                             "r2": "_range2", "r3": "_range3"}
        ctx.extra["dispatch"] = dict(self.dispatch)
        # --- what the checker does inside _range_comptime: coercion of `stop` and the size argument
        try:
            self.itm._range_comptime.check()
            c = ENGINE.checked[self.itm._range_comptime.id]
            coercions = []
            for n in self._calls(c):
                r = self.store.raw_defs.get(n.def_id)
                if r is not None and r.name == "__int__":
                    coercions.append((getattr(r.python_func, "__qualname__", "?"), type(getattr(r, "call_compiler", None)).__name__))
            ctx.extra["comptime_coercion"] = coercions
            if coercions != [("nat.__int__", "NoopCompiler")]:
                ctx.broke(f"T-obj: coercion of `stop` in `_range_comptime` is no longer the no-op nat.__int__: {coercions}")
            ty = c.ty
            size_ok = False
            out_args = getattr(ty.output, "args", [])
            if len(out_args) == 2 and len(ty.inputs) == 1:
                cst = getattr(out_args[1], "const", None)
                idx = getattr(cst, "idx", None)
                if idx is not None and idx < len(ty.params):
                    p = ty.params[idx]
                    size_ok = getattr(p, "from_comptime_arg", False) and p.name == ty.inputs[0].name
            self.size_is_arg = size_ok
            ctx.extra["comptime_type"] = str(ty)
            if not size_ok:
                ctx.broke(f"T-obj: `_range_comptime` type is no longer `nat @comptime -> SizedIter[Range, <that nat>]`: {ty}")
        except Exception as e:  # noqa: BLE001
            self.size_is_arg = False
            ctx.broke(f"T-obj: `_range_comptime` does not type-check: {type(e).__name__}: {e}")

    @staticmethod
    def _calls(checked):
        from guppylang_internals.nodes import GlobalCall

        for bb in checked.cfg.bbs:
            for s in bb.statements:
                for n in ast.walk(s):
                    if isinstance(n, GlobalCall):
                        yield n

    def static_sizes(self, ns):
        """T-obj: the size the real checker assigns to `range(<literal n>)`, and whether
        `array(i for i in range(n))` is accepted at `array[int, n]` and rejected at `array[int, n+1]`."""
        import feed
        from guppylang_internals.ast_util import get_type
        from guppylang_internals.engine import ENGINE

        src = ""
        for k, n in enumerate(ns):
            src += f"@guppy\ndef s{k}() -> None:\n    for i in range({n}):\n        pass\n"
            src += f"@guppy\ndef a{k}() -> array[int, {n}]:\n    return array(i for i in range({n}))\n"
            src += f"@guppy\ndef b{k}() -> array[int, {n + 1}]:\n    return array(i for i in range({n}))\n"
        out = {}
        m = feed.load(src)
        for k, n in enumerate(ns):
            d = getattr(m, f"s{k}")
            o = feed.check_outcome(d)
            size = None
            if o[0] == "ok":
                for c in self._calls(ENGINE.checked[d.id]):
                    r = self.store.raw_defs.get(c.def_id)
                    if r is not None and r.name in self.variants:
                        t = get_type(c)
                        args = getattr(t, "args", [])
                        if "SizedIter" in str(t) and len(args) == 2:
                            size = getattr(getattr(args[1], "const", None), "value", None)
            acc = feed.check_outcome(getattr(m, f"a{k}"))[0]
            rej = feed.check_outcome(getattr(m, f"b{k}"))[0]
            out[n] = (size, acc, rej)
        feed.unload(m)
        return out

    # ---- T-exec: run the real bodies
    def drive(self, r, cap):
        vals = []
        for _ in range(cap):
            o = self.next_fn(r)
            if o is self.NOTHING:
                return "done", vals
            if not isinstance(o, _Some):
                raise TypeError("__next__ returned " + type(o).__name__)
            v, r = o.value
            vals.append(Int64(v).v)
            if not isinstance(r, self.Range):
                raise TypeError("__next__ state is " + type(r).__name__)
        return ("done" if self.next_fn(r) is self.NOTHING else "more"), vals

    def run(self, req, cap):
        """canonical reply string, same format as the Lean driver"""
        kind = req[0]
        try:
            if kind == "next":
                r = self.Range(*req[1:])
                o = self.next_fn(r)
                if o is self.NOTHING:
                    return "none"
                v, r2 = o.value
                return "some " + " ".join(str(Int64(x).v) for x in [v] + [getattr(r2, f) for f in self.fields])
            form = kind
            name = self.dispatch.get("rcbig" if (kind == "rc" and req[1] >= M63) else form, "?")
            if name not in self.variants:
                return "unresolved:" + name
            fn, ann = self.variants[name]
            params = [k for k in ann if k != "return"]
            if len(params) != len(req) - 1:
                return "arity-mismatch:" + name
            args = []
            for p, a in zip(params, req[1:]):
                if "nat" in str(ann[p]):
                    if not 0 <= a < M64:
                        return "rejected:not-a-nat"
                    args.append(Nat64(a))
                else:
                    if not _i64(a):
                        return "rejected:int-literal-out-of-range"
                    args.append(Int64(a))
            res = fn(*args)
            prefix = ""
            if kind == "rc":
                if isinstance(res, _SizedIter):
                    size = req[1] if self.size_is_arg else "unknown"
                    prefix, res = f"size={size} ", res.iterator
                else:
                    prefix = "size=none "
            elif isinstance(res, _SizedIter):
                return "unexpected-sized-iter"
            if not isinstance(res, self.Range):
                return "not-a-range:" + type(res).__name__
            it = self.iter_fn(res)
            flag, vals = self.drive(it, cap)
            return prefix + " ".join([flag] + [str(v) for v in vals])
        except Exception as e:  # noqa: BLE001
            return "exception:" + type(e).__name__


# ------------------------------------------------------------------ oracle (CPython's own range)
def _triple(req):
    k = req[0]
    if k == "r3":
        return req[1], req[2], req[3]
    if k == "r2":
        return req[1], req[2], 1
    if k in ("r1", "rc"):
        return 0, req[1], 1
    raise AssertionError(k)


def _pyrange(req):
    a, b, c = _triple(req)
    return None if c == 0 else range(a, b, c)


def _rlen(r):
    """len(r) for ranges longer than sys.maxsize too (CPython's own first/last element)"""
    return ((r[-1] - r[0]) // r.step + 1) if r else 0


def _cap(req):
    if req[0] == "next":
        return 0
    r = _pyrange(req)
    return 5 if r is None else min(_rlen(r), MAXLEN) + 3


def _oracle(req, cap):
    """the property's literal reading: list(range(..)), and size n for the comptime form"""
    r = _pyrange(req)
    if r is None:
        return None
    n = _rlen(r)
    s = " ".join(["done" if n <= cap else "more"] + [str(v) for v in r[:cap]])
    return (f"size={req[1]} " + s) if req[0] == "rc" else s


def _spec_oracle(req, cap):
    r = _pyrange(req)
    return " ".join([str(_rlen(r))] + [str(v) for v in r[:cap]])


def _overflow_class(req):
    """D12 class, decided on ℤ independently of code and model: the range is non-empty and the
    value after the last element, start + len*step, is not a 64-bit int."""
    if req[0] != "r3" or req[3] == 0:
        return False
    a, b, c = req[1:]
    n = _rlen(range(a, b, c))
    return n > 0 and not _i64(a + n * c)


def _key(req):
    k = req[0]
    if k == "r3":
        return f"input:range {req[1]} {req[2]} {req[3]}"
    if k == "r2":
        return f"input:range {req[1]} {req[2]}"
    if k == "r1":
        return f"input:range {req[1]}"
    if k == "rc":
        return f"input:range comptime {req[1]}"
    return "input:" + " ".join(str(x) for x in req)


def _finding_key(req):
    if req[0] == "r3" and _overflow_class(req):
        return CANON_KEY if tuple(req) == CANON else CLASS_KEY
    if req[0] == "rc" and M63 <= req[1] < M64:
        return CANON_RC_KEY if tuple(req) == CANON_RC else CLASS_RC_KEY
    return _key(req)


def _line(req, cap):
    if req[0] == "next":
        return "next " + " ".join(str(x) for x in req[1:])
    return req[0] + " " + " ".join(str(x) for x in req[1:]) + f" {cap}"


# ------------------------------------------------------------------ generator
def _gen_triple(rng):
    """one (start, stop, step) with 64-bit components, step != 0, biased to boundaries"""
    for _ in range(200):
        L = rng.choice([0, 0, 1, 1, 2, 3, rng.randrange(0, 8), rng.randrange(0, MAXLEN + 1)])
        sc = rng.randrange(8)
        if sc == 0:
            step = 1
        elif sc == 1:
            step = rng.randrange(1, 8)
        elif sc == 2:
            step = rng.randrange(1, 1 << 16)
        elif sc == 3:
            step = rng.randrange(1 << 40, 1 << 62)
        elif sc == 4:
            step = rng.randrange(1 << 62, M63)
        elif sc == 5:
            step = M63 - 1 - rng.randrange(0, 3)
        elif sc == 6:
            step = (M64 // max(L, 1)) // rng.choice([1, 2, 3]) + rng.randrange(-2, 3)
            step = max(1, min(step, M63 - 1))
        else:
            step = rng.randrange(1, M63)
        neg = rng.random() < 0.5
        if neg:
            step = -step
            if rng.random() < 0.03:
                step = -M63
        fam = rng.randrange(10)
        if fam <= 2 and L > 0:
            # place start + L*step exactly at / next to the representable boundary
            if step > 0:
                target = rng.choice([M63 - 1, M63, M63 - 2, M63 + 1, M63 + step - 1])
            else:
                target = rng.choice([-M63, -M63 - 1, -M63 + 1, -M63 - 2, -M63 + step + 1])
            start = target - L * step
            last = start + (L - 1) * step
            if step > 0:
                lo, hi = last + 1, min(last + step, M63 - 1)
            else:
                lo, hi = max(last + step, -M63), last - 1
            if lo > hi:
                continue
            stop = rng.choice([lo, hi, rng.randrange(lo, hi + 1)])
        else:
            stc = rng.randrange(6)
            if stc == 0:
                start = rng.randrange(-10, 11)
            elif stc == 1:
                start = M63 - 1 - rng.randrange(0, 1 << rng.choice([2, 8, 20]))
            elif stc == 2:
                start = -M63 + rng.randrange(0, 1 << rng.choice([2, 8, 20]))
            elif stc == 3:
                start = rng.randrange(-M63, M63)
            elif stc == 4:
                start = rng.randrange(-(1 << 32), 1 << 32)
            else:
                start = (-M63 if step > 0 else M63 - 1)
            if fam == 3:  # empty: stop on the wrong side or equal
                d = rng.choice([0, 1, rng.randrange(0, 1 << 16), rng.randrange(0, M63)])
                stop = start - d if step > 0 else start + d
            else:
                sgn = 1 if step > 0 else -1
                base = start + L * step  # exact fit
                dl = rng.choice([0, 0, -sgn, sgn, -sgn * rng.randrange(0, abs(step)), sgn * rng.randrange(0, abs(step))])
                stop = base + dl
                if L == 0 and rng.random() < 0.5:
                    stop = start
        if not (_i64(start) and _i64(stop) and _i64(step)) or step == 0:
            if rng.random() < 0.7:
                stop = max(-M63, min(M63 - 1, stop))
            if not (_i64(start) and _i64(stop)):
                continue
        n = _rlen(range(start, stop, step))
        if n > MAXLEN:
            continue
        return (start, stop, step)
    return (0, 5, 1)


def _gen_case(rng):
    k = rng.randrange(100)
    if k < 55:
        return ("r3",) + _gen_triple(rng)
    if k < 67:
        L = rng.choice([0, 1, 2, rng.randrange(0, MAXLEN + 1)])
        c = rng.randrange(5)
        if c == 0:
            a = rng.randrange(-20, 21)
        elif c == 1:
            a = M63 - 1 - rng.randrange(0, MAXLEN + 2)
        elif c == 2:
            a = -M63 + rng.randrange(0, 4)
        else:
            a = rng.randrange(-M63, M63)
        b = a + L if rng.random() < 0.8 else a - rng.choice([0, 1, rng.randrange(0, M63)])
        b = max(-M63, min(M63 - 1, b))
        if _rlen(range(a, b)) > MAXLEN:
            b = a + MAXLEN
        return ("r2", a, b)
    if k < 75:
        b = rng.choice([0, 1, -1, 2, rng.randrange(0, MAXLEN + 1), -rng.randrange(0, M63), -M63, rng.randrange(-5, 6)])
        return ("r1", b)
    if k < 87:
        c = rng.randrange(10)
        if c < 6:
            n = rng.choice([0, 1, 2, 3, rng.randrange(0, MAXLEN + 1)])
        elif c < 8:
            n = rng.choice([M63 - 1, M63 - 2, rng.randrange(MAXLEN + 1, M63)])  # huge but < 2^63: first values only
        else:
            n = rng.choice([M63, M63 + 1, M64 - 1, rng.randrange(M63, M64)])
        return ("rc", n)
    # single steps on arbitrary states, including step = 0 and values where next+step wraps
    def v():
        c = rng.randrange(5)
        if c == 0:
            return rng.randrange(-4, 5)
        if c == 1:
            return M63 - 1 - rng.randrange(0, 4)
        if c == 2:
            return -M63 + rng.randrange(0, 4)
        return rng.randrange(-M63, M63)
    a, b, c = v(), v(), v()
    if rng.random() < 0.3:
        b = a + rng.randrange(-1, 2)
        b = max(-M63, min(M63 - 1, b))
    if rng.random() < 0.15:
        c = 0
    return ("next", a, b, c)


def _tup(x):
    return tuple(_tup(i) for i in x) if isinstance(x, (list, tuple)) else x


def _grid():
    out = []
    R = range(-6, 7)
    for a in R:
        for b in R:
            for c in range(-4, 5):
                if c != 0:
                    out.append(("r3", a, b, c))
            out.append(("r2", a, b))
            for c in range(-2, 3):
                out.append(("next", a, b, c))
    for b in range(-6, 40):
        out.append(("r1", b))
    for n in range(0, 40):
        out.append(("rc", n))
    return out


def _cases(ctx, n_random, grid):
    reqs = []
    corpus = os.path.join(vlib.VERIF, "corpus", "c18")
    if os.path.isdir(corpus):
        for fn in sorted(os.listdir(corpus)):
            if fn.endswith(".json"):
                for r in json.load(open(os.path.join(corpus, fn))):
                    reqs.append(_tup(r))
    if ctx.replay_in and isinstance(ctx.replay_in.get("replay"), dict) and "request" in ctx.replay_in["replay"]:
        reqs.append(_tup(ctx.replay_in["replay"]["request"]))
    if grid:
        reqs.extend(_grid())
    for _ in range(n_random):
        reqs.append(_gen_case(ctx.rng))
    return reqs


def _broke(ctx, msg):
    if len(ctx.broken) < 12:
        ctx.broke(msg)
    else:
        ctx.extra["broken_more"] = ctx.extra.get("broken_more", 0) + 1


def _evaluate(ctx, real, reqs, count=True):
    caps = [_cap(r) for r in reqs]
    lines = [_line(r, c) for r, c in zip(reqs, caps)]
    spec_idx = [i for i, r in enumerate(reqs) if r[0] in ("r3", "r2", "r1") and _pyrange(r) is not None]
    spec_lines = ["py {} {} {} {}".format(*_triple(reqs[i]), caps[i]) for i in spec_idx]
    replies = ctx.driver(DRIVER, lines + spec_lines)
    model, spec = replies[: len(lines)], replies[len(lines):]
    for i, s in zip(spec_idx, spec):
        if s != _spec_oracle(reqs[i], caps[i]):
            _broke(ctx, f"Spec/C18.lean pyLen/pyRange differs from CPython range on `{lines[i]}`: spec={s}")
    for req, cap, line, m in zip(reqs, caps, lines, model):
        r = real.run(req, cap)
        orc = None if req[0] == "next" else _oracle(req, cap)
        if count:
            near = any(abs(abs(x) - M63) <= (1 << 16) for x in req[1:])
            yielded = (r.startswith("some") if req[0] == "next" else len(r.split(" ")) > (2 if req[0] == "rc" else 1))
            cls = "overflow" if _overflow_class(req) else ("big-nat" if req[0] == "rc" and req[1] >= M63 else
                                                           ("step0" if req[0] in ("r3", "next") and req[3] == 0 else "plain"))
            ctx.count(line, nontrivial=bool(yielded or near), kind=f"{req[0]}:{cls}:{(r.split(' ') + ['?'])[1 if req[0] == 'rc' else 0][:12]}")
        if orc is not None and r != orc:
            ctx.violation(
                _finding_key(req),
                f"range{tuple(req[1:])} [{req[0]}] differs from Python's range: real=`{r}` expected=`{orc}` (first {cap} steps)",
                {"request": list(req), "cap": cap, "line": line, "real": r, "oracle": orc, "model": m,
                 "overflow_class": _overflow_class(req)},
            )
        if r != m:
            if orc is None and req[3] == 0:
                # step = 0 is outside the property (Python raises ValueError) and outside every theorem's
                # hypotheses: a divergence there is recorded, never an alarm
                ctx.extra["step0_divergence"] = ctx.extra.get("step0_divergence", 0) + 1
                ctx.extra.setdefault("step0_divergence_example", f"{line}: real=`{r}` model=`{m}`")
            else:
                _broke(ctx, f"correspondence Model/Range.lean vs std/iter.py on `{line}` (real=`{r}` model=`{m}`)")


def _static_probe(ctx, real, ns):
    """T-obj: static sizes from the real type checker vs the model's `size` (= n) vs the property."""
    try:
        res = real.static_sizes(ns)
    except Exception as e:  # noqa: BLE001
        ctx.broke(f"T-obj: static-size probes failed: {type(e).__name__}: {e}")
        return
    model = ctx.driver(DRIVER, [f"rc {n} 0" for n in ns])
    for n, m in zip(ns, model):
        size, acc, rej = res[n]
        ctx.count(f"static-size {n}", nontrivial=True, kind="static:" + ("ok" if size == n else "bad"))
        if size != n or acc != "ok" or (rej != "user" and n + 1 < M64):
            ctx.violation(
                f"input:static-size range comptime {n}",
                f"range({n}) with a comptime-known argument is not statically sized to {n}: checker size={size}, "
                f"array[int,{n}] comprehension {acc}, array[int,{n+1}] comprehension {rej}",
                {"request": ["static", n], "size": size, "accepted_at_n": acc, "rejected_at_n_plus_1": rej},
            )
        if m.split(" ")[0] != f"size={size}":
            _broke(ctx, f"correspondence: model size annotation vs checker on range({n}) (checker={size} model={m})")



# ----------------------------------------------------------------------------- compiled path (T-hugr)
# Second, independent tie: Guppy driver programs looping over range(..) are lowered by /repo's REAL compiler
# (feed.load / feed.lower) and the lowered HUGR is run on the reference interpreter harness/hugr_interp.py
# (notes/INTERP.md), default and adversarial schedule.  The `result` trace must equal the Lean model's reply and
# CPython's list(range(..)).  Covers what T-exec cannot see: the `for` desugaring over __iter__/__next__, the
# lowering of Range's struct fields / Option results, iadd/ige_s/ile_s, overload resolution at the call site,
# SizedIter + array comprehension for the comptime form, and the no-op nat->int coercion.

_HUGR_RT = """
@guppy
def r1(b: int, cap: int) -> None:
    n = 0
    for i in range(b):
        if n >= cap:
            result("more", 0)
            return
        result("v", i)
        n += 1
    result("done", 0)

@guppy
def r2(a: int, b: int, cap: int) -> None:
    n = 0
    for i in range(a, b):
        if n >= cap:
            result("more", 0)
            return
        result("v", i)
        n += 1
    result("done", 0)

@guppy
def r3(a: int, b: int, c: int, cap: int) -> None:
    n = 0
    for i in range(a, b, c):
        if n >= cap:
            result("more", 0)
            return
        result("v", i)
        n += 1
    result("done", 0)
"""


def _lit(x):
    return f"({x})" if x < 0 else str(x)


def _hugr_literal_src(req, cap):
    """straight-line program with LITERAL arguments (overload resolution happens at this call site)."""
    k = req[0]
    if k == "rc" and req[1] <= 64:
        n = req[1]
        return (f"@guppy\ndef main() -> None:\n    xs: array[int, {n}] = array(i for i in range({n}))\n"
                f"    result(\"size\", len(xs))\n    for x in xs:\n        result(\"v\", x)\n    result(\"done\", 0)\n")
    args = ", ".join(_lit(x) for x in req[1:])
    return (f"@guppy\ndef main() -> None:\n    n = 0\n    for i in range({args}):\n        if n >= {cap}:\n"
            f"            result(\"more\", 0)\n            return\n        result(\"v\", i)\n        n += 1\n    result(\"done\", 0)\n")


def _hugr_reply(r):
    vals, head, size = [], None, None
    for tag, v in r.trace:
        if tag == "v":
            vals.append(str(v))
        elif tag in ("done", "more"):
            head = tag
        elif tag == "size":
            size = v
    if r.status == "panic":
        head = "panic:" + str(r.msg)[:60]
    elif r.status != "value" or head is None:
        head = f"{r.status}:{r.msg}"
    s = " ".join([head] + vals)
    return s if size is None else f"size={size} " + s


def _strip_size(s):
    return s.split(" ", 1)[1] if s.startswith("size=") else s



def _mixed_program(rng):
    """several range calls of different forms in ONE function, in random order: the comptime form must keep its static
    size (array comprehension) whatever was called before it (overload resolution must not depend on history)."""
    x, y, z = rng.randrange(-3, 6), rng.randrange(-3, 9), rng.choice([-3, -2, -1, 1, 2, 3])
    segs = [rng.choice(["d1", "d2", "d3", "ct", "ctloop"]) for _ in range(rng.randrange(2, 5))]
    if "ct" not in segs:
        segs.insert(rng.randrange(0, len(segs) + 1), "ct")
    if rng.random() < 0.6 and "d1" not in segs[: segs.index("ct")]:
        segs.insert(0, "d1")
    body, exp = [], []
    for j, sg in enumerate(segs):
        n = rng.randrange(0, 7)
        if sg == "d1":
            body += ["    for i in range(x):", f'        result("s{j}", i)']
            exp += [(f"s{j}", v) for v in range(x)]
        elif sg == "d2":
            body += ["    for i in range(x, y):", f'        result("s{j}", i)']
            exp += [(f"s{j}", v) for v in range(x, y)]
        elif sg == "d3":
            body += ["    for i in range(x, y, z):", f'        result("s{j}", i)']
            exp += [(f"s{j}", v) for v in range(x, y, z)]
        elif sg == "ct":
            body += [f"    xs{j}: array[int, {n}] = array(i for i in range({n}))", f'    result("n{j}", len(xs{j}))',
                     f"    for v in xs{j}:", f'        result("s{j}", v)']
            exp += [(f"n{j}", n)] + [(f"s{j}", v) for v in range(n)]
        else:
            body += [f"    for i in range({n}):", f'        result("s{j}", i)']
            exp += [(f"s{j}", v) for v in range(n)]
    src = "@guppy\ndef main(x: int, y: int, z: int) -> None:\n" + "\n".join(body) + "\n"
    return src, [x, y, z], exp, " ".join(segs) + f" x={x} y={y} z={z}"


def _compiled_mixed(ctx, stats):
    import feed
    import hugr_interp as hi
    from guppylang_internals.error import GuppyError

    progs = [_mixed_program(ctx.rng) for _ in range(ctx.n(8, 80))]
    rp = (ctx.replay_in or {}).get("replay", {}) if ctx.replay_in else {}
    if isinstance(rp, dict) and rp.get("program") and "expected_trace" in rp:
        progs.insert(0, (rp["program"], rp["args"], [tuple(e) for e in rp["expected_trace"]], rp.get("desc", "replay")))
    for src, args, exp, desc in progs:
        key = "input:hugr mixed " + hashlib.sha1(src.encode()).hexdigest()[:10] + " " + desc
        try:
            m = feed.load(src)
            h = feed.lower(m.main).hugr
            stats["programs"] += 1
        except GuppyError as e:
            ctx.count("hugr mixed " + desc, nontrivial=True, kind="hugr:mixed:rejected")
            ctx.violation(
                key,
                f"a function mixing run-time and comptime range calls ({desc}) is rejected by the real compiler "
                f"({type(getattr(e, 'error', e)).__name__}): a comptime range(n) must be statically sized to n wherever it stands",
                {"hugr": True, "program": src, "args": args, "desc": desc, "error": type(getattr(e, "error", e)).__name__, "expected_trace": exp},
            )
            continue
        except Exception as e:  # noqa: BLE001
            _broke(ctx, f"T-hugr: mixed driver program crashed the compiler: {type(e).__name__}: {str(e)[:200]}")
            continue
        for order in ("default", "adversarial"):
            try:
                r = hi.run(h, "main", args, order=order)
            except hi.Unsupported:
                stats["unsupported"] += 1
                continue
            except hi.OutOfFuel:
                stats["out_of_fuel"] += 1
                continue
            except Exception as e:  # noqa: BLE001
                _broke(ctx, f"T-hugr: interpreter failed on mixed program ({desc}): {type(e).__name__}: {str(e)[:200]}")
                continue
            stats["runs"] += 1
            got = [(t, v) for t, v in r.trace]
            ctx.count("hugr mixed " + order + " " + desc, nontrivial=True, kind="hugr:mixed:" + r.status)
            if r.status != "value" or got != exp:
                ctx.violation(
                    key,
                    f"compiled function mixing range calls ({desc}; {order} schedule) does not yield Python's sequences: "
                    f"status={r.status} trace={got[:12]} expected={exp[:12]}",
                    {"hugr": True, "program": src, "args": args, "desc": desc, "order": order, "trace": got, "expected_trace": exp, "status": r.status,
                     "msg": r.msg},
                )


def _compiled(ctx):
    import feed
    import hugr_interp as hi

    stats = {"programs": 0, "runs": 0, "unsupported": 0, "out_of_fuel": 0, "lower_failed": 0, "known_class_runs": 0}
    rng = ctx.rng

    def lower(src, names):
        try:
            m = feed.load(src)
            out = {n: feed.lower(getattr(m, n)).hugr for n in names}
            stats["programs"] += len(names)
            return out
        except Exception as e:  # noqa: BLE001
            stats["lower_failed"] += 1
            _broke(ctx, f"T-hugr: driver program does not compile with the real compiler: {type(e).__name__}: {str(e)[:300]}")
            return None

    jobs = []  # (req, cap, hugr, func, args, src, has_size)
    rt = lower(_HUGR_RT, ["r1", "r2", "r3"])
    fixed = [CANON, ("r3", M63 - 3, M63 - 1, 2), ("r3", -M63 + 2, -M63, -1), ("r3", -M63 + 1, -M63, -3), ("r3", 7, -2, -3),
             ("r3", 5, 5, 1), ("r3", M63 - 1, -M63, -(M63 - 1)), ("r2", M63 - 3, M63 - 1), ("r2", -M63, -M63 + 2), ("r1", 0), ("r1", -M63),
             ("r1", 5)]
    n_rt = ctx.n(260, 4000)
    reqs = list(fixed)
    while len(reqs) < n_rt:
        q = _gen_case(rng)
        if q[0] in ("r1", "r2", "r3") and not (q[0] == "r3" and q[3] == 0):
            reqs.append(q)
    rp = (ctx.replay_in or {}).get("replay", {}) if ctx.replay_in else {}
    if isinstance(rp, dict) and rp.get("hugr") and "request" in rp:
        reqs.insert(0, _tup(rp["request"]))
    if rt is not None:
        for q in reqs:
            cap = _cap(q)
            jobs.append((q, cap, rt[q[0]], q[0], list(q[1:]) + [cap], _HUGR_RT, False))
    # literal programs: small/medium literals (|x| < 2^63 so the literal itself is accepted), comptime sizes, one big nat
    lits = [("rc", 0), ("rc", 1), ("rc", 5), ("r1", 4), ("r2", -3, 2), ("r3", 10, -1, -4), ("r3", M63 - 7, M63 - 1, 3), ("rc", M63)]
    for _ in range(ctx.n(4, 60)):
        c = rng.randrange(4)
        if c == 0:
            lits.append(("rc", rng.randrange(0, 41)))
        elif c == 1:
            lits.append(("r1", rng.randrange(-3, 30)))
        elif c == 2:
            lits.append(("r2", rng.randrange(-20, 20), rng.randrange(-20, 20)))
        else:
            st = rng.choice([-7, -2, -1, 1, 2, 3, 9])
            lits.append(("r3", rng.randrange(-30, 30), rng.randrange(-30, 30), st))
    for q in lits:
        cap = _cap(q)
        src = _hugr_literal_src(q, cap)
        h = lower(src, ["main"])
        if h is not None:
            jobs.append((q, cap, h["main"], "main", [], src, q[0] == "rc" and q[1] <= 64))
    lines = [_line(q, cap) for q, cap, *_ in jobs]
    model = ctx.driver(DRIVER, lines) if lines else []
    for (q, cap, h, fn, args, src, has_size), line, m in zip(jobs, lines, model):
        orc = _oracle(q, cap)
        if not has_size:
            m, orc = _strip_size(m), _strip_size(orc)
        in_class = _overflow_class(q) or (q[0] == "rc" and M63 <= q[1] < M64)
        per = {}
        for order in ("default", "adversarial"):
            try:
                r = hi.run(h, fn, args, order=order)
            except hi.Unsupported as e:
                stats["unsupported"] += 1
                ctx.bump("hugr:unsupported:" + str(e)[:40])
                continue
            except hi.OutOfFuel:
                stats["out_of_fuel"] += 1
                continue
            except Exception as e:  # noqa: BLE001  (InterpError etc.: never skipped silently)
                _broke(ctx, f"T-hugr: interpreter failed on the lowering of `{line}`: {type(e).__name__}: {str(e)[:200]}")
                continue
            stats["runs"] += 1
            stats["known_class_runs"] += 1 if in_class else 0
            got = _hugr_reply(r)
            per[order] = got
            ctx.count("hugr " + order + " " + ("lit " if fn == "main" else "rt ") + line, nontrivial=len(got.split(" ")) > 1 or in_class,
                      kind=f"hugr:{q[0]}:{'lit' if fn == 'main' else 'rt'}:{'class' if in_class else 'plain'}:{got.split(' ')[0][:12]}")
            if got != orc:
                key = _finding_key(q) if in_class else "input:hugr " + ("lit " if fn == "main" else "rt ") + _key(q)[len("input:"):]
                ctx.violation(
                    key,
                    f"compiled loop over range{tuple(q[1:])} [{q[0]}, {'literal' if fn == 'main' else 'run-time'} arguments; lowered by the real "
                    f"compiler, run on the reference interpreter, {order} schedule] differs from Python's range: hugr=`{got}` "
                    f"expected=`{orc}` (first {cap} steps)",
                    {"request": list(q), "cap": cap, "line": line, "hugr": True, "program": src, "func": fn, "args": args, "order": order,
                     "interpreter": got, "oracle": orc, "model": m, "overflow_class": _overflow_class(q)},
                )
            if got != m:
                _broke(ctx, f"correspondence Model/Range.lean vs compiled HUGR ({order}) on `{line}` (hugr=`{got}` model=`{m}`)")
        if len(per) == 2 and per["default"] != per["adversarial"]:
            ctx.violation(
                "order:hugr " + _key(q)[len("input:"):],
                f"compiled loop over range{tuple(q[1:])} behaves differently under two legal schedules: default=`{per['default']}` "
                f"adversarial=`{per['adversarial']}`",
                {"request": list(q), "hugr": True, "program": src, "func": fn, "args": args, **per},
            )
    _compiled_mixed(ctx, stats)
    ctx.extra["compiled_path"] = stats


def tie(ctx):
    real = Real(ctx)
    reqs = _cases(ctx, ctx.n(2400, 100000), grid=not ctx.quick)
    if not ctx.quick:
        ctx.extra["exhaustive"] = True
        ctx.extra["exhaustive_note"] = ("all start,stop in [-6,6] x step in [-4,4]\\{0} (3-arg), all start,stop in [-6,6] "
                                        "(2-arg), stop in [-6,39] (1-arg), comptime n in [0,39], single steps with step in [-2,2]")
    _evaluate(ctx, real, reqs)
    rng = ctx.rng
    ns = [0, 1, 2, 5, 64, M63 - 1, M63, M64 - 1] + [rng.choice([rng.randrange(0, 100), rng.randrange(0, M64)])
                                                     for _ in range(ctx.n(40, 600))]
    _static_probe(ctx, real, sorted(set(ns)))
    try:
        _compiled(ctx)
    except vlib.Infra:
        raise
    except Exception as e:  # noqa: BLE001
        _broke(ctx, f"T-hugr: compiled-path tie crashed: {type(e).__name__}: {str(e)[:300]}")


def search(ctx, why):
    """Something no longer checks and no failing input was seen yet: look harder on the REAL code
    (exhaustive small grid + fresh random calls) against CPython's range."""
    try:
        real = Real(ctx)
        reqs = _grid() + [_gen_case(ctx.rng) for _ in range(20000)]
        _evaluate(ctx, real, reqs, count=False)
    except vlib.Infra:
        raise
    except Exception as e:  # noqa: BLE001
        ctx.broke(f"search crashed: {type(e).__name__}: {e}")
    if not ctx.violations:
        # vlib only reports an unexplained break when no known finding was hit; the D12 witness is
        # always hit here, so report the break explicitly.
        ctx.violation(
            "broken:" + "|".join(b[:160] for b in ctx.broken[:2]),
            "proof obligation or correspondence no longer checks: " + "; ".join(ctx.broken[:4]),
            {"broken": list(ctx.broken), "build_log_tail": ctx.build_log[-4000:] if not ctx.build_ok else ""},
            found_input=False,
        )


if __name__ == "__main__":
    vlib.main(sys.modules[__name__])
