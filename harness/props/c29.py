"""C29 — Diagnostic rendering is total and faithful."""
from __future__ import annotations

import json
import os
import re
import sys

sys.path.insert(0, os.path.dirname(os.path.dirname(os.path.abspath(__file__))))
import vlib

PID = "C29"
THEOREM_MODULES = ["GuppyVerif.Props.C29"]
DRIVER = "C29"
RULE = (
    "`hist` = one SourceMap sees a history of 1..6 add_file(name[, content]) calls with repeated names and changed contents "
    "(linecache-backed and explicit), then renders a snippet: the rows must be those of the LATEST registration (KeyError if never registered); "
    "`tospan` = span.to_span on AST nodes at random byte offsets of lines with multi-byte characters (é 字 ß π € 😀), real vs model, "
    "and vs the character positions the offsets were derived from; `prog` = real Guppy functions through check() whose undefined "
    "name is preceded by non-ASCII strings/identifiers (span must sit on the token; then rendered three-way); further "
    "three request kinds, all answered by the REAL code (diagnostic.py/span.py from the working tree), the Lean model "
    "(Model/Render.lean through drv_c29) and an oracle that re-reads the rendered text: "
    "`wrap` = diagnostic.wrap on random texts (words of 1..90 chars, hyphens, tabs, all str.splitlines boundaries, blank "
    "paragraphs, non-ASCII letters) with widths 1..80 and random indents; `snip` = render_snippet on random sources "
    "(indent depths 0..30, blank / whitespace-only lines, tabs) with token-based and arbitrary spans (single / multi-line, "
    "empty, to end of line, outside the source, inside the trimmed indentation), labels, prefix lines 0..3, both highlight "
    "kinds; `diag` = render_diagnostic on real Diagnostic dataclasses with 0..3 sub-diagnostics with/without spans, "
    "labels and messages. non-trivial = the request renders successfully and (wrap) produces >= 2 lines or (snip/diag) shows "
    "a span whose indentation is trimmed, is multi-line, or carries a label; distinct by canonical request line"
)
ASSUMPTIONS = [
    "CPython 3.12 textwrap.TextWrapper / str.splitlines / str.expandtabs / str.lstrip behave as modelled in Model/Render.lean "
    "on the modelled alphabet (ASCII whitespace + str.splitlines boundaries + arbitrary non-whitespace code points; other "
    "Unicode whitespace such as NBSP or \\x1f is outside the alphabet)",
    "string.Formatter placeholder substitution (`_render`) is the identity on field values (labels/titles/messages are passed through "
    "`{field}` placeholders by the tie)",
    "assertions are enabled (no `python -O`): Loc.shift_left's assert is modelled as an error",
    "the Lean model is hand-written; agreement with diagnostic.py is established by the same-input correspondence run here",
]
UNMODELLED = [
    "MietteRenderer",
    "to_span's file/line_offset annotation lookup (the byte-offset -> column conversion IS modelled: charColumn/toSpan)",
    "display width of wide (East Asian) or combining characters: columns count code points",
    "Loc.__str__'s normalize_ipython_dummy_files (file names are plain)",
    "start.line < 1 (Python computes a negative prefix_lines; Loc documents lines as starting at 1)",
    "Unicode whitespace other than ASCII whitespace and the str.splitlines boundaries",
]
MANIFEST = {
    "level_text": "Lean theorems over an executable model of wrap / textwrap (break_long_words=False, break_on_hyphens=False) / "
    "render_snippet / render_diagnostic, for all sources, spans, labels (no size bound): rendering is total for spans inside the "
    "source that satisfy span_shift_safe; every numbered line shows the source line of that number minus a common amount of pure "
    "indentation; highlight markers sit exactly under the spanned columns after trimming; visible characters of every "
    "label/message are preserved in order; wrapped lines respect the width unless they are a single word; every word stays whole "
    "on one line (wrapping only at whitespace — holds after fix commits 55bf698/0f8cc8a/8389350); to_span converts AST byte offsets on "
    "character boundaries to the number of characters before them, so markers sit under the token itself (after fix d720416). The model is tied to the working "
    "tree's diagnostic.py on every run by same-input correspondence with the real renderer plus an independent re-reading of the "
    "rendered text (quick ~3000 cases, thorough ~60000).",
    "level_note": "Trusted: Lean kernel + propext/Classical.choice/Quot.sound; the correspondence is sampling; CPython's textwrap is "
    "modelled for exactly the options passed; span_shift_safe is a documented precondition (Loc.shift_left asserts it; token-based "
    "spans satisfy it).",
    "technique": "Lean 4 proof over a hand-written model + differential correspondence with diagnostic.py",
    "design_ref": "DESIGN.md §5 C29",
    "ready": True,
}

FILE = "<unknown>"
LEVELS = ["fatal", "error", "warning", "note", "help"]

# ------------------------------------------------------------------ real code

_classes: dict = {}


def _cls(main: bool, level: str, has_label: bool, has_message: bool):
    from dataclasses import dataclass
    from typing import ClassVar

    import guppylang_internals.diagnostic as D

    key = (main, level, has_label, has_message)
    if key in _classes:
        return _classes[key]
    ann: dict = {"level": ClassVar[D.DiagnosticLevel]}
    ns: dict = {"level": getattr(D.DiagnosticLevel, level.upper())}
    if main:
        ann["title"] = ClassVar[str]
        ns["title"] = "{t_}"
        ann["t_"] = str
    if has_label:
        ann["span_label"] = ClassVar[str]
        ns["span_label"] = "{l_}"
        ann["l_"] = str
    if has_message:
        ann["message"] = ClassVar[str]
        ns["message"] = "{m_}"
        ann["m_"] = str
    ns["__annotations__"] = ann
    base = D.Error if main else D.Note
    c = dataclass(frozen=True)(type("V" + "".join(str(int(bool(k))) for k in key[2:]) + level, (base,), ns))
    _classes[key] = c
    return c


def _span(sp):
    from guppylang_internals.span import Loc, Span

    return None if sp is None else Span(Loc(FILE, sp[0], sp[1]), Loc(FILE, sp[2], sp[3]))


def _exc(e: BaseException) -> str:
    n = type(e).__name__
    return {"AssertionError": "err assertion", "InternalGuppyError": "err internal", "ValueError": "err value", "KeyError": "err key"}.get(
        n, "exception:" + n
    )


def _show(lines) -> str:
    return " ".join(["ok"] + ["(" + " ".join(str(ord(c)) for c in l) + ")" for l in lines])


def _build_diag(d):
    """d = dict(level, span, title, label, message, children=[dict(level, span, label, message)])"""
    kw = {"t_": d["title"]}
    if d["label"] is not None:
        kw["l_"] = d["label"]
    if d["message"] is not None:
        kw["m_"] = d["message"]
    diag = _cls(True, d["level"], d["label"] is not None, d["message"] is not None)(_span(d["span"]), **kw)
    for c in d["children"]:
        kw = {}
        if c["label"] is not None:
            kw["l_"] = c["label"]
        if c["message"] is not None:
            kw["m_"] = c["message"]
        diag.add_sub_diagnostic(_cls(False, c["level"], c["label"] is not None, c["message"] is not None)(_span(c["span"]), **kw))
    return diag


def _real(req) -> str:
    import guppylang_internals.diagnostic as D
    from guppylang_internals.span import SourceMap

    try:
        if req["kind"] == "tospan":
            return _real_tospan(req)
        if req["kind"] == "hist":
            return _real_hist(req)
        if req["kind"] == "wrap":
            return _show(D.wrap(req["text"], req["width"], initial_indent=req["ii"], subsequent_indent=req["si"]))
        sm = SourceMap()
        sm.add_file(FILE, req["content"])
        r = D.DiagnosticsRenderer(sm)
        if req["kind"] == "snip":
            r.render_snippet(_span(req["span"]), req["label"], req["maxln"], bool(req["primary"]), req["prefix"])
        else:
            r.render_diagnostic(_build_diag(req["diag"]))
        return _show(r.buffer)
    except BaseException as e:  # noqa: BLE001
        return _exc(e)


_tospan_n = [0]


def _real_tospan(req) -> str:
    """drive the real span.to_span on an AST node whose file is registered in linecache"""
    import ast
    import linecache

    from guppylang_internals.ast_util import annotate_location
    from guppylang_internals.span import to_span

    _tospan_n[0] += 1
    fn = f"<verif-c29-{_tospan_n[0]}>"
    lines = req["lines"]
    linecache.cache[fn] = (sum(map(len, lines)), None, list(lines), fn)
    try:
        l1, b1, l2, b2 = req["pos"]
        node = ast.Pass()
        node.lineno, node.col_offset = l1, b1
        node.end_lineno, node.end_col_offset = (l2 or None), (b2 or None)
        annotate_location(node, "".join(lines), fn, 1)
        sp = to_span(node)
        return f"span {sp.start.line} {sp.start.column} {sp.end.line} {sp.end.column}"
    finally:
        linecache.cache.pop(fn, None)


def _real_hist(req) -> str:
    """one SourceMap sees a history of add_file calls (file names repeat, contents change), then renders"""
    import linecache

    import guppylang_internals.diagnostic as D
    from guppylang_internals.span import Loc, SourceMap, Span

    sm = SourceMap()
    touched = set()
    try:
        for op in req["ops"]:
            if op["op"] == "cache":
                touched.add(op["file"])
                linecache.cache[op["file"]] = (len(op["text"]), None, op["text"].splitlines(True), op["file"])
                sm.add_file(op["file"])
            else:
                sm.add_file(op["file"], op["text"])
        r = D.DiagnosticsRenderer(sm)
        l1, c1, l2, c2 = req["span"]
        sp = Span(Loc(req["file"], l1, c1), Loc(req["file"], l2, c2))
        r.render_snippet(sp, req["label"], req["maxln"], bool(req["primary"]), req["prefix"])
        return _show(r.buffer)
    finally:
        for f in touched:
            linecache.cache.pop(f, None)


def _hist_latest(req):
    """literal reading: the lines of the LATEST registration of the rendered file (None: never registered)"""
    cur = None
    for op in req["ops"]:
        if op["file"] == req["file"]:
            cur = [l.rstrip() for l in op["text"].splitlines(True)] if op["op"] == "cache" else op["text"].splitlines()
    return cur


# ------------------------------------------------------------------ protocol


def _codes(s) -> str:
    return "(" + " ".join(str(ord(c)) for c in s) + ")"


def _ostr(s) -> str:
    return "none" if s is None else _codes(s)


def _ospan(sp) -> str:
    return "none" if sp is None else "(" + " ".join(map(str, sp)) + ")"


def _line(req) -> str:
    if req["kind"] == "hist":
        ops = " ".join(
            f"(cache {_codes(o['file'])} ({' '.join(_codes(l) for l in o['text'].splitlines(True))}))" if o["op"] == "cache"
            else f"(content {_codes(o['file'])} {_codes(o['text'])})"
            for o in req["ops"]
        )
        return (
            f"(hist ({ops}) {_codes(req['file'])} {_ospan(req['span'])} {_ostr(req['label'])} {req['maxln']} "
            f"{int(req['primary'])} {req['prefix']})"
        )
    if req["kind"] == "tospan":
        return "(tospan (" + " ".join(_codes(l) for l in req["lines"]) + ") (" + " ".join(map(str, req["pos"])) + "))"
    if req["kind"] == "wrap":
        return f"(wrap {req['width']} {_codes(req['text'])} {_codes(req['ii'])} {_codes(req['si'])})"
    if req["kind"] == "snip":
        return (
            f"(snip {_codes(req['content'])} {_ospan(req['span'])} {_ostr(req['label'])} {req['maxln']} "
            f"{int(req['primary'])} {req['prefix']})"
        )
    d = req["diag"]
    ch = " ".join(f"({c['level']} {_ospan(c['span'])} {_ostr(c['label'])} {_ostr(c['message'])})" for c in d["children"])
    return (
        f"(diag {_codes(FILE)} {_codes(req['content'])} ({d['level']} {_ospan(d['span'])} {_codes(d['title'])} "
        f"{_ostr(d['label'])} {_ostr(d['message'])} ({ch})))"
    )


def _decode(reply: str):
    if reply.startswith("span"):
        return [reply]
    if not reply.startswith("ok"):
        return None
    return ["".join(chr(int(x)) for x in m.split()) for m in re.findall(r"\(([^()]*)\)", reply)]


# ------------------------------------------------------------------ oracle (reads the rendered text)

WS = " \t\n\r\x0b\x0c"


def _indent(l: str) -> int:
    return len(l) - len(l.lstrip(WS))


def _contig(needle, hay) -> bool:
    if not needle:
        return True
    n = len(needle)
    return any(hay[i : i + n] == needle for i in range(len(hay) - n + 1))


def _check_wrapped(text, lines, width, ii, si, errs, what):
    """`lines` is the wrapped rendering of `text`: words whole and in order, width respected."""
    words = [w for l in lines for w in l.split()]
    if words != text.split():
        errs.append(f"{what}: words of the text are not preserved whole and in order")
    for i, l in enumerate(lines):
        ind = ii if i == 0 else si
        if not l.startswith(ind):
            errs.append(f"{what}: line {i} lacks its indent")
            continue
        body = l[len(ind) :]
        if len(body) > width and len(body.split()) != 1:
            errs.append(f"{what}: line {i} longer than {width} and not a single word")


def _snippet_pre(lines, sp, prefix):
    """independent reading of the preconditions: returns (in_source, shift_safe, shown_numbers, remove)"""
    l1, c1, l2, c2 = sp
    if not (1 <= l1 <= l2 <= len(lines)):
        return False, False, [], 0
    pl = min(prefix, l1 - 1)
    block = lines[l1 - pl - 1 : l2]
    ci = min(_indent(l) for l in block)
    remove = ci - 4 if ci > 12 else 0
    in_source = c1 <= len(lines[l1 - 1]) and c2 <= len(lines[l2 - 1])
    shift_safe = remove <= c1 and remove <= c2
    shown = list(range(l1 - pl, l1 + 1)) + ([l2] if l2 != l1 else [])
    return in_source, shift_safe, shown, remove


def _check_snippet(out, lines, sp, label, maxln, primary, prefix, errs, what):
    """`out`: rendered lines of one snippet (list of str).  Re-derive numbers, columns, label."""
    in_source, shift_safe, shown, remove = _snippet_pre(lines, sp, prefix)
    if not (in_source and shift_safe):
        return "outside-precondition"
    if out is None:
        errs.append(f"{what}: rendering raised although the span is inside the source and shift-safe")
        return "raised"
    l1, c1, l2, c2 = sp
    ll = len(str(maxln))
    gut = re.compile(r"^( *)(\d*) \| (.*)$", re.S)
    parsed = []
    for o in out:
        m = gut.match(o)
        if not m or len(m.group(1)) + len(m.group(2)) != max(ll, len(m.group(2))):
            errs.append(f"{what}: malformed gutter in {o!r}")
            return "bad"
        parsed.append((int(m.group(2)) if m.group(2) else None, m.group(3)))
    numbered = [(k, b) for k, b in parsed if k is not None]
    # true line numbers, true (trimmed) content
    if [k for k, _ in numbered] != shown:
        errs.append(f"{what}: shown line numbers {[k for k, _ in numbered]} expected {shown}")
        return "bad"
    for k, b in numbered:
        srcl = lines[k - 1]
        if b != srcl[remove:] or srcl[:remove].strip(WS) != "":
            errs.append(f"{what}: line {k} shows {b!r}, source has {srcl!r} (remove={remove})")
    # markers: the line right after a numbered span line
    hl = "^" if primary else "-"
    idx = [i for i, (k, _) in enumerate(parsed) if k is not None]
    first_i = idx[len(shown) - (2 if l2 != l1 else 1)]
    last_i = idx[-1]

    def marker(i):
        return parsed[i + 1][1] if i + 1 < len(parsed) and parsed[i + 1][0] is None else None

    if l2 != l1:
        m = marker(first_i)
        exp = " " * (c1 - remove) + hl * (len(lines[l1 - 1]) - c1)
        if m != exp:
            errs.append(f"{what}: first-line markers {m!r} expected {exp!r}")
        a, b = 0, c2 - remove
    else:
        a, b = c1 - remove, c2 - remove
    m = marker(last_i)
    exp = " " * a + hl * (b - a)
    if m is None or not m.startswith(exp):
        errs.append(f"{what}: markers {m!r} expected to start with {exp!r}")
        return "bad"
    rest = [m[len(exp) :]] + [b_ for _, b_ in parsed[last_i + 2 :]]
    if label:
        if not rest[0].startswith(" "):
            errs.append(f"{what}: no space between markers and label")
        for r_ in rest[1:]:
            if not r_.startswith(" " * (len(exp) + 1)):
                errs.append(f"{what}: label continuation not aligned")
        _check_wrapped(label, [rest[0][1:]] + [r_[len(exp) + 1 :] for r_ in rest[1:]], 60, "", "", errs, what + " label")
    elif rest != [""]:
        errs.append(f"{what}: unexpected text after markers: {rest!r}")
    return "checked"


def _oracle(req, real_lines, real_reply, errs):
    """append to errs every way in which the REAL output violates the property's literal reading"""
    if req["kind"] == "tospan":
        # literal reading: a node that starts after `c1` characters of its line and ends after `c2`
        # characters of its line has exactly these columns
        if req.get("expect") is not None:
            want = "span " + " ".join(map(str, req["expect"]))
            if real_reply != want:
                errs.append(f"to_span gives `{real_reply}` for a node at character positions `{want}`")
        return
    if req["kind"] == "wrap":
        if real_lines is None:
            errs.append("wrap raised " + real_reply)
            return
        _check_wrapped(req["text"], real_lines, req["width"], req["ii"], req["si"], errs, "wrap")
        return
    if req["kind"] == "hist":
        lines = _hist_latest(req)
        if lines is None:
            if real_reply != "err key":
                errs.append(f"rendering a span of a never registered file gave {real_reply[:80]}")
            return
        _check_snippet(real_lines, lines, req["span"], req["label"], req["maxln"], req["primary"], req["prefix"], errs,
                       "snippet after re-registration")
        return
    lines = req["content"].splitlines()
    if req["kind"] == "snip":
        _check_snippet(real_lines, lines, req["span"], req["label"], req["maxln"], req["primary"], req["prefix"], errs, "snip")
        return
    d = req["diag"]
    spans = ([d["span"]] if d["span"] else []) + [c["span"] for c in d["children"] if c["span"] is not None and d["span"]]
    pres = [_snippet_pre(lines, s, 2 if i == 0 else 0) for i, s in enumerate(spans)]
    if not all(p[0] and p[1] for p in pres):
        return
    if real_lines is None:
        errs.append("render_diagnostic raised " + real_reply + " although all spans are inside the source and shift-safe")
        return
    out = list(real_lines)
    lvl = lambda l: l.capitalize()
    if d["span"] is None:
        msg = d["message"] or d["title"]
        head_text = f"{lvl(d['level'])}: {msg}"
        n = _take_wrapped(out, head_text, errs, "message")
    else:
        maxln = max(s[3 - 1] for s in spans)
        exp_title = f"{lvl(d['level'])}: {d['title']} (at {FILE}:{d['span'][0]}:{d['span'][1]})"
        if not out or out[0] != exp_title:
            errs.append(f"title line {out[:1]!r} expected {exp_title!r}")
            return
        out = out[1:]
        snips = [(d["span"], d["label"], True, 2)] + [(c["span"], c["label"], False, 0) for c in d["children"] if c["span"] is not None]
        for (sp, lab, prim, pfx), pre in zip(snips, pres):
            # a snippet = padding line, lines up to the last numbered line (len(shown) of them), its marker
            # line, then label continuation lines (blank gutter, NON-empty body; the next padding line has an empty body)
            pad = " " * len(str(maxln)) + " | "
            if not out or out[0] != pad:
                errs.append("snippet does not start with the padding line")
                return
            j, seen = 1, 0
            while j < len(out) and seen < len(pre[2]):
                if re.match(r"^ *\d+ \| ", out[j]):
                    seen += 1
                j += 1
            j += 1  # marker line of the last span line
            while j < len(out) and out[j].startswith(pad) and len(out[j]) > len(pad):
                j += 1
            _check_snippet(out[1:j], lines, sp, lab or None, maxln, prim, pfx, errs, f"snippet@{sp}")
            out = out[j:]
        if d["message"]:
            if not out or out[0] != "":
                errs.append("no blank line before the message")
                return
            out = out[1:]
            _take_wrapped(out, d["message"], errs, "message")
    for c in d["children"]:
        if c["message"]:
            if not out or out[0] != "":
                errs.append("no blank line before a sub-diagnostic message")
                return
            out = out[1:]
            _take_wrapped(out, f"{lvl(c['level'])}: {c['message']}", errs, "sub message")
    if out:
        errs.append(f"trailing output {out!r}")


def _take_wrapped(out, text, errs, what):
    """consume from `out` the lines that render `text` (as many lines as hold its words)"""
    want = text.split()
    got, n = [], 0
    # blank paragraphs render as empty lines: consume lines until the words are complete, then trailing
    # empty lines belonging to blank trailing paragraphs
    paras = text.splitlines() or [""]
    while n < len(out) and len(got) < len(want):
        got += out[n].split()
        n += 1
    lead = 0
    # leading/inner blank paragraphs were consumed above as empty lines; trailing ones follow
    trail = 0
    for p in reversed(paras):
        if p.strip() == "":
            trail += 1
        else:
            break
    if not want:
        trail = len(paras)
    k = 0
    while k < trail and n < len(out) and out[n] == "":
        n += 1
        k += 1
    if k != trail:
        errs.append(f"{what}: blank paragraphs not rendered as empty lines")
    _check_wrapped(text, out[:n], 80, "", "", errs, what)
    del out[:n]
    return n


# ------------------------------------------------------------------ generators

WORDCH = "abcdefgxyzABQ0189_.,:;!?()[]{}'\"/\\<>=+*#@é字😀"


def _word(rng, maxlen=12):
    n = rng.choice([1, 1, 2, 3, 4, 5, 6, 7, maxlen, rng.randrange(1, maxlen + 1)])
    w = "".join(rng.choice(WORDCH) for _ in range(n))
    if rng.random() < 0.15:
        w = w + "-" + "".join(rng.choice("abcxyz") for _ in range(rng.randrange(1, 8)))
    if rng.random() < 0.03:
        w = rng.choice(["-", "--", "non-copyable", "a-b-c-d", "x" * rng.randrange(55, 95)])
    return w


def _text(rng, nwords=None, breaks=True):
    nwords = rng.choice([0, 1, 2, 3, 5, 8, 14, 25, 40]) if nwords is None else nwords
    parts = []
    if rng.random() < 0.1:
        parts.append(rng.choice([" ", "  ", "\t", "\n", " \n"]))
    for i in range(nwords):
        parts.append(_word(rng, rng.choice([12, 12, 12, 30, 90])))
        r = rng.random()
        if i == nwords - 1 and r < 0.8:
            break
        if r < 0.75:
            parts.append(" ")
        elif r < 0.82:
            parts.append(rng.choice(["  ", "   ", "\t", " \t "]))
        elif breaks and r < 0.95:
            parts.append(rng.choice(["\n", "\n", "\n\n", "\r\n", "\r", "\x0b", "\x0c", "\x1c", "\x1d", "\x1e", "\x85", "\u2028", "\u2029", "\n \n", " \n", "\n  "]))
        else:
            parts.append(" ")
    return "".join(parts)


def _source(rng):
    n = rng.choice([1, 2, 3, 4, 6, 9, 12, 110])
    base = rng.choice([0, 0, 4, 8, 12, 13, 14, 16, 17, 20, 30])
    lines = []
    for _ in range(n):
        r = rng.random()
        if r < 0.06:
            lines.append("")
        elif r < 0.1:
            lines.append(" " * rng.randrange(1, 20))
        else:
            ind = base + rng.choice([0, 0, 0, 4, 8, 1, -1 if base else 0, -4 if base >= 4 else 0])
            indent = " " * ind if rng.random() < 0.93 else "\t" * (ind // 4) + " " * (ind % 4)
            body = " ".join(_word(rng) for _ in range(rng.randrange(1, 6)))
            lines.append(indent + body)
    sep = "\n" if rng.random() < 0.9 else rng.choice(["\r\n", "\r", "\x0c"])
    return sep.join(lines) + (sep if rng.random() < 0.5 else "")


def _tok_col(rng, line: str, end=False):
    """a column at a token boundary of `line`"""
    cols = [m.start() for m in re.finditer(r"\S+", line)] if not end else [m.end() for m in re.finditer(r"\S+", line)]
    return rng.choice(cols) if cols else 0


def _gen_span(rng, lines):
    n = len(lines)
    mode = rng.random()
    l1 = rng.randrange(1, n + 1) if n else 1
    if mode < 0.6 and n:  # token-based
        multi = rng.random() < 0.4 and l1 < n
        l2 = rng.randrange(l1 + 1, min(n, l1 + 4) + 1) if multi else l1
        c1 = _tok_col(rng, lines[l1 - 1])
        c2 = _tok_col(rng, lines[l2 - 1], end=True)
        if l1 == l2 and c2 < c1:
            c1, c2 = _tok_col(rng, lines[l1 - 1]), len(lines[l1 - 1])
            if c2 < c1:
                c2 = c1
        return (l1, c1, l2, c2)
    if mode < 0.85 and n:  # arbitrary inside the source
        l2 = rng.randrange(l1, min(n, l1 + 3) + 1)
        c1 = rng.randrange(0, len(lines[l1 - 1]) + 1)
        c2 = rng.randrange(0, len(lines[l2 - 1]) + 1)
        if l1 == l2 and c2 < c1:
            c1, c2 = c2, c1
        return (l1, c1, l2, c2)
    # anywhere (may leave the source)
    l2 = l1 + rng.choice([0, 0, 1, 2, 5])
    c1 = rng.randrange(0, 40)
    c2 = rng.randrange(0, 40)
    if l1 == l2 and c2 < c1:
        c1, c2 = c2, c1
    return (l1, c1, l2, c2)


def _label(rng):
    r = rng.random()
    if r < 0.2:
        return None
    if r < 0.25:
        return rng.choice(["", " ", "\n", "  \n "])
    return _text(rng, rng.choice([1, 2, 3, 6, 12, 20]), breaks=rng.random() < 0.3)


NONASCII = "é字ßπ😀ñ€"


def _gen_tospan(rng):
    n = rng.choice([1, 2, 3, 5])
    lines = []
    for _ in range(n):
        ind = " " * rng.choice([0, 4, 8, 16])
        toks = []
        for _ in range(rng.randrange(1, 6)):
            w = _word(rng, 8)
            if rng.random() < 0.5:
                w = "".join(rng.choice(NONASCII) if rng.random() < 0.4 else ch for ch in w) or rng.choice(NONASCII)
            toks.append(w)
        lines.append(ind + " ".join(toks) + rng.choice(["\n", "\n", "\n", "\r\n", ""]))
    l1 = rng.randrange(1, n + 1)
    l2 = rng.randrange(l1, n + 1)
    t1, t2 = lines[l1 - 1].rstrip("\r\n"), lines[l2 - 1].rstrip("\r\n")
    if rng.random() < 0.8:  # character boundaries (what `ast` reports)
        c1 = rng.randrange(0, len(t1) + 1)
        c2 = rng.randrange(c1 if l1 == l2 else 0, len(t2) + 1)
        b1, b2 = len(t1[:c1].encode()), len(t2[:c2].encode())
        same = l1 == l2 and rng.random() < 0.3
        pos = (l1, b1, 0 if same else l2, b2)
        # `end_col_offset or col_offset`: an end offset 0 falls back to the start offset
        exp = (l1, c1, l2, c2 if b2 else len(t2.encode()[:b1].decode(errors="ignore"))) if (b2 or l1 == l2) else None
        if exp is not None and (exp[2], exp[3]) < (exp[0], exp[1]):
            exp = None
        return {"kind": "tospan", "lines": lines, "pos": pos, "expect": exp}
    pos = (l1, rng.randrange(0, len(t1.encode()) + 4), rng.choice([0, l2, l2, n + 1]), rng.randrange(0, len(t2.encode()) + 4))
    return {"kind": "tospan", "lines": lines, "pos": pos, "expect": None}


HIST_FILES = ["<cell-1>", "mod.py", "<cell-2>"]


def _gen_hist(rng):
    ops = []
    for _ in range(rng.choice([1, 2, 2, 3, 4, 6])):
        ops.append({"op": rng.choice(["cache", "cache", "content"]), "file": rng.choice(HIST_FILES[:2] if rng.random() < 0.8 else HIST_FILES),
                    "text": _source(rng)})
    file = rng.choice([o["file"] for o in ops]) if rng.random() < 0.93 else HIST_FILES[2]
    # aim the span at the latest text of the file (sometimes at an older, longer one)
    texts = [o["text"] for o in ops if o["file"] == file] or [_source(rng)]
    aim = texts[-1] if rng.random() < 0.8 else rng.choice(texts)
    return {"kind": "hist", "ops": ops, "file": file, "span": _gen_span(rng, [l.rstrip() for l in aim.splitlines()]),
            "label": _label(rng), "maxln": 1, "primary": rng.random() < 0.5, "prefix": rng.choice([0, 2])}


def _gen(rng):
    k = rng.random()
    if k < 0.08:
        return _gen_tospan(rng)
    if k < 0.16:
        r = _gen_hist(rng)
        r["maxln"] = r["span"][2]
        return r
    if k < 0.3:
        return {
            "kind": "wrap",
            "text": _text(rng),
            "width": rng.choice([1, 2, 5, 10, 20, 60, 80, rng.randrange(1, 81)]),
            "ii": rng.choice(["", "", " ", "   "]),
            "si": rng.choice(["", "", "  ", " " * rng.randrange(0, 30)]),
        }
    content = _source(rng)
    lines = content.splitlines()
    if k < 0.6:
        sp = _gen_span(rng, lines)
        return {
            "kind": "snip",
            "content": content,
            "span": sp,
            "label": _label(rng),
            "maxln": rng.choice([sp[2], sp[2], sp[2] + rng.choice([0, 7, 95, 1000])]),
            "primary": rng.random() < 0.5,
            "prefix": rng.choice([0, 0, 1, 2, 2, 3]),
        }
    main_span = _gen_span(rng, lines) if rng.random() < 0.9 else None
    lab = _label(rng) if main_span else None
    msg = rng.choice([None, None, "", _text(rng)])
    children = []
    for _ in range(rng.choice([0, 0, 1, 1, 2, 3])):
        csp = _gen_span(rng, lines) if rng.random() < 0.6 else None
        clab = _label(rng) if csp else None
        children.append({"level": rng.choice(["note", "help", "note", "warning"]), "span": csp, "label": clab,
                         "message": rng.choice([None, "", _text(rng, rng.choice([1, 3, 9, 20]))])})
    return {
        "kind": "diag",
        "content": content,
        "diag": {"level": rng.choice(LEVELS[:3] + ["error", "error"]), "span": main_span, "title": _text(rng, rng.choice([0, 1, 3, 6]), breaks=False),
                 "label": lab, "message": msg, "children": children},
    }


# ------------------------------------------------------------------ tie


def _load_corpus():
    reqs = []
    d = os.path.join(vlib.VERIF, "corpus", "c29")
    if os.path.isdir(d):
        for fn in sorted(os.listdir(d)):
            if fn.endswith(".json"):
                for r in json.load(open(os.path.join(d, fn))):
                    reqs.append(_norm(r))
    return reqs


def _norm(r):
    """JSON round trip turns tuples into lists"""
    def sp(x):
        return None if x is None else tuple(x)
    r = dict(r)
    if "pos" in r:
        r["pos"] = tuple(r["pos"])
        r["expect"] = sp(r.get("expect"))
    if "span" in r:
        r["span"] = sp(r["span"])
    if "diag" in r:
        d = dict(r["diag"])
        d["span"] = sp(d["span"])
        d["children"] = [dict(c, span=sp(c["span"])) for c in d["children"]]
        r["diag"] = d
    return r


def _nontrivial(req, real_lines):
    if real_lines is None:
        return False
    if req["kind"] == "wrap":
        return len(real_lines) >= 2
    if req["kind"] == "tospan":
        return not all(l.isascii() for l in req["lines"])
    if req["kind"] == "hist":
        # non-trivial: the rendered file was registered at least twice with different texts
        texts = [o["text"] for o in req["ops"] if o["file"] == req["file"]]
        return len(set(texts)) >= 2
    lines = req["content"].splitlines()
    spans = []
    if req["kind"] == "snip":
        spans = [(req["span"], req["label"], req["prefix"])]
    else:
        d = req["diag"]
        if d["span"]:
            spans = [(d["span"], d["label"], 2)] + [(c["span"], c["label"], 0) for c in d["children"] if c["span"]]
    for sp, lab, pfx in spans:
        pre = _snippet_pre(lines, sp, pfx)
        if pre[3] > 0 or sp[0] != sp[2] or lab:
            return True
    return False


def _gen_prog(rng):
    """a Guppy function whose first error is an undefined name preceded on its line by non-ASCII text;
    returns (source without prelude, 1-based line of the token within it, token)"""
    tok = rng.choice(["undefined_name", "zz", "missing_" + rng.choice("abc"), "nö_such", "値"])
    na = "".join(rng.choice(NONASCII + "ab ") for _ in range(rng.randrange(0, 6)))
    depth = rng.choice([0, 0, 1, 3, 4])
    pre = rng.choice([f's = "{na}"; ', f'ü{rng.randrange(9)} = 1; ', f'é = "{na}"; ü = 2; ', ""])
    form = rng.choice(["x = {t}", "x = 1 + {t}", "x = ({t}, 2)", "return {t}"])
    post = rng.choice(["", "  # " + na, " + 1" if "return" not in form else ""])
    body = []
    ind = "    "
    for d in range(depth):
        body.append(ind + "if True:")
        ind += "    "
    body.append(ind + pre + form.format(t=tok) + post)
    src = "@guppy\ndef f() -> int:\n" + "\n".join(body) + "\n    return 0\n"
    return src, 2 + len(body), tok


def _prog_cases(ctx, n):
    """real programs through check(): the span of the reported error must sit on the token; returns snip
    requests (rendered three-way by the main loop) built from the REAL spans"""
    import feed
    from guppylang_internals.span import to_span

    out = []
    for _ in range(n):
        src, rel_line, tok = _gen_prog(ctx.rng)
        m = feed.load(src)
        try:
            full = feed.PRELUDE + src
            kind, err = feed.check_outcome(m.f)
            d = getattr(err, "error", None)
            if kind != "user" or d is None or d.span is None:
                ctx.count("prog:" + src, nontrivial=False, kind="prog:" + kind)
                continue
            sp = to_span(d.span)
            line_no = feed.PRELUDE.count("\n") + rel_line
            text = full.splitlines()[line_no - 1]
            c = text.index(tok)
            want = (line_no, c, line_no, c + len(tok))
            got = (sp.start.line, sp.start.column, sp.end.line, sp.end.column)
            ctx.count("prog:" + src, nontrivial=not text[:c].isascii(), kind="prog:" + type(d).__name__)
            if got != want:
                ctx.violation(
                    "prog:" + src,
                    f"error span of `{tok}` is {got}, the token is at {want} (characters) on line {text!r}",
                    {"program": full, "token": tok, "span": got, "expected": want},
                )
            label = d.rendered_span_label
            out.append({"kind": "snip", "content": full, "span": got, "label": label, "maxln": got[2],
                        "primary": True, "prefix": 2})
        except Exception as e:  # noqa: BLE001
            ctx.count("prog:" + src, nontrivial=False, kind="prog:harness-" + type(e).__name__)
        finally:
            feed.unload(m)
    return out


def tie(ctx):
    reqs = _load_corpus()
    ncorpus = len(reqs)
    reqs += _prog_cases(ctx, ctx.n(60, 600))
    if ctx.replay_in and "request" in ctx.replay_in.get("replay", {}):
        reqs.append(_norm(ctx.replay_in["replay"]["request"]))
    n = ctx.n(3000, 60000)
    for _ in range(n):
        reqs.append(_gen(ctx.rng))
    lines = [_line(r) for r in reqs]
    model = ctx.driver(DRIVER, lines)
    outside = 0
    for i, (req, line, m) in enumerate(zip(reqs, lines, model)):
        real = _real(req)
        real_lines = _decode(real)
        errs: list = []
        try:
            _oracle(req, real_lines, real, errs)
        except Exception as e:  # noqa: BLE001
            errs.append(f"oracle could not read the rendered text: {e!r}")
        kind = req["kind"] + ":" + (real if real_lines is None else "ok")
        ctx.count(line, nontrivial=_nontrivial(req, real_lines), kind=kind)
        if errs:
            ctx.violation(
                "input:" + line,
                f"rendering violates the property on a {req['kind']} request: {errs[0]}",
                {"request": req, "line": line, "real": real_lines if real_lines is not None else real, "errors": errs, "model": m},
            )
        if real != m:
            ctx.broke(f"correspondence Model/Render.lean vs diagnostic.py on request #{i} `{line[:200]}` (real={real[:200]} model={m[:200]})")
            if not errs:
                ctx.extra.setdefault("first_mismatch", {"request": req, "real": real, "model": m})
    ctx.extra["corpus_cases"] = ncorpus


if __name__ == "__main__":
    vlib.main(sys.modules[__name__])
