"""C20 — Quantum operations implement their documented gates (partial: simulator matrices unmodelled).

translate(): regenerates lean/GuppyVerif/Gen/C20GateTable.lean from the source AST of
std/quantum/__init__.py, std/qsystem/__init__.py (+ the imported definition objects): per library
function -> parameter kinds, binding (single op via OpCompiler / RotationCompiler / measure compilers,
or a straight-line Guppy body given as the list of calls it makes).
tie(): (T-obj) lowers one probe per table row and per permutation of the actual arguments with the real
compiler and re-derives from the Hugr wiring which op is applied to which caller qubit on which port and how
each angle reaches the op; compares with the Lean model's `emit` over the regenerated table (driver) and with
the documented-name oracle.  (T-exec) runs the real bodies of std/angles.py under CPython on exact rationals
against the Lean angle model and an independent oracle; also lowers every angle method and compares the
float-op tree in the Hugr with the tree obtained by running the same body symbolically under CPython.
"""
from __future__ import annotations

import ast
import inspect
import itertools
import json
import math
import os
import sys
import types
from fractions import Fraction

sys.path.insert(0, os.path.dirname(os.path.dirname(os.path.abspath(__file__))))
import vlib

PID = "C20"
THEOREM_MODULES = ["GuppyVerif.Props.C20"]
DRIVER = "C20"
RULE = (
    "Scope: every top-level function of every module found under std/quantum/ and std/qsystem/ (functional.py wrappers "
    "included; random/utils/wasm enumerated as unmodelled utilities) + the methods of `qubit`: 76 rows.  "
    "T-obj: one lowered probe per (table row, assignment of distinct caller qubits/angles to the row's parameters): "
    "quick = identity + reversed + one random permutation, thorough = every permutation of qubit and of angle "
    "arguments; non-trivial = the probe emits at least one quantum op and was compared on op name, extension, "
    "per-port qubit wiring, output wiring and angle path; distinct by (row, permutation).  T-exec: every method of "
    "std.angles.angle run under CPython on random exact rationals (biased to 0, +-1, small dyadics) against the Lean "
    "model; non-trivial = all operands non-zero; plus one symbolic Hugr-vs-CPython tree comparison per method.  "
    "Execution oracle: generated circuits (every fixed 1-qubit gate, rotations with special angles and angle arithmetic, "
    "cx/cy/cz/ch/crz/zz_phase/zz_max with the qubits in every order on 3 qubits, toffoli in every order on 3 and 4 qubits, "
    "12 / 600 random circuits of 6-14 gates on 2-4 qubits) lowered by the real compiler, run on the reference interpreter from "
    "a random and the |0..0> state for 2 / 4 parameter sets and compared up to global phase with the documented matrices; "
    "every systematic circuit also in functional style (`q0, q1 = quantum_functional.cy(q0, q1)` on owned qubits returned as a "
    "tuple; state read in the order of the returned qubits), every other random circuit mixes both styles; "
    "17 measurement-like functions (6 functional wrappers) on basis and random states with forced outcomes; distinct by "
    "(source hash, parameters, initial state)"
)
ASSUMPTIONS = [
    "float64 arithmetic is read as exact arithmetic in a field (rationals in the tie, any field in the theorems); "
    "rounding, overflow, NaN/inf and IEEE division by zero are outside the model (division by zero is modelled as an error)",
    "tket.* op semantics are assumed: a quantum op's k-th qubit output is the new state of its k-th qubit input; "
    "tket.rotation.from_halfturns_unchecked(h) is the rotation by h half turns; tket.quantum.Rx/Ry/Rz/CRz read their "
    "rotation operand as the documented theta = halfturns*pi; tket.qsystem.Rz/PhasedX/ZZPhase read float operands in radians",
    "the gate matrices and the projective measurement semantics of the tket ops are those of the reference interpreter "
    "harness/hugr_interp.py (numpy state vector; validated against the real 1.0.4 emulator only on deterministic circuits of "
    "H X Y Z S T V Rx Ry Rz CX CZ Toffoli Reset QAlloc QFree MeasureFree, see notes/INTERP.md): an assumption.  Once per run "
    "every interpreter matrix is compared (all basis states, programs built with the hugr builder) with the hand-written "
    "documented table of c20_exec.py; a disagreement is reported in evidence (`interp_vs_documented`) and the affected functions "
    "are left out of the execution oracle, it is not a /repo violation",
    "tket.qsystem Rz / PhasedX / ZZPhase read their float operands in RADIANS (both /repo's and upstream's std/qsystem pass "
    "float(angle) = halfturns*pi; tket2-hseries lowers the same way); the shipped interpreter reads them as half turns, "
    "c20_exec.py rescales these operands in-process when the cross-check detects that reading (`interp_qsystem_radians_override`)",
    "Guppy's claim that a straight-line Guppy body means what the same Python means (C03) for the bodies of angles.py, "
    "checked here only by comparing the lowered float-op tree with the tree traced under CPython",
    "substituting actual arguments for formal parameters is how a call to a Guppy-bodied library function behaves "
    "(model `emit`); checked on every permutation probe, not proved about the compiler",
]
UNMODELLED = [
    "gate matrices inside the real simulator and its measurement semantics: not modelled in Lean; checked by EXECUTING the real "
    "lowering on the reference interpreter against the documented matrices / projective Z-basis semantics (sampling; the "
    "interpreter's own matrices are an assumption, cross-checked against the documented table on every run)",
    "measure_array, discard_array, measure_leaked and MaybeLeaked methods (loop / struct bodies: listed as opaque rows)",
    "std/qsystem/random.py, utils.py, wasm.py (non-quantum utilities: top-level functions enumerated for coverage only; "
    "methods of RNG / DiscreteDistribution not enumerated)",
    "floating-point rounding in angle arithmetic",
]
TRUSTED_EXTRA = [
    "the AST reader of harness/props/c20.py (cross-checked against the imported definition objects and against lowered probes)",
    "the Hugr wiring reader of harness/props/c20.py (symbolic forward evaluation of single-block function bodies, calls inlined)",
    "harness/hugr_interp.py (reference interpreter, shared) and harness/props/c20_exec.py (documented numeric matrices written "
    "by hand from the docstrings, index-loop state-vector oracle, circuit generator)",
    "local shim adding the ops `Measure`/`MeasureReset` (absent from tket-exts 0.14.2) to the tket.qsystem extension "
    "object so that /repo's std/qsystem imports",
]
MANIFEST = {
    "level_text": "Lean theorems over the gate table regenerated from /repo on every run: every documented gate function "
    "(18 tket.quantum gates, 6 qsystem gate bindings, 14 alloc/measure/reset bindings; ch and zz_max as body "
    "decompositions; the 21 + 8 functional wrappers of std/quantum/functional.py and std/qsystem/functional.py apply what "
    "their in-place namesake applies to the same arguments and return their qubits in declaration order) emits exactly the op of its documented name with the caller's qubits on the op's ports in "
    "declaration order for ALL actual arguments (unbounded), rotations pass halfturns unscaled through "
    "from_halfturns_unchecked, qsystem gates pass halfturns*pi; table and spec cover each other; angle arithmetic "
    "(+,-,neg,*,/,float,==, constant pi) is a homomorphism into radians over any field; CH = Ry(pi/4) CZ Ry(-pi/4) as "
    "real 4x4 matrices. Table tied by lowering a probe per row and argument permutation and reading op + wiring from the Hugr; "
    "angle model tied by executing angles.py bodies under CPython on exact rationals. Execution oracle (search, not proof): "
    "generated circuits incl. all qubit orders, angle arithmetic, negative and multi-turn angles, qsystem natives, and "
    "measure/reset/project_z with forced outcomes are lowered by the real compiler and executed on the reference HUGR "
    "interpreter; final states equal the product of the documented matrices up to global phase (1e-9).",
    "level_note": "Partial: the real simulator's gate matrices and measurement semantics are not modelled in Lean; they are "
    "represented by the reference interpreter (assumed; cross-checked per run against the hand-written documented table; "
    "qsystem float operands read as radians) and compared by execution on sampled circuits; float rounding not modelled; tket op "
    "port semantics assumed. Trusted: Lean kernel, the AST/Hugr readers in harness/props/c20.py, the documented-gate spec table "
    "Spec/C20.lean. The T-obj tie is exhaustive over rows x permutations (thorough tier), the T-exec tie is sampling.",
    "technique": "Lean 4 proof over a table regenerated from source (T-src) + extraction from real lowering (T-obj) + CPython execution of std bodies (T-exec) + execution of lowered circuits on the reference HUGR interpreter against documented matrices",
    "design_ref": "DESIGN.md §5 C20",
    "ready": True,
}

GEN_REL = os.path.join("GuppyVerif", "Gen", "C20GateTable.lean")
FUEL = 4


# --------------------------------------------------------------------------- import of /repo's std
def _shim_qsystem():
    """tket-exts 0.14.2 dropped qsystem.Measure / MeasureReset that /repo's std/qsystem binds at import."""
    import hugr.tys as ht
    from hugr import ext as he
    from guppylang_internals.std._internal.compiler import tket_exts as T

    E = T.QSYSTEM_EXTENSION
    bt = T.BOOL_EXTENSION.get_type("bool").instantiate([])
    for name, ins, outs in (("Measure", [ht.Qubit], [bt]), ("MeasureReset", [ht.Qubit], [ht.Qubit, bt])):
        if name not in E.operations:
            E.add_op_def(he.OpDef(name=name, description=name, signature=he.OpDefSig(ht.FunctionType(ins, outs))))


_std = None


def _load_std():
    global _std
    if _std is None:
        import bootstrap

        bootstrap.install()
        _shim_qsystem()
        import guppylang.std.angles as A
        import guppylang.std.quantum as Q
        import guppylang.std.qsystem as QS

        _std = {"quantum": Q, "qsystem": QS, "angles": A}
    return _std


def _std_dir():
    import bootstrap

    return os.path.join(bootstrap.REPO, "guppylang", "src", "guppylang", "std")


def _src_path(modl):
    if modl == "angles":
        return os.path.join(_std_dir(), "angles.py")
    pkg, _, sub = modl.partition(".")
    return os.path.join(_std_dir(), pkg, (sub or "__init__") + ".py")


def list_modules():
    """every module of the packages guppylang.std.quantum and guppylang.std.qsystem found in the source tree under check:
    ["quantum", "quantum.functional", "qsystem", "qsystem.functional", ...] (packages first, then sorted submodules)"""
    out = []
    for pkg in ("quantum", "qsystem"):
        d = os.path.join(_std_dir(), pkg)
        out.append(pkg)
        for root, dirs, files in os.walk(d):
            dirs[:] = sorted(x for x in dirs if x != "__pycache__")
            rel = os.path.relpath(root, d)
            prefix = pkg if rel == "." else pkg + "." + rel.replace(os.sep, ".")
            for f in sorted(files):
                if f.endswith(".py") and f != "__init__.py":
                    out.append(prefix + "." + f[:-3])
                elif f == "__init__.py" and rel != ".":
                    out.append(prefix)
    return out


def _module(modl):
    import importlib

    _load_std()
    return importlib.import_module("guppylang.std." + modl)


def _src_of(modl):
    pkg_init = os.path.join(_std_dir(), *modl.split("."), "__init__.py")
    if os.path.exists(pkg_init):
        return pkg_init
    return os.path.join(_std_dir(), *modl.split(".")) + ".py"


QUANTUM_MODULES = ("quantum", "qsystem", "quantum.functional", "qsystem.functional")  # bodies are read; others: names only


# --------------------------------------------------------------------------- T-src translator
class Unsupported(Exception):
    pass


def _pty(ann):
    """parameter kind from its annotation AST"""
    if isinstance(ann, ast.Constant) and isinstance(ann.value, str):
        try:
            ann = ast.parse(ann.value, mode="eval").body
        except SyntaxError:
            return "other"
    if isinstance(ann, ast.BinOp) and isinstance(ann.op, ast.MatMult):
        base = _pty(ann.left)
        if base == "qubit" and isinstance(ann.right, ast.Name) and ann.right.id == "owned":
            return "qubitOwned"
        return "other"
    if isinstance(ann, ast.Name):
        return {"qubit": "qubit", "angle": "angle", "float": "float"}.get(ann.id, "other")
    return "other"


def _dec_name(d):
    f = d.func if isinstance(d, ast.Call) else d
    if isinstance(f, ast.Attribute):
        return f.attr
    return f.id if isinstance(f, ast.Name) else "?"


def _quantum_op_args(call, mod):
    """`quantum_op("X"[, ext=E])` -> qualified op name"""
    from guppylang_internals.std._internal.util import quantum_op

    if not (isinstance(call, ast.Call) and _dec_name(call) == "quantum_op"):
        raise Unsupported("not quantum_op(...)")
    name = call.args[0].value
    ext = None
    if len(call.args) > 1:
        ext = call.args[1]
    for kw in call.keywords:
        if kw.arg == "ext":
            ext = kw.value
    if ext is None:
        extname = inspect.signature(quantum_op).parameters["ext"].default.name
    else:
        extname = getattr(mod, ext.id).name
    return f"{extname}.{name}"


def _binding_from_decorators(fn, mod):
    decs = [d for d in fn.decorator_list if _dec_name(d) != "no_type_check"]
    if len(decs) != 1:
        raise Unsupported("decorators")
    d = decs[0]
    n = _dec_name(d)
    if n == "guppy" and not isinstance(d, ast.Call):
        return ("guppy",)
    if n == "hugr_op":
        return ("direct", _quantum_op_args(d.args[0], mod))
    if n == "custom_function":
        c = d.args[0]
        cn = _dec_name(c)
        if cn == "RotationCompiler":
            from guppylang_internals.std._internal.compiler.quantum import QUANTUM_EXTENSION

            return ("rotation", f"{QUANTUM_EXTENSION.name}.{c.args[0].value}")
        if cn in ("InoutMeasureCompiler", "InoutMeasureResetCompiler"):
            from guppylang_internals.std._internal.compiler.quantum import QUANTUM_EXTENSION

            opname = c.args[0].value if c.args else "Measure"
            extname = getattr(mod, c.args[1].id).name if len(c.args) > 1 else QUANTUM_EXTENSION.name
            return ("measure" if cn == "InoutMeasureCompiler" else "measureReset", f"{extname}.{opname}")
    raise Unsupported("decorator " + n)


def _binding_from_object(raw):
    """the same fact read from the registered definition object"""
    cc = getattr(raw, "call_compiler", None)
    if cc is None:
        return ("guppy",)
    cn = type(cc).__name__
    if cn == "OpCompiler":
        cells = dict(zip(cc.op.__code__.co_freevars, cc.op.__closure__ or ()))
        od = cells["op_def"].cell_contents
        return ("direct", od.qualified_name())
    if cn == "RotationCompiler":
        from guppylang_internals.std._internal.compiler.quantum import QUANTUM_EXTENSION

        return ("rotation", f"{QUANTUM_EXTENSION.name}.{cc.opname}")
    if cn == "InoutMeasureCompiler":
        return ("measure", f"{cc.ext.name}.{cc.opname}")
    if cn == "InoutMeasureResetCompiler":
        return ("measureReset", f"{cc.ext.name}.{cc.opname}")
    return ("unknown:" + cn,)


def _body_calls(fn, params, mod, modl, keyof):
    """straight-line Guppy body -> (list of (callee key, [arg expr]), [returned expr]); raises Unsupported otherwise.
    `("res", j)` is the value returned by the j-th call of the body."""
    import types as _types

    std = _load_std()
    env = {}
    calls = []

    def callee_of(f):
        if isinstance(f, ast.Name):
            return getattr(mod, f.id, None)
        if isinstance(f, ast.Attribute) and isinstance(f.value, ast.Name):
            m = getattr(mod, f.value.id, None)
            if isinstance(m, _types.ModuleType):
                return getattr(m, f.attr, None)
        return None

    def call(c):
        if not isinstance(c, ast.Call) or c.keywords:
            raise Unsupported("call form")
        target = callee_of(c.func)
        k = keyof.get(getattr(target, "id", None))
        if k is None:
            raise Unsupported("callee " + ast.unparse(c.func))
        calls.append((k, [exp(a) for a in c.args]))
        return ("res", len(calls) - 1)

    def exp(e):
        if isinstance(e, ast.Name):
            if e.id in env:
                return env[e.id]
            if e.id in params:
                return ("p", params.index(e.id))
            if e.id == "pi" and getattr(mod, "pi", None) is std["angles"].pi:
                return ("pi",)
            raise Unsupported("name " + e.id)
        if isinstance(e, ast.Call) and isinstance(e.func, ast.Name) and e.func.id == "float" and len(e.args) == 1:
            return ("toFloat", exp(e.args[0]))
        if isinstance(e, ast.UnaryOp) and isinstance(e.op, ast.USub):
            return ("neg", exp(e.operand))
        if isinstance(e, ast.BinOp) and isinstance(e.right, ast.Constant) and type(e.right.value) is int and e.right.value > 0:
            if isinstance(e.op, ast.Div):
                return ("divN", exp(e.left), e.right.value)
            if isinstance(e.op, ast.Mult):
                return ("mulN", exp(e.left), e.right.value)
        if isinstance(e, ast.BinOp) and isinstance(e.op, ast.Mult) and isinstance(e.left, ast.Constant) and type(e.left.value) is int and e.left.value > 0:
            return ("mulN", exp(e.right), e.left.value)
        if isinstance(e, ast.Call):
            return call(e)
        raise Unsupported(ast.dump(e)[:60])

    returns = []
    body = list(fn.body)
    if body and isinstance(body[0], ast.Expr) and isinstance(body[0].value, ast.Constant):
        body = body[1:]
    for i, st in enumerate(body):
        if isinstance(st, ast.Assign) and len(st.targets) == 1 and isinstance(st.targets[0], ast.Name):
            env[st.targets[0].id] = exp(st.value)
        elif isinstance(st, ast.Expr) and isinstance(st.value, ast.Call):
            call(st.value)
        elif isinstance(st, ast.Return) and st.value is not None and i == len(body) - 1:
            if isinstance(st.value, ast.Tuple):
                returns = [exp(x) for x in st.value.elts]
            else:
                returns = [exp(st.value)]
        else:
            raise Unsupported(type(st).__name__)
    return calls, returns


PY_HELPERS: list = []
AST_UNREAD: list = []


def read_table(ctx=None):
    """-> (rows, problems).  row = dict(modl,name,params,pnames,ret,binding,doc)"""
    std = _load_std()
    from guppylang_internals.engine import DEF_STORE

    problems = []
    del PY_HELPERS[:]
    del AST_UNREAD[:]
    found = []  # (modl, name, FunctionDef, definition object)
    for modl in list_modules():
        try:
            mod = _module(modl)
        except Exception as e:  # noqa: BLE001
            problems.append(f"translator: module guppylang.std.{modl} does not import: {type(e).__name__}: {str(e)[:100]}")
            continue
        tree = ast.parse(open(_src_of(modl)).read())
        for node in tree.body:
            if isinstance(node, ast.FunctionDef):
                obj = getattr(mod, node.name, None)
                if (node.name.startswith("_") and not node.decorator_list and getattr(obj, "id", None) is None
                        and inspect.isfunction(obj)):
                    # an undecorated private plain-Python helper (e.g. a decorator factory): not callable from
                    # Guppy code, not part of the library's surface; counted, not modelled
                    PY_HELPERS.append(f"{modl}.{node.name}")
                    continue
                found.append((modl, node.name, node, obj))
            elif isinstance(node, ast.ClassDef) and node.name == "qubit" and modl == "quantum":
                impls = DEF_STORE.impls.get(mod.qubit.id, {})
                for sub in node.body:
                    if isinstance(sub, ast.FunctionDef):
                        did = impls.get(sub.name)

                        class _O:  # minimal object with .id
                            id = did

                        found.append((modl, "qubit." + sub.name, sub, _O if did is not None else None))
    keyof = {}
    for modl, name, _fn, obj in found:
        if obj is not None and getattr(obj, "id", None) is not None:
            keyof.setdefault(obj.id, (modl, name))
    rows = []
    for modl, name, fn, obj in found:
        mod = _module(modl)
        pnames = [a.arg for a in fn.args.args]
        params = [_pty(a.annotation) for a in fn.args.args]
        ret = ast.unparse(fn.returns) if fn.returns is not None else ""
        if isinstance(fn.returns, ast.Constant) and isinstance(fn.returns.value, str):
            ret = fn.returns.value
        row = {"modl": modl, "name": name, "params": params, "pnames": pnames, "ret": ret,
               "doc": ast.get_docstring(fn) or "", "returns": []}
        if modl not in QUANTUM_MODULES:
            # utility modules (random numbers, wasm, shot number): enumerated so that additions are noticed, not modelled
            if obj is None or getattr(obj, "id", None) is None:
                problems.append(f"translator: no registered definition object for {modl}.{name}")
            row["binding"] = ("opaque", "utility module")
            rows.append(row)
            continue
        try:
            b = _binding_from_decorators(fn, mod)
        except Unsupported as e:
            b = ("unsupported:" + str(e),)
        if obj is None or getattr(obj, "id", None) is None or obj.id not in DEF_STORE.raw_defs:
            problems.append(f"translator: no registered definition object for {modl}.{name}")
            bo = b
        else:
            bo = _binding_from_object(DEF_STORE.raw_defs[obj.id])
        if b != bo:
            if b[0].startswith("unsupported:decorator") and bo[0] in ("direct", "rotation", "measure", "measureReset", "guppy"):
                # the decorator is spelled in a way the AST reader does not know (e.g. through a helper);
                # the registered definition object is what the compiler uses, and every probe below is
                # lowered and executed against the documented gate anyway
                AST_UNREAD.append(f"{modl}.{name}")
            else:
                problems.append(f"translator: source AST says {b} but the definition object says {bo} for {modl}.{name}")
            b = bo  # the object is what the compiler uses
        if b[0] == "guppy":
            try:
                calls, returns = _body_calls(fn, pnames, mod, modl, keyof)
                row["binding"] = ("body", calls)
                row["returns"] = returns
            except Unsupported as e:
                row["binding"] = ("opaque", str(e))
        elif b[0] in ("direct", "rotation", "measure", "measureReset"):
            row["binding"] = b
        else:
            row["binding"] = ("opaque", b[0])
        rows.append(row)
    return rows, problems


def _lean_str(s):
    return '"' + s.replace("\\", "\\\\").replace('"', '\\"') + '"'


def _lean_exp(e):
    k = e[0]
    if k == "p":
        return f"(.p {e[1]})"
    if k == "pi":
        return ".pi"
    if k == "neg":
        return f"(.neg {_lean_exp(e[1])})"
    if k in ("divN", "mulN"):
        return f"(.{k} {_lean_exp(e[1])} {e[2]})"
    if k == "toFloat":
        return f"(.toFloat {_lean_exp(e[1])})"
    if k == "res":
        return f"(.res {e[1]})"
    raise AssertionError(e)


def _lean_row(r):
    b = r["binding"]
    if b[0] == "body":
        calls = ", ".join(
            f"⟨{_lean_str(k[0])}, {_lean_str(k[1])}, [{', '.join(_lean_exp(a) for a in args)}]⟩" for k, args in b[1]
        )
        bs = f".body [{calls}]"
    elif b[0] == "opaque":
        bs = ".opaque"
    else:
        bs = f".{b[0]} {_lean_str(b[1])}"
    ps = ", ".join("." + p for p in r["params"])
    rs = ", ".join(_lean_exp(e) for e in r.get("returns", []))
    return f"  ⟨{_lean_str(r['modl'])}, {_lean_str(r['name'])}, [{ps}], {_lean_str(r['ret'])}, {bs}, [{rs}]⟩"


def _pi_halfturns():
    """halfturns of the constant `pi` of std.angles, as an exact fraction, from the definition object"""
    from guppylang_internals.engine import DEF_STORE

    A = _load_std()["angles"]
    v = DEF_STORE.raw_defs[A.pi.id].value
    return Fraction(v.vals[0].v)


def gen_text(rows):
    pi = _pi_halfturns()
    lines = [
        "import GuppyVerif.Model.Gate",
        "/-! GENERATED on every run by harness/props/c20.py `translate` from",
        "    every module found under guppylang/src/guppylang/std/quantum/ and std/qsystem/ (and std/angles.py) of the repository",
        "    under check (source AST cross-checked against the registered definition objects).  Do not edit. -/",
        "namespace GuppyVerif.Gate.Gen",
        "",
        "/-- one row per top-level function of every module under std/quantum and std/qsystem (+ the methods of `qubit`):",
        "    module, name, parameter kinds, return annotation, binding, returned expressions of a Guppy body -/",
        "def table : List Row := [",
        ",\n".join(_lean_row(r) for r in rows),
        "]",
        "",
        "/-- halfturns of the constant `std.angles.pi` (its hugr value `Tuple(FloatVal(h))`) as numerator / denominator -/",
        f"def piHalfturnsNum : Int := {pi.numerator}",
        f"def piHalfturnsDen : Nat := {pi.denominator}",
        "",
        "end GuppyVerif.Gate.Gen",
        "",
    ]
    return "\n".join(lines)


def translate(ctx):
    rows, problems = read_table(ctx)
    for p in problems:
        ctx.broke(p)
    path = os.path.join(vlib.LEAN, GEN_REL)
    txt = gen_text(rows)
    old = open(path).read() if os.path.exists(path) else None
    if old != txt:
        os.makedirs(os.path.dirname(path), exist_ok=True)
        with open(path, "w") as f:
            f.write(txt)
    ctx.extra["table_rows"] = len(rows)
    ctx.extra["python_helpers_skipped"] = list(PY_HELPERS)
    ctx.extra["decorators_read_from_object_only"] = list(AST_UNREAD)
    ctx.extra["table_bindings"] = {k: sum(1 for r in rows if r["binding"][0] == k) for k in
                                   ("direct", "rotation", "measure", "measureReset", "body", "opaque")}
    ctx._c20_rows = rows


# --------------------------------------------------------------------------- Hugr wiring reader (T-obj)
class WiringError(Exception):
    pass


class _Reader:
    """Symbolic forward evaluation of a lowered function: qubits are caller lines, floats are expression
    trees over the caller's parameters, calls are inlined.  Produces the log of quantum ops applied."""

    def __init__(self, hugr):
        import hugr.ops as ops

        self.h = hugr
        self.ops = ops
        self.log = []  # (qualified op, [arg canon])
        self.fresh = itertools.count()
        self.depth = 0

    # -- helpers over the hugr object
    def children(self, n):
        return list(self.h.children(n))

    def src(self, node, port):
        links = list(self.h.linked_ports(node.inp(port)))
        if len(links) != 1:
            raise WiringError(f"input port {port} of {node} has {len(links)} sources")
        return links[0].node, links[0].offset

    def opname(self, n):
        import feed

        return feed.op_name(self.h[n].op)

    # -- evaluation
    def run_func(self, fnode, args):
        self.depth += 1
        if self.depth > 8:
            raise WiringError("call depth")
        ops = self.ops
        kids = self.children(fnode)
        inp = [k for k in kids if isinstance(self.h[k].op, ops.Input)]
        out = [k for k in kids if isinstance(self.h[k].op, ops.Output)]
        cfgs = [k for k in kids if isinstance(self.h[k].op, ops.CFG)]
        if len(inp) != 1 or len(out) != 1:
            raise WiringError("function without single Input/Output")
        env = {(inp[0], i): a for i, a in enumerate(args)}
        if len(cfgs) == 1 and len(kids) == 3:
            cfg = cfgs[0]
            nin = self.h.num_in_ports(cfg)
            cargs = []
            for i in range(self.h.num_in_ports(cfg)):
                try:
                    s = self.src(cfg, i)
                except WiringError:
                    break
                if s not in env:
                    raise WiringError("cfg input not from function input")
                cargs.append(env[s])
            blocks = [k for k in self.children(cfg) if isinstance(self.h[k].op, ops.DataflowBlock)]
            if len(blocks) != 1:
                raise WiringError(f"{len(blocks)} basic blocks (only straight-line bodies are read)")
            outs = self.run_region(blocks[0], cargs)
            outs = outs[1:]  # port 0 of a block's Output is the branch tag
            for i, v in enumerate(outs):
                env[(cfg, i)] = v
            res = []
            for i in range(self.h.num_in_ports(out[0])):
                try:
                    s = self.src(out[0], i)
                except WiringError:
                    break
                res.append(env[s])
            self.depth -= 1
            return res
        res = self.run_region(fnode, args)
        self.depth -= 1
        return res

    def run_region(self, parent, args):
        """evaluate the dataflow children of `parent` in topological order (ties: node index)"""
        ops = self.ops
        h = self.h
        kids = self.children(parent)
        inp = next(k for k in kids if isinstance(h[k].op, ops.Input))
        out = next(k for k in kids if isinstance(h[k].op, ops.Output))
        val = {(inp, i): a for i, a in enumerate(args)}
        pending = [k for k in kids if k not in (inp, out)]
        pending.sort(key=lambda n: n.idx)

        def inputs_of(n):
            res = []
            for i in range(h.num_in_ports(n)):
                links = list(h.linked_ports(n.inp(i)))
                if not links:
                    continue
                res.append((i, links[0].node, links[0].offset))
            return res

        done = set()
        progress = True
        while pending and progress:
            progress = False
            for n in list(pending):
                ins = inputs_of(n)
                # only wait for value inputs produced inside this region
                ready = all((s, o) in val or h[s].parent != parent or isinstance(h[s].op, (ops.FuncDefn, ops.Const))
                            for _i, s, o in ins)
                if not ready:
                    continue
                self.eval_node(n, ins, val, parent)
                pending.remove(n)
                done.add(n)
                progress = True
                break
        if pending:
            raise WiringError("cyclic or unread nodes in region")
        res = []
        for i in range(h.num_in_ports(out)):
            links = list(h.linked_ports(out.inp(i)))
            if not links:
                break
            res.append(val[(links[0].node, links[0].offset)])
        return res

    def const_value(self, v):
        import hugr.val as hv

        if isinstance(v, hv.Tuple):
            return ("tup", [self.const_value(x) for x in v.vals])
        tn = type(v).__name__
        if tn == "FloatVal":
            if v.v == math.pi:
                return ("PI",)
            return ("c", Fraction(v.v))
        if tn == "IntVal":
            return ("c", Fraction(v.v))
        if isinstance(v, hv.Extension) or hasattr(v, "to_value"):
            try:
                e = v.to_value() if hasattr(v, "to_value") else v
                if e.name == "ConstF64":
                    f = e.val["value"] if isinstance(e.val, dict) else e.val
                    return ("PI",) if f == math.pi else ("c", Fraction(f))
                if e.name == "ConstInt":
                    return ("c", Fraction(e.val["value"]))
            except Exception:  # noqa: BLE001
                pass
        return ("opaque-const", repr(v)[:40])

    def eval_node(self, n, ins, val, parent):
        ops = self.ops
        h = self.h
        op = h[n].op
        name = self.opname(n)

        def arg(i):
            for j, s, o in ins:
                if j == i:
                    if (s, o) in val:
                        return val[(s, o)]
                    if isinstance(h[s].op, ops.Const):
                        return self.const_value(h[s].op.val)
                    raise WiringError(f"value from outside region at {n} port {i}")
            raise WiringError(f"unconnected port {i} of {n}")

        if isinstance(op, ops.Const):
            val[(n, 0)] = self.const_value(op.val)
        elif isinstance(op, ops.LoadConst):
            val[(n, 0)] = arg(0)
        elif isinstance(op, ops.MakeTuple):
            k = len([1 for j, _s, _o in ins])
            val[(n, 0)] = ("tup", [arg(i) for i in range(k)])
        elif isinstance(op, ops.UnpackTuple):
            t = arg(0)
            if t[0] != "tup":
                raise WiringError("unpack of non-tuple " + str(t)[:40])
            for i, x in enumerate(t[1]):
                val[(n, i)] = x
        elif isinstance(op, ops.Tag):
            val[(n, 0)] = ("tag", op.tag)
        elif isinstance(op, ops.Call):
            k = h.num_in_ports(n)
            # the static function input is the last connected input port
            fports = [(j, s, o) for j, s, o in ins if isinstance(h[s].op, ops.FuncDefn)]
            if len(fports) != 1:
                raise WiringError("call without a FuncDefn target")
            fj, fnode, _ = fports[0]
            cargs = [arg(j) for j, _s, _o in ins if j != fj]
            res = self.run_func(fnode, cargs)
            for i, v in enumerate(res):
                val[(n, i)] = v
        elif name.startswith("arithmetic.float.") or name.startswith("arithmetic.conversions."):
            short = name.split(".")[-1]
            nin = len(ins)
            a = [arg(i) for i in range(nin)]
            val[(n, 0)] = self.fold(short, a)
        elif name == "tket.rotation.from_halfturns_unchecked":
            val[(n, 0)] = ("rot", arg(0))
        elif name.startswith("tket.quantum.") or name.startswith("tket.qsystem."):
            import hugr.tys as ht

            sig = op.outer_signature() if hasattr(op, "outer_signature") else op.signature
            a = [arg(i) for i in range(len(sig.input))]
            qs_in = [x for x, t in zip(a, sig.input) if t == ht.Qubit]
            self.log.append((name, a))
            entry = len(self.log) - 1
            qi = 0
            for i, t in enumerate(sig.output):
                if t == ht.Qubit:
                    if qi < len(qs_in):
                        val[(n, i)] = qs_in[qi]  # assumed op semantics: k-th qubit out = k-th qubit in
                    else:
                        val[(n, i)] = ("q", f"new{next(self.fresh)}")
                    qi += 1
                else:
                    val[(n, i)] = ("res", entry, i)
        elif name.startswith("tket.bool.") or name.startswith("tket.futures."):
            a = [arg(j) for j, _s, _o in ins]
            for i in range(max(1, h.num_out_ports(n))):
                val[(n, i)] = ("via", name.split(".")[-1], a)
        else:
            raise WiringError("unread op " + name)

    def fold(self, short, a):
        def isc(x):
            return x[0] == "c"

        if short == "fneg":
            return ("c", -a[0][1]) if isc(a[0]) else ("neg", a[0])
        if short in ("convert_s", "convert_u"):
            return a[0]
        if short in ("fadd", "fsub", "fmul", "fdiv"):
            x, y = a
            if short == "fmul" and y == ("PI",):
                return ("rad", x)
            if short == "fmul" and x == ("PI",):
                return ("rad", y)
            if isc(x) and isc(y):
                try:
                    return ("c", {"fadd": x[1] + y[1], "fsub": x[1] - y[1], "fmul": x[1] * y[1], "fdiv": x[1] / y[1]}[short])
                except ZeroDivisionError:
                    return ("divzero",)
            return (short[1:], x, y)
        if short == "feq":
            return ("eq", a[0], a[1])
        return ("fn", short, a)  # any other float op: kept symbolically


def canon(v):
    """canonical text of a symbolic value (shared syntax with the Lean driver)"""
    k = v[0]
    if k == "q":
        return f"q{v[1]}"
    if k == "ht":
        return f"p{v[1]}"
    if k == "fparam":
        return f"f{v[1]}"
    if k == "c":
        return f"{v[1].numerator}/{v[1].denominator}"
    if k == "neg":
        return f"neg({canon(v[1])})"
    if k in ("add", "sub", "mul", "div"):
        y = v[2]
        if y[0] == "c" and y[1].denominator == 1:
            return f"{k}({canon(v[1])},{y[1].numerator})"
        return f"{k}({canon(v[1])},{canon(y)})"
    if k == "rad":
        return f"rad({canon(v[1])})"
    if k == "rot":
        return f"rot({canon(v[1])})"
    if k == "tup":
        return "tup(" + ",".join(canon(x) for x in v[1]) + ")"
    if k == "res":
        return f"r{v[1]}.{v[2]}"
    if k == "via":
        return f"{v[1]}(" + ",".join(canon(x) for x in v[2]) + ")"
    if k == "eq":
        return f"eq({canon(v[1])},{canon(v[2])})"
    if k == "fn":
        return f"{v[1]}(" + ",".join(canon(x) for x in v[2]) + ")"
    if k == "PI":
        return "PI"
    if k == "tag":
        return f"tag{v[1]}"
    return "?" + str(v)[:30]


def read_probe(g, fname, kinds):
    """-> (ops text, outs text) for the lowered probe function `fname` whose params have `kinds`"""
    import hugr.ops as ops

    h = g.hugr
    fn = [n for n in h if isinstance(h[n].op, ops.FuncDefn) and h[n].op.f_name == fname]
    if len(fn) != 1:
        raise WiringError("probe function not found")
    args = []
    for i, k in enumerate(kinds):
        if k in ("qubit", "qubitOwned"):
            args.append(("q", i))
        elif k == "angle":
            args.append(("tup", [("ht", i)]))
        elif k == "float":
            args.append(("fparam", i))
        else:
            args.append(("opaque-param", i))
    r = _Reader(h)
    outs = r.run_func(fn[0], args)
    ops_txt = ";".join(f"{name}[{' '.join(canon(a) for a in a_)}]" for name, a_ in r.log)
    return ops_txt, " ".join(canon(o) for o in outs)


# --------------------------------------------------------------------------- probes
PROBE_PRELUDE = (
    "from guppylang import guppy\n"
    "from guppylang.std.builtins import owned, array\n"
    "from guppylang.std.angles import angle, pi\n"
    "from guppylang.std.option import Option\n"
    "from guppylang.std.futures import Future\n"
    "import guppylang.std.quantum as quantum\n"
    "import guppylang.std.qsystem as qsystem\n"
    "import guppylang.std.quantum.functional as quantum_functional\n"
    "import guppylang.std.qsystem.functional as qsystem_functional\n"
    "from guppylang.std.quantum import qubit\n"
    "from guppylang.std.qsystem import MaybeLeaked\n"
)


def probe_source(row, perm):
    """probe function `p` whose parameters are p0..pn-1 (same kinds as the row, in the row's order) and whose
    body calls the row's function with parameter perm[i] as the i-th actual argument"""
    kinds = row["params"]
    ann = {"qubit": "qubit", "qubitOwned": "qubit @ owned", "angle": "angle", "float": "float"}
    if any(k not in ann for k in kinds) or row["modl"] not in QUANTUM_MODULES:
        return None
    ps = ", ".join(f"p{i}: {ann[k]}" for i, k in enumerate(kinds))
    actual = [f"p{j}" for j in perm]
    name = row["name"]
    if name.startswith("qubit."):
        meth = name.split(".")[1]
        if meth == "__new__":
            callee = "qubit(" + ", ".join(actual) + ")"
        else:
            callee = f"{actual[0]}.{meth}(" + ", ".join(actual[1:]) + ")"
    else:
        callee = f"{row['modl'].replace('.', '_')}.{name}(" + ", ".join(actual) + ")"
    ret = row["ret"] or "None"
    ret = ret.replace("array[bool, N]", "None")
    if ret == "None":
        return f"@guppy\ndef p({ps}) -> None:\n    {callee}\n"
    return f"@guppy\ndef p({ps}) -> \"{ret}\":\n    return {callee}\n"


def perms_for(row, ctx):
    """assignments of caller parameters to the row's parameters: permute within each kind"""
    kinds = row["params"]
    groups = {}
    for i, k in enumerate(kinds):
        groups.setdefault(k, []).append(i)
    per_group = [list(itertools.permutations(ix)) for ix in groups.values()]
    allp = []
    for combo in itertools.product(*per_group):
        perm = list(range(len(kinds)))
        for ix, pm in zip(groups.values(), combo):
            for tgt, srcp in zip(ix, pm):
                perm[tgt] = srcp
        allp.append(tuple(perm))
    if not ctx.quick or len(allp) <= 3:
        return allp
    ident = allp[0]
    rev = allp[-1]
    mid = ctx.rng.choice(allp[1:-1])
    return [ident, rev, mid]


# the documented-gate oracle, derived from names and docstrings only (independent of table and model):
# "function named X emits op named X' (same letters), caller qubit i on port i, angle per library convention"
ORACLE_EXTRA = {  # functions whose op is not spelled like the function: stated explicitly from the docs
    ("quantum", "qubit.__new__"): "tket.quantum.QAlloc",
    ("quantum", "maybe_qubit"): "tket.quantum.TryQAlloc",
    ("quantum", "discard"): "tket.quantum.QFree",
    ("quantum", "measure"): "tket.quantum.MeasureFree",
    ("quantum", "project_z"): "tket.quantum.Measure",
    ("quantum", "qubit.measure"): "tket.quantum.MeasureFree",
    ("quantum", "qubit.project_z"): "tket.quantum.Measure",
    ("quantum", "qubit.discard"): "tket.quantum.QFree",
    ("qsystem", "measure_and_reset"): "tket.qsystem.MeasureReset",
    ("qsystem", "_measure_leaked"): "tket.qsystem.LazyMeasureLeaked",
}
ORACLE_SEQ = {  # documented decompositions, in program order; %i = i-th actual argument
    ("quantum", "ch"): "tket.quantum.Ry[%1 rot(-1/4)];tket.quantum.CZ[%0 %1];tket.quantum.Ry[%1 rot(1/4)]",
    ("qsystem", "zz_max"): "tket.qsystem.ZZPhase[%0 %1 rad(1/2)]",
}
ORACLE_OPAQUE = {("quantum", "measure_array"), ("quantum", "discard_array"), ("qsystem", "measure_leaked")}


def oracle_ops(row, perm, byk=None):
    key = (row["modl"], row["name"])
    if row["modl"].endswith(".functional"):
        # "the same gates ... but use functional syntax": the in-place function of the same name, same argument order
        base = (byk or {}).get((row["modl"][: -len(".functional")], row["name"]))
        if base is None:
            return f"no-in-place-function-named-{row['name']}"
        return oracle_ops(dict(base, params=row["params"]), perm, byk)
    kinds = row["params"]
    act = []
    for i, k in enumerate(kinds):
        j = perm[i]
        if k in ("qubit", "qubitOwned"):
            act.append(f"q{j}")
        elif k == "angle":
            act.append(("rot(p%d)" if row["modl"] == "quantum" else "rad(p%d)") % j)
        elif k == "float":
            act.append(f"f{j}")
        else:
            act.append("?")
    if key in ORACLE_SEQ:
        s = ORACLE_SEQ[key]
        for i in range(len(kinds)):
            s = s.replace(f"%{i}", act[i])
        return s
    if key in ORACLE_EXTRA:
        op = ORACLE_EXTRA[key]
    else:
        want = row["name"].replace("_", "").lower()
        ext = _load_std()  # noqa: F841
        from guppylang_internals.std._internal.compiler import tket_exts as T

        E = T.QUANTUM_EXTENSION if row["modl"] == "quantum" else T.QSYSTEM_EXTENSION
        cands = [n for n in E.operations if n.lower() == want]
        if len(cands) != 1:
            return f"no-op-named-like-{row['name']}"
        op = f"{E.name}.{cands[0]}"
    return f"{op}[{' '.join(act)}]"


FUNCTIONAL_CONSUMING = {("qsystem.functional", "measure"), ("qsystem.functional", "qfree")}


def oracle_outs(row, perm):
    """functional wrappers return their qubit arguments in declaration order (= the order passed); borrowed qubit
    parameters of the probe come back in the probe's own parameter order"""
    outs = []
    if row["modl"].endswith(".functional") and (row["modl"], row["name"]) not in FUNCTIONAL_CONSUMING:
        outs += [f"q{perm[i]}" for i, k in enumerate(row["params"]) if k == "qubitOwned"]
    return outs + [f"q{i}" for i, k in enumerate(row["params"]) if k == "qubit"]


def doc_order_ok(row):
    """`Qubit ordering: [a, b]` in a docstring must list the qubit parameters in declaration order"""
    import re

    m = re.search(r"Qubit ordering: \[([^\]]*)\]", row["doc"])
    if not m:
        return True
    listed = [x for x in re.split(r"[,\s]+", m.group(1).strip()) if x]
    qn = [n for n, k in zip(row["pnames"], row["params"]) if k in ("qubit", "qubitOwned")]
    return listed == qn


def _driver_line(row, perm):
    toks = []
    for i, k in enumerate(row["params"]):
        toks.append(f"{perm[i]}")
    return f"emit {row['modl']} {row['name']} " + " ".join(toks)


def _mask_angles(txt):
    """replace every `rot(...)` / `rad(...)` argument (balanced parentheses) by `ANGLE`"""
    out, i = [], 0
    while i < len(txt):
        if txt.startswith(("rot(", "rad("), i) and (i == 0 or txt[i - 1] in " ["):
            depth, j = 0, i + 3
            while j < len(txt):
                if txt[j] == "(":
                    depth += 1
                elif txt[j] == ")":
                    depth -= 1
                    if depth == 0:
                        break
                j += 1
            out.append("ANGLE")
            i = j + 1
        else:
            out.append(txt[i])
            i += 1
    return "".join(out)


def tie_gates(ctx, rows):
    import feed

    cases = []
    for row in rows:
        for perm in perms_for(row, ctx):
            cases.append((row, perm))
    # corpus / replay: stored as (modl, name, perm)
    extra = []
    cdir = os.path.join(vlib.VERIF, "corpus", "c20")
    if os.path.isdir(cdir):
        for fn in sorted(os.listdir(cdir)):
            for r in json.load(open(os.path.join(cdir, fn))):
                if r.get("kind") == "gate":
                    extra.append((r["modl"], r["name"], tuple(r["perm"])))
    if ctx.replay_in and ctx.replay_in.get("replay", {}).get("kind") == "gate":
        rp = ctx.replay_in["replay"]
        extra.append((rp["modl"], rp["name"], tuple(rp["perm"])))
    byk = {(r["modl"], r["name"]): r for r in rows}
    for modl, name, perm in extra:
        if (modl, name) in byk and (byk[(modl, name)], perm) not in cases and len(perm) == len(byk[(modl, name)]["params"]):
            cases.insert(0, (byk[(modl, name)], perm))
    lines = [_driver_line(r, p) for r, p in cases]
    model = ctx.driver(DRIVER, lines) if lines else []
    for (row, perm), line, m in zip(cases, lines, model):
        key = f"{row['modl']}.{row['name']}({','.join('p%d' % j for j in perm)})"
        opaque = row["binding"][0] == "opaque"
        src = probe_source(row, perm)
        real = None
        if src is None:
            real = "unprobed"
        else:
            mod = None
            try:
                mod = feed.load(src, prelude=PROBE_PRELUDE)
                g = feed.lower(mod.p)
                if opaque and ((row["modl"], row["name"]) in ORACLE_OPAQUE or row["modl"] not in QUANTUM_MODULES):
                    real = "opaque"
                else:
                    ops_txt, outs = read_probe(g, "p", row["params"])
                    outs_q = [o for o in outs.split() if o[:1] == "q" and o[1:].isdigit()]  # caller lines only
                    real = ops_txt + " -> " + " ".join(outs_q)
            except WiringError as e:
                real = "wiring-unreadable:" + str(e)
            except Exception as e:  # noqa: BLE001
                real = "lowering-failed:" + type(e).__name__ + ":" + str(e)[:80]
            finally:
                if mod is not None:
                    feed.unload(mod)
        listed = (row["modl"], row["name"]) in ORACLE_OPAQUE or row["modl"] not in QUANTUM_MODULES
        if opaque and listed:
            # documented as unmodelled: only check that it still lowers
            ctx.count(key, nontrivial=False, kind="opaque:" + real.split(":")[0])
            if real not in ("opaque", "unprobed"):
                ctx.broke(f"opaque row {key} does not lower: {real}")
            continue
        if listed:
            # the body became readable: compare table and lowering only (no documented circuit to compare with)
            ctx.count(key, nontrivial=False, kind="listed-unmodelled")
            if real != m:
                ctx.broke(f"gate table (model emit) vs lowered probe on {key}: real=`{real}` model=`{m}`")
            continue
        orc = oracle_ops(row, perm, byk) + " -> " + " ".join(oracle_outs(row, perm))
        if not doc_order_ok(row):
            orc = "docstring-qubit-order-differs-from-parameters"
        ctx.count(key, nontrivial=("[" in real), kind=row["binding"][0])
        if real.startswith("wiring-unreadable"):
            # the reader cannot interpret the lowered body (e.g. a float op it does not know): the syntactic tie no longer
            # checks; whether the gate is still the documented one is decided by the execution oracle (tie_exec)
            ctx.broke(f"wiring of {key} unreadable by the T-obj reader: {real}")
        elif real != orc and _mask_angles(real) == _mask_angles(orc):
            # same ops, same qubits on the same ports, different *path* of an angle: a syntactic difference that may or
            # may not change the gate (a full-turn shift is a global phase for rz): the execution oracle decides
            ctx.broke(f"angle path of {key} differs from the documented one: `{real}` vs `{orc}`")
        elif real != orc:
            ctx.violation(
                "probe:" + key,
                f"{key}: lowered probe applies `{real}` but the documented gate is `{orc}`",
                {"kind": "gate", "modl": row["modl"], "name": row["name"], "perm": list(perm), "probe": src,
                 "real": real, "oracle": orc, "model": m},
            )
        if real != m:
            ctx.broke(f"gate table (model emit) vs lowered probe on {key}: real=`{real}` model=`{m}`")


# --------------------------------------------------------------------------- angle arithmetic (T-exec)
ANGLE_METHODS = {  # method -> (operand kinds after self)
    "__add__": ("angle",), "__sub__": ("angle",), "__mul__": ("float",), "__rmul__": ("float",),
    "__truediv__": ("float",), "__rtruediv__": ("float",), "__neg__": (), "__float__": (), "__eq__": ("angle",),
}


class _PiSym:
    """stands for math.pi in exact runs: Fraction * PI -> PiMul(Fraction)"""

    def __rmul__(self, x):
        return _PiMul(Fraction(x))

    def __mul__(self, x):
        return _PiMul(Fraction(x))


class _PiMul:
    def __init__(self, q):
        self.q = q


class _ShimAngle:
    def __init__(self, halfturns):
        self.halfturns = halfturns


def _real_angle_fn(name, pi_obj):
    """the real body of angle.<name> from /repo as a CPython function over shim objects"""
    from guppylang_internals.engine import DEF_STORE

    A = _load_std()["angles"]
    raw = DEF_STORE.raw_defs[DEF_STORE.impls[A.angle.id][name]]
    m = types.SimpleNamespace(pi=pi_obj)
    glb = {"angle": _ShimAngle, "py": lambda x: x, "math": m, "__builtins__": __builtins__}
    return types.FunctionType(raw.python_func.__code__, glb)


def _q(s):
    return f"{s.numerator}/{s.denominator}"


def _rand_q(rng):
    r = rng.random()
    if r < 0.12:
        return Fraction(0)
    if r < 0.3:
        return Fraction(rng.choice([1, -1, 2, -2, 1, 1]), rng.choice([1, 2, 4, 8]))
    if r < 0.8:
        return Fraction(rng.randrange(-40, 41), rng.choice([1, 2, 3, 4, 5, 7, 8, 16]))
    return Fraction(rng.randrange(-10**9, 10**9), rng.randrange(1, 10**6))


def _angle_oracle(name, a, xs):
    """the documented meaning on the angle as a quantity of half turns (a, xs are Fractions)"""
    if name == "__add__":
        return "a " + _q(a + xs[0])
    if name == "__sub__":
        return "a " + _q(a - xs[0])
    if name in ("__mul__", "__rmul__"):
        return "a " + _q(a * xs[0])
    if name == "__truediv__":
        return "error" if xs[0] == 0 else "a " + _q(a / xs[0])
    if name == "__rtruediv__":
        return "error" if a == 0 else "a " + _q(xs[0] / a)
    if name == "__neg__":
        return "a " + _q(-a)
    if name == "__float__":
        return "pimul " + _q(a)  # radians = halfturns * pi
    if name == "__eq__":
        return "b " + ("true" if a == xs[0] else "false")
    raise AssertionError(name)


def _angle_real(name, a, xs):
    try:
        f = _real_angle_fn(name, _PiSym())
        args = [_ShimAngle(a)] + [(_ShimAngle(x) if k == "angle" else x) for k, x in zip(ANGLE_METHODS[name], xs)]
        r = f(*args)
        if isinstance(r, _ShimAngle):
            return "a " + _q(Fraction(r.halfturns))
        if isinstance(r, _PiMul):
            return "pimul " + _q(r.q)
        if isinstance(r, bool):
            return "b " + ("true" if r else "false")
        return "other:" + type(r).__name__
    except ZeroDivisionError:
        return "error"
    except Exception as e:  # noqa: BLE001
        return "exception:" + type(e).__name__


class _Sym:
    """symbolic float for tracing a body under CPython into the canonical tree syntax"""

    def __init__(self, t):
        self.t = t

    def _bin(self, k, o, swap=False):
        if isinstance(o, _PiSym):
            return _Sym(("rad", self.t))
        ot = o.t if isinstance(o, _Sym) else ("c", Fraction(o))
        return _Sym((k, ot, self.t) if swap else (k, self.t, ot))

    def __add__(self, o): return self._bin("add", o)
    def __sub__(self, o): return self._bin("sub", o)
    def __mul__(self, o): return self._bin("mul", o)
    def __truediv__(self, o): return self._bin("div", o)
    def __rtruediv__(self, o): return self._bin("div", o, True)
    def __neg__(self): return _Sym(("neg", self.t))
    def __eq__(self, o): return _Sym(("eq", self.t, o.t))
    __hash__ = None


ANGLE_TREE_ORACLE = {
    "__add__": "tup(add(p0,p1))", "__sub__": "tup(sub(p0,p1))", "__mul__": "tup(mul(p0,f1))",
    "__rmul__": "tup(mul(p0,f1))", "__truediv__": "tup(div(p0,f1))", "__rtruediv__": "tup(div(f1,p0))",
    "__neg__": "tup(neg(p0))", "__float__": "rad(p0)", "__eq__": "make_opaque(eq(p0,p1))",
}
ANGLE_SYNTAX = {
    "__add__": "a + b", "__sub__": "a - b", "__mul__": "a * b", "__rmul__": "b * a", "__truediv__": "a / b",
    "__rtruediv__": "b / a", "__neg__": "-a", "__float__": "float(a)", "__eq__": "a == b",
}


def tie_angles(ctx):
    import feed
    from guppylang_internals.engine import DEF_STORE

    A = _load_std()["angles"]
    impls = {k: v for k, v in DEF_STORE.impls.get(A.angle.id, {}).items() if k != "__new__"}  # struct constructor
    # coverage of the method set (a new / removed operator is noticed)
    if set(impls) != set(ANGLE_METHODS):
        ctx.broke(f"angle methods in std/angles.py {sorted(impls)} differ from the modelled set {sorted(ANGLE_METHODS)}")
    # (a) symbolic: lowered Hugr tree vs CPython trace vs documented tree
    for name, kinds in ANGLE_METHODS.items():
        if name not in impls:
            continue
        pk = ["angle"] + list(kinds)
        ann = {"angle": "angle", "float": "float"}
        ps = ", ".join(f"{'ab'[i]}: {ann[k]}" for i, k in enumerate(pk))
        retann = {"__float__": "float", "__eq__": "bool"}.get(name, "angle")
        src = f"@guppy\ndef p({ps}) -> {retann}:\n    return {ANGLE_SYNTAX[name]}\n"
        mod = None
        try:
            mod = feed.load(src, prelude=PROBE_PRELUDE)
            g = feed.lower(mod.p)
            _ops, outs = read_probe(g, "p", pk)
            hug = outs
        except WiringError as e:
            hug = "wiring-unreadable:" + str(e)
        except Exception as e:  # noqa: BLE001
            hug = "lowering-failed:" + type(e).__name__ + ":" + str(e)[:80]
        finally:
            if mod is not None:
                feed.unload(mod)
        try:
            f = _real_angle_fn(name, _PiSym())
            args = [_ShimAngle(_Sym(("ht", 0)))] + [
                (_ShimAngle(_Sym(("ht", 1))) if k == "angle" else _Sym(("fparam", 1))) for k in kinds]
            r = f(*args)
            if isinstance(r, _ShimAngle):
                cp = "tup(" + canon(r.halfturns.t) + ")"
            elif name == "__eq__":
                cp = "make_opaque(" + canon(r.t) + ")"
            else:
                cp = canon(r.t)
        except Exception as e:  # noqa: BLE001
            cp = "exception:" + type(e).__name__
        orc = ANGLE_TREE_ORACLE[name]
        ctx.count(f"angle-tree {name}", nontrivial=True, kind="angle-tree")
        if hug != orc or cp != orc:
            ctx.violation(
                "angle-tree:" + name,
                f"angle.{name}: lowered float-op tree `{hug}`, CPython trace `{cp}`, documented `{orc}`",
                {"kind": "angle-tree", "method": name, "hugr": hug, "cpython": cp, "oracle": orc, "probe": src},
            )
    # (b) exact rationals: real body under CPython vs Lean model vs oracle
    reqs = []
    cdir = os.path.join(vlib.VERIF, "corpus", "c20")
    if os.path.isdir(cdir):
        for fn in sorted(os.listdir(cdir)):
            for r in json.load(open(os.path.join(cdir, fn))):
                if r.get("kind") == "angle":
                    reqs.append((r["method"], Fraction(r["a"]), [Fraction(x) for x in r["xs"]]))
    if ctx.replay_in and ctx.replay_in.get("replay", {}).get("kind") == "angle":
        rp = ctx.replay_in["replay"]
        reqs.append((rp["method"], Fraction(rp["a"]), [Fraction(x) for x in rp["xs"]]))
    names = [n for n in ANGLE_METHODS if n in impls]
    for _ in range(ctx.n(1500, 40000)):
        name = ctx.rng.choice(names)
        a = _rand_q(ctx.rng)
        xs = [_rand_q(ctx.rng) for _k in ANGLE_METHODS[name]]
        if name == "__eq__" and ctx.rng.random() < 0.4:
            xs = [a]
        reqs.append((name, a, xs))
    lines = [f"angle {n} {_q(a)} " + " ".join(_q(x) for x in xs) for n, a, xs in reqs]
    # the constant pi
    lines.append("anglepi")
    model = ctx.driver(DRIVER, lines)
    for (name, a, xs), line, m in zip(reqs, lines, model):
        real = _angle_real(name, a, xs)
        orc = _angle_oracle(name, a, xs)
        ctx.count(line, nontrivial=(a != 0 and all(x != 0 for x in xs)), kind="angle:" + name)
        if real != orc:
            ctx.violation(
                "angle:" + line,
                f"angle.{name} on halfturns {_q(a)} {[_q(x) for x in xs]}: real body gives {real}, documented {orc}",
                {"kind": "angle", "method": name, "a": _q(a), "xs": [_q(x) for x in xs], "real": real, "oracle": orc, "model": m},
            )
        if real != m:
            ctx.broke(f"correspondence Model/Angle.lean vs angles.py on `{line}` (real={real} model={m})")
    # constant pi: real object vs model (through the Gen table) vs documented 1 half turn
    realpi = "a " + _q(_pi_halfturns())
    ctx.count("anglepi", nontrivial=True, kind="angle:pi")
    if realpi != "a 1/1":
        ctx.violation("angle:pi", f"std.angles.pi has halfturns {realpi}, documented 1 (pi radians)",
                      {"kind": "anglepi", "real": realpi, "oracle": "a 1/1", "model": model[-1]})
    if realpi != model[-1]:
        ctx.broke(f"constant pi: object {realpi} vs model {model[-1]}")


def _doc_matrix(doc):
    """(prefactor text, rows of cell texts) of the first LaTeX pmatrix in a docstring, or None"""
    import re

    m = re.search(r"=(?P<pre>[^=]*?)\\begin\{pmatrix\}(?P<body>.*?)\\end\{pmatrix\}", doc, re.S)
    if not m:
        return None
    rows = [[c.strip() for c in r.split("&")] for r in m.group("body").split("\\\\") if r.strip()]
    return m.group("pre").strip(), rows


def tie_docs(ctx, rows):
    """documented matrices of controlled gates must be block matrices [[I, 0], [0, U]] with an UNSCALED identity
    block (a prefactor in front of the whole matrix makes the documented operator non-unitary).  Witness of the
    fixed docstring defect of `ch`."""
    for row in rows:
        if row["modl"] != "quantum" or row["name"] not in ("cx", "cy", "cz", "ch", "crz"):
            continue
        dm = _doc_matrix(row["doc"])
        key = f"doc-matrix {row['modl']}.{row['name']}"
        ctx.count(key, nontrivial=dm is not None, kind="doc-matrix")
        if dm is None:
            continue
        pre, cells = dm
        ident = len(cells) == 4 and cells[0] == ["1", "0", "0", "0"] and cells[1] == ["0", "1", "0", "0"] \
            and cells[2][:2] == ["0", "0"] and cells[3][:2] == ["0", "0"]
        if pre != "" or not ident:
            ctx.violation(
                "doc:" + row["name"],
                f"docstring of {row['modl']}.{row['name']} documents a matrix that is not controlled-U with an unscaled "
                f"identity block (prefactor `{pre}`, rows {cells[:2]})",
                {"kind": "doc", "modl": row["modl"], "name": row["name"], "prefactor": pre, "rows": cells},
            )


def tie(ctx):
    rows = getattr(ctx, "_c20_rows", None)
    if rows is None:
        rows, problems = read_table(ctx)
        for p in problems:
            ctx.broke(p)
    tie_gates(ctx, rows)
    tie_docs(ctx, rows)
    tie_angles(ctx)
    sys.path.insert(0, os.path.dirname(os.path.abspath(__file__)))
    import c20_exec

    c20_exec.tie_exec(ctx, PROBE_PRELUDE)


if __name__ == "__main__":
    vlib.main(sys.modules[__name__])
