"""C01 T-run for variable scoping under partial monomorphization: the Lean model Model/DFVarIdx.lean
(driver C01, request `(vi ...)`) versus /repo's `CompilerContext.type_var_to_hugr`,
`const_var_to_hugr`, `compile_variable_idx` and `FunctionType.instantiate_partial`.

A case: a parameter list (kinds: "T" copyable type var, "Q" linear type var, "n" nat const param,
"k" int const param = what a non-nat `@comptime` argument becomes) and a monomorphisation vector
(bit per parameter; "k" parameters are always monomorphised, as `partially_monomorphize_args` does),
or no monomorphisation context at all.
"""
from __future__ import annotations


def gen_case(rng):
    n = rng.randrange(1, 7)
    kinds = [rng.choice(["T", "Q", "n", "n", "k", "k"]) for _ in range(n)]
    if rng.random() < 0.12:
        return {"kinds": [k if k != "k" else "n" for k in kinds], "mono": None}
    mono = [1 if k == "k" else int(rng.random() < 0.3) for k in kinds]
    return {"kinds": kinds, "mono": mono}


def request(case) -> str:
    if case["mono"] is None:
        return f"(vi - {len(case['kinds'])})"
    return "(vi " + " ".join(map(str, case["mono"])) + ")"


def is_nontrivial(case) -> bool:
    """a kept parameter after a monomorphised one: the index really shifts"""
    m = case["mono"]
    return m is not None and any(b == 0 and any(m[:i]) for i, b in enumerate(m))


def real_run(case):
    """-> (reply string in the driver's format, {guppy idx: name of the signature parameter it is bound to})"""
    import hugr.build.function as hf
    import hugr.tys as ht
    from guppylang_internals.compiler.core import CompilerContext
    from guppylang_internals.tys.arg import ConstArg, TypeArg
    from guppylang_internals.tys.builtin import int_type, nat_type
    from guppylang_internals.tys.const import ConstValue
    from guppylang_internals.tys.param import ConstParam, TypeParam
    from guppylang_internals.tys.ty import FunctionType, NoneType

    params = []
    for i, k in enumerate(case["kinds"]):
        if k == "T":
            params.append(TypeParam(i, f"p{i}", must_be_copyable=True, must_be_droppable=True))
        elif k == "Q":
            params.append(TypeParam(i, f"p{i}", must_be_copyable=False, must_be_droppable=False))
        elif k == "n":
            params.append(ConstParam(i, f"p{i}", nat_type()))
        else:
            params.append(ConstParam(i, f"p{i}", int_type()))
    mono = None
    if case["mono"] is not None:
        mono = []
        for p, b, k in zip(params, case["mono"], case["kinds"]):
            if not b:
                mono.append(None)
            elif k in ("T", "Q"):
                mono.append(TypeArg(int_type()) if k == "T" else TypeArg(NoneType()))
            elif k == "n":
                mono.append(ConstArg(ConstValue(nat_type(), 3)))
            else:
                mono.append(ConstArg(ConstValue(int_type(), 5)))
        mono = tuple(mono)
    ctx = CompilerContext(hf.Module())
    outs = []
    with ctx.set_monomorphized_args(mono):
        for p, k in zip(params, case["kinds"]):
            try:
                if k in ("T", "Q"):
                    r = ctx.type_var_to_hugr(p.to_bound().ty)
                    outs.append(f"v{r.idx}" if isinstance(r, ht.Variable) else "m")
                else:
                    bound = p.to_bound().const
                    if k == "k" and (mono is None or mono[p.idx] is None):
                        outs.append("e")  # non-nat const variables cannot be lowered at all
                        continue
                    if k == "k":
                        outs.append("m")  # monomorphised non-nat const: value lowered elsewhere (no HUGR type arg)
                        continue
                    r = ctx.const_var_to_hugr(bound)
                    outs.append(f"v{r.idx}" if isinstance(r, ht.VariableArg) else "m")
            except Exception as e:  # noqa: BLE001
                outs.append("exc:" + type(e).__name__)
    if mono is None:
        return " ".join(outs), {i: f"p{i}" for i in range(len(params))}, [p.name for p in params], outs
    fty = FunctionType([], NoneType(), params)
    rem = fty.instantiate_partial(list(mono)).params
    rem_names = [p.name for p in rem]
    rep = " ".join(outs) + " | " + " ".join(str(int(nm[1:])) for nm in rem_names)
    return rep, None, rem_names, outs


def oracle(case, rem_names, outs) -> list[str]:
    """the property read literally on the real functions: a parameter that stays generic is lowered to a
    HUGR variable whose index selects *that* parameter in the FuncDefn's parameter list"""
    bad = []
    for i, o in enumerate(outs):
        if o.startswith("v"):
            j = int(o[1:])
            if j >= len(rem_names):
                bad.append(f"parameter p{i} is lowered to HUGR variable #{j} but the signature binds only {len(rem_names)} parameters")
            elif rem_names[j] != f"p{i}":
                bad.append(f"parameter p{i} is lowered to HUGR variable #{j}, which the signature binds to {rem_names[j]}")
        elif o.startswith("exc"):
            bad.append(f"lowering the variable of p{i} raised {o}")
    return bad
