"""C17 — Integer literals are range-checked and preserved exactly."""
from __future__ import annotations

import json
import os
import sys

sys.path.insert(0, os.path.dirname(os.path.dirname(os.path.abspath(__file__))))
import vlib

PID = "C17"
THEOREM_MODULES = ["GuppyVerif.Props.C17"]
DRIVER = "C17"
RULE = (
    "cases = (form, expected numeric kind, integer(s), syntactic position): literal / negated literal (0-3 minus signs) "
    "in return, annotated-assignment, argument and un-annotated assignment position; comptime(expr) given as a plain "
    "number, as an arithmetic expression and as a module global; literal tuples; comptime tuples (incl. nested); comptime "
    "lists at frozenarray. Integers: all values within 2 of 0, ±2^62, ±2^63, ±2^64 plus random magnitudes up to 2^130. "
    "PLUS literal positions: the literal (0-3 minus signs, boundary magnitudes) placed at every expression position where the CFG builder "
    "rewrites/hoists/duplicates nodes (ends and middle of chained comparisons incl. in if/while/and, and/or/not operands, IfExp arms and condition, "
    "walrus value, aug-assign rhs, call arguments, tuple/array elements, subscript index, default return), constants read back AND the lowered program "
    "evaluated by harness/hugr_interp.py on arguments around the literal's value against CPython. "
    "Each case is type-checked by the REAL check() and, if accepted, lowered by the real compiler and every Const's "
    "ConstInt payload is read back. non-trivial = some integer is within 2 of a bound or |v| >= 2^62; distinct by canonical case"
)
ASSUMPTIONS = [
    "the runtime reads ConstInt{log_width=6,value=u} as the 64-bit pattern u (two's complement for Guppy int, unsigned for nat); "
    "hugr.std.int.IntVal.to_value/_to_unsigned live in the installed hugr package, their behaviour is modelled (Model/IntLit.toUnsigned) "
    "and compared on every lowered constant",
    "observation point is the lowered Hugr constant, not an emulator run (no emulator for /repo output)",
    "Model/IntLit.lean is hand-written; agreement with expr_checker.py / builder.py / expr_compiler.py is established by the "
    "same-input correspondence run here",
]
UNMODELLED = [
    "bool/str/float/None constants, list literals, comptime values that are not ints or tuples/lists of ints",
    "constants flowing through generic const parameters (ConstValue) and comptime *functions*",
    "result()/emulator observation of the value",
]
MANIFEST = {
    "level_text": "Lean theorems for ALL integers (no width bound): a constant is accepted at int iff -2^63<=v<=2^63-1 and at nat iff "
    "0<=v<=2^64-1 (literal, negated literal folded by the CFG builder, comptime value, comptime tuple/list elementwise), the "
    "rejection class (overflow vs mismatch), -9223372036854775808 is accepted, and the emitted ConstInt payload decodes "
    "(two's complement / unsigned) to exactly v on the accepted range. The hand-written model is tied to /repo on every run: "
    "every case goes through the real check() and the real lowering and the payloads are read back from the Hugr "
    "(quick ~450 programs, thorough ~20000).",
    "level_note": "Trusted: Lean kernel + standard axioms; the reading of ConstInt payloads by the runtime (assumed); the "
    "correspondence is sampling (all boundary values always included). Deeper negations (--n) are expressions, not literals: "
    "only the innermost minus folds, outer ones are ineg at run time (stated as an example in Props/C17).",
    "technique": "Lean 4 proof over a hand-written model + differential correspondence through real check() and lowering",
    "design_ref": "DESIGN.md §5 C17",
    "ready": True,
}

P63, P64 = 1 << 63, 1 << 64
KINDS = ("int", "nat", "float")


def _in_range(v, k):
    return (-P63 <= v <= P63 - 1) if k == "int" else (0 <= v <= P64 - 1)


def _boundary_vals():
    vs = set()
    for c in (0, 1 << 62, P63, P64):
        for d in range(-2, 3):
            vs.add(c + d)
            vs.add(-c + d)
    return sorted(vs)


def _rand_val(rng):
    r = rng.random()
    if r < 0.35:
        c = rng.choice([0, 1 << 62, P63, P64])
        v = c + rng.randrange(-3, 4)
    elif r < 0.6:
        v = rng.getrandbits(rng.choice([8, 31, 62, 63, 64]))
    elif r < 0.85:
        v = rng.getrandbits(rng.choice([65, 66, 70, 100, 130]))
    else:
        v = rng.randrange(0, 300)
    return v if rng.random() < 0.55 else -v


def _nontrivial(vals):
    for v in vals:
        a = abs(v)
        if a >= (1 << 62) or a <= 2:
            return True
    return False


# ------------------------------------------------------------------ case -> source / model request / oracle
def _lit_src(negs, n):
    # `- - 5`: separate the signs so Python parses nested UnaryOps
    return "- " * negs + str(n)


def _ty(k):
    return {"int": "int", "nat": "nat", "float": "float"}[k]


def _source(case):
    f = case["form"]
    if f == "lit":
        k, e, pos = _ty(case["kind"]), _lit_src(case["negs"], case["n"]), case["pos"]
        if pos == "ret":
            return f"@guppy\ndef f() -> {k}:\n    return {e}\n"
        if pos == "ann":
            return f"@guppy\ndef f() -> {k}:\n    x: {k} = {e}\n    return x\n"
        if pos == "arg":
            return f"@guppy\ndef g(x: {k}) -> {k}:\n    return x\n\n@guppy\ndef f() -> {k}:\n    return g({e})\n"
    if f == "synth":
        e = _lit_src(case["negs"], case["n"])
        return f"@guppy\ndef f() -> int:\n    x = {e}\n    return x\n"
    if f == "comptime":
        k, v, style = _ty(case["kind"]), case["v"], case["style"]
        if style == "plain":
            return f"@guppy\ndef f() -> {k}:\n    return comptime({v})\n"
        if style == "expr":
            a = case["a"]
            return f"@guppy\ndef f() -> {k}:\n    return comptime(({a}) + ({v - a}))\n"
        if style == "global":
            return f"N_VAL = {v}\n\n@guppy\ndef f() -> {k}:\n    return comptime(N_VAL)\n"
    if f == "ltuple":
        ks = ", ".join(_ty(k) for k in case["kinds"])
        es = ", ".join(_lit_src(ng, n) for ng, n in case["elts"])
        return f"@guppy\ndef f() -> tuple[{ks}]:\n    return ({es},)\n" if len(case["elts"]) == 1 else \
            f"@guppy\ndef f() -> tuple[{ks}]:\n    return ({es})\n"
    if f == "ctuple":
        def ty(ks):
            return "tuple[" + ", ".join(_ty(k) if isinstance(k, str) else ty(k) for k in ks) + "]"
        def val(vs):
            return "(" + "".join((str(v) if isinstance(v, int) else val(v)) + ", " for v in vs) + ")"
        return f"@guppy\ndef f() -> {ty(case['kinds'])}:\n    return comptime({val(case['vals'])})\n"
    if f == "clist":
        k, vs = _ty(case["kind"]), case["vals"]
        return f"@guppy\ndef f() -> frozenarray[{k}, {len(vs)}]:\n    return comptime([{', '.join(map(str, vs))}])\n"
    raise AssertionError(f)


def _flat(x):
    out = []
    for e in x:
        if isinstance(e, (list, tuple)):
            out.extend(_flat(e))
        else:
            out.append(e)
    return out


def _requests(case):
    """model requests (driver lines) whose replies determine the model's outcome"""
    f = case["form"]
    if f == "lit":
        return [f"lit {case['kind']} {case['negs']} {case['n']}", f"eval {case['negs']} {case['n']}",
                f"payload {case['kind']} {(-1) ** case['negs'] * case['n'] if case['negs'] <= 1 else 0}"]
    if f == "synth":
        return [f"synth {case['negs']} {case['n']}", f"eval {case['negs']} {case['n']}"]
    if f == "comptime":
        return [f"comptime {case['kind']} {case['v']}", f"payload {case['kind']} {case['v']}"]
    if f == "ltuple":
        r = []
        for k, (ng, n) in zip(case["kinds"], case["elts"]):
            r += [f"lit {k} {ng} {n}", f"payload {k} {(-1) ** ng * n}"]
        return r
    if f == "ctuple":
        ks, vs = _flat(case["kinds"]), _flat(case["vals"])
        return [f"tuple {','.join(ks) or '-'} {','.join(map(str, vs)) or '-'}"] + [f"payload {k} {v}" for k, v in zip(ks, vs)]
    if f == "clist":
        vs = case["vals"]
        return [f"list {case['kind']} {','.join(map(str, vs)) or '-'}"] + [f"payload {case['kind']} {v}" for v in vs]
    raise AssertionError(f)


def _model_outcome(case, rep):
    """-> (class, payload list or None, negs)"""
    f = case["form"]
    pay = lambda s: int(s.split()[1]) if s.startswith("some") else None
    if f == "lit":
        cls = rep[0].split(":")[0]
        if cls != "ok":
            return (cls, None, 0)
        if case["kind"] == "float":
            return ("ok", "float", 0)
        if case["negs"] <= 1:
            return ("ok", [pay(rep[2])], 0)
        m = dict(x.split("=") for x in rep[1].split())
        return ("ok", [int(m["u"])], int(m["negs"]))
    if f == "synth":
        cls = rep[0].split(":")[0]
        if cls != "ok":
            return (cls, None, 0)
        m = dict(x.split("=") for x in rep[1].split())
        return ("ok", [int(m["u"])], int(m["negs"]))
    if f == "comptime":
        cls = rep[0].split(":")[0]
        return (cls, [pay(rep[1])] if cls == "ok" else None, 0)
    if f == "ltuple":
        pays = []
        for i in range(0, len(rep), 2):
            cls = rep[i].split(":")[0]
            if cls != "ok":
                return (cls, None, 0)
            pays.append(pay(rep[i + 1]))
        return ("ok", pays, 0)
    if f in ("ctuple", "clist"):
        cls = rep[0].split(":")[0]
        return (cls, [pay(x) for x in rep[1:]] if cls == "ok" else None, 0)
    raise AssertionError(f)


def _oracle(case):
    """the statement's literal reading: accept? and the value(s) the program must observe (Python ints)"""
    f = case["form"]
    if f in ("lit", "synth"):
        k = case.get("kind", "int")
        negs, n = case["negs"], case["n"]
        if k == "float":
            return None  # int literal at float: outside the statement (covered by C16); model-vs-real only
        if negs <= 1:
            v = -n if negs else n
            return (_in_range(v, k), [v])
        # deeper negation: an *expression* over the literal `-n`; accepted at int iff that literal is; never a nat
        v = -n
        ok = k == "int" and _in_range(v, "int")
        for _ in range(negs - 1):
            v = -v
        v = ((v + P63) % P64) - P63  # C04's wrap-around for the run-time negations
        return (ok, [v])
    if f == "comptime":
        if case["kind"] == "float":
            return None
        return (_in_range(case["v"], case["kind"]), [case["v"]])
    if f == "ltuple":
        vs = [(-n if ng else n) for ng, n in case["elts"]]
        if "float" in case["kinds"]:
            return None
        return (all(_in_range(v, k) for v, k in zip(vs, case["kinds"])), vs)
    if f in ("ctuple", "clist"):
        ks = _flat(case["kinds"]) if f == "ctuple" else [case["kind"]] * len(case["vals"])
        vs = _flat(case["vals"])
        if "float" in ks:
            return None
        return (all(_in_range(v, k) for v, k in zip(vs, ks)), vs)
    raise AssertionError(f)


ERR = {"IntOverflowError": "overflow", "TypeMismatchError": "mismatch", "ComptimeExprIncoherentListError": "incoherent"}


def _const_payloads(val, out):
    import hugr.val as hv
    from hugr.std.int import IntVal
    from guppylang_internals.std._internal.compiler.arithmetic import UnsignedIntVal
    if isinstance(val, (IntVal, UnsignedIntVal)):
        ext = val.to_value()
        p = ext.val
        out.append(("int" if isinstance(val, IntVal) else "nat", int(p["value"]), int(p["log_width"])))
    elif isinstance(val, hv.Tuple):
        for x in val.vals:
            _const_payloads(x, out)
    elif hasattr(val, "v") and isinstance(val.v, list):  # StaticArrayVal
        for x in val.v:
            _const_payloads(x, out)
    else:
        out.append(("other", type(val).__name__, None))


def _real(case):
    """-> (class, [(kind, payload, log_width)…] | 'float' | None, number of ineg ops)"""
    import feed
    import hugr.ops as ops
    src = _source(case)
    try:
        m = feed.load(src)
    except BaseException as e:  # noqa: BLE001
        return ("load-crash:" + type(e).__name__, None, 0)
    try:
        kind, exc = feed.check_outcome(m.f)
        if kind == "user":
            c = feed.err_class(exc)
            return (ERR.get(c, "other:" + c), None, 0)
        if kind == "crash":
            return ("crash:" + type(exc).__name__, None, 0)
        try:
            g = feed.lower(m.f)
            consts, negs = [], 0
            for n in g.hugr:
                op = g.hugr[n].op
                if isinstance(op, ops.Const):
                    _const_payloads(op.val, consts)
                elif feed.op_name(op) == "arithmetic.int.ineg":
                    negs += 1
            return ("ok", consts, negs)
        except BaseException as e:  # noqa: BLE001
            return ("ok", "lower-crash:" + type(e).__name__ + ":" + str(e)[:80], 0)
    finally:
        feed.unload(m)


def _decode(kind, u):
    return u - P64 if (kind == "int" and u >= P63) else u


# ------------------------------------------------------------------ generation
def _gen_cases(ctx):
    rng = ctx.rng
    cases = []
    B = _boundary_vals()
    # all boundary values, as literal (sign via one minus) at int and nat, and as comptime
    for v in B:
        for k in ("int", "nat"):
            cases.append({"form": "lit", "kind": k, "negs": 1 if v < 0 else 0, "n": abs(v), "pos": "ret"})
            if not ctx.quick or abs(abs(v) - P63) <= 1 or abs(abs(v) - P64) <= 1 or abs(v) <= 1:
                cases.append({"form": "comptime", "kind": k, "v": v, "style": "plain"})
    cases.append({"form": "lit", "kind": "nat", "negs": 1, "n": 0, "pos": "ret"})
    n_rand = ctx.n(330, 19500)
    for _ in range(n_rand):
        r = rng.random()
        if r < 0.36:
            v = _rand_val(rng)
            negs = (1 if v < 0 else 0)
            if rng.random() < 0.12:
                negs += rng.choice([1, 2])
            cases.append({"form": "lit", "kind": rng.choice(["int", "int", "nat", "nat", "float"]) if rng.random() < 0.3 else rng.choice(["int", "nat"]),
                          "negs": negs, "n": abs(v), "pos": rng.choice(["ret", "ann", "arg"])})
        elif r < 0.44:
            v = _rand_val(rng)
            cases.append({"form": "synth", "negs": (1 if v < 0 else 0) + (rng.random() < 0.15), "n": abs(v)})
        elif r < 0.68:
            v = _rand_val(rng)
            style = rng.choice(["plain", "expr", "global"])
            c = {"form": "comptime", "kind": rng.choice(["int", "nat", "int", "nat", "float"]), "v": v, "style": style}
            if style == "expr":
                c["a"] = rng.choice([1, -1, P63, -P63, P64, rng.getrandbits(64)])
            cases.append(c)
        elif r < 0.78:
            n = rng.randrange(1, 4)
            elts = []
            for _i in range(n):
                v = _rand_val(rng) if rng.random() < 0.6 else rng.randrange(-5, 6)
                elts.append((1 if v < 0 else 0, abs(v)))
            cases.append({"form": "ltuple", "kinds": [rng.choice(["int", "nat"]) for _ in range(n)], "elts": elts})
        elif r < 0.9:
            def mk(depth):
                n = rng.randrange(1, 4)
                ks, vs = [], []
                for _i in range(n):
                    if depth < 2 and rng.random() < 0.2:
                        k2, v2 = mk(depth + 1)
                        ks.append(k2); vs.append(v2)
                    else:
                        k = rng.choice(["int", "nat"])
                        if rng.random() < 0.65:   # mostly acceptable, some near-misses
                            v = rng.choice([0, 1, 7, P63 - 1, -P63 if k == "int" else P64 - 1, rng.getrandbits(62)])
                        else:
                            v = _rand_val(rng)
                        ks.append(k); vs.append(v)
                return ks, vs
            ks, vs = mk(0)
            cases.append({"form": "ctuple", "kinds": ks, "vals": vs})
        else:
            k = rng.choice(["int", "nat"])
            n = rng.randrange(0, 5)
            vs = []
            for _i in range(n):
                if rng.random() < 0.75:
                    vs.append(rng.choice([0, 1, 9, P63 - 1, (P64 - 1) if k == "nat" else -P63, rng.getrandbits(61)]))
                else:
                    vs.append(_rand_val(rng))
            cases.append({"form": "clist", "kind": k, "vals": vs})
    return cases


def _key(case):
    return json.dumps(case, sort_keys=True)


def _case_vals(case):
    f = case["form"]
    if f in ("lit", "synth"):
        return [case["n"]]
    if f == "comptime":
        return [case["v"]]
    if f == "ltuple":
        return [n for _ng, n in case["elts"]]
    return _flat(case["vals"])


def tie(ctx):
    cases = []
    corpus = os.path.join(vlib.VERIF, "corpus", "c17")
    if os.path.isdir(corpus):
        for fn in sorted(os.listdir(corpus)):
            cases.extend(json.load(open(os.path.join(corpus, fn))))
    if ctx.replay_in and "case" in ctx.replay_in.get("replay", {}):
        cases.append(ctx.replay_in["replay"]["case"])
    cases.extend(_gen_cases(ctx))
    # model, in one driver call
    reqs, idx = [], []
    for c in cases:
        r = _requests(c)
        idx.append((len(reqs), len(r)))
        reqs.extend(r)
    replies = ctx.driver(DRIVER, reqs)
    if any(r == "bad-op" for r in replies):
        raise vlib.Infra("driver rejected a request: " + reqs[replies.index("bad-op")])
    for c, (o, n) in zip(cases, idx):
        model = _model_outcome(c, replies[o:o + n])
        real = _real(c)
        orc = _oracle(c)
        key = _key(c)
        ctx.count(c, nontrivial=_nontrivial(_case_vals(c)), kind=f"{c['form']}:{real[0].split(':')[0]}")
        src = _source(c)
        # --- real vs oracle (accept/reject, then values)
        if orc is not None:
            acc, vals = orc
            if (real[0] == "ok") != acc:
                ctx.violation("input:" + key,
                              f"integer constant {'accepted' if real[0] == 'ok' else 'rejected (' + real[0] + ')'} but the statement says "
                              f"{'accept' if acc else 'reject'}: {src.strip().splitlines()[-1].strip()}",
                              {"case": c, "source": src, "real": real, "oracle": orc, "model": model})
            elif acc:
                consts, negs = real[1], real[2]
                got = None
                if isinstance(consts, str):
                    ctx.violation("input:" + key, f"accepted integer constant crashes the compiler ({consts})",
                                  {"case": c, "source": src, "real": real, "oracle": orc, "model": model})
                    continue
                if isinstance(consts, list) and all(k in ("int", "nat") and w == 6 for k, _u, w in consts) and len(consts) == len(vals):
                    got = [_decode(k, u) for k, u, _w in consts]
                    if c["form"] in ("lit", "synth") and negs:
                        v = got[0]
                        for _ in range(negs):
                            v = ((-v + P63) % P64) - P63
                        got = [v]
                if got != vals:
                    ctx.violation("input:" + key,
                                  f"compiled constant does not carry the literal's value: expected {vals}, Hugr has {consts} (+{negs} ineg)",
                                  {"case": c, "source": src, "real": real, "oracle": orc, "model": model})
        # --- real vs model
        rcls = real[0]
        if rcls != model[0]:
            ctx.broke(f"correspondence Model/IntLit.lean vs checker on {key}: real={rcls} model={model[0]}")
        elif rcls == "ok" and model[1] != "float":
            rp = [u for _k, u, _w in real[1]] if isinstance(real[1], list) else real[1]
            if rp != model[1] or real[2] != model[2]:
                ctx.broke(f"correspondence Model/IntLit.lean vs lowering on {key}: real payloads={rp} negs={real[2]} model={model[1]} negs={model[2]}")
        elif rcls == "ok" and model[1] == "float":
            # an int literal at float: the constant stays an int constant followed by a conversion (C16)
            pass
    _tie_positions(ctx)


# =====================================================================================================
# literal POSITIONS: every expression position where the CFG builder rewrites, hoists or duplicates nodes
# =====================================================================================================
# `L` is replaced by the literal text (0-3 minus signs + magnitude); `T` by the numeric type (int, or nat where the
# literal is checked against an annotation).  own = integer constants the template itself contains.
POS_TEMPLATES = {
    "cmp_mid": ("def f(x: int, y: int) -> bool:\n    return x < L < y\n", "bool", ()),
    "cmp_mid_le": ("def f(x: int, y: int) -> bool:\n    return x <= L <= y\n", "bool", ()),
    "cmp_first": ("def f(x: int, y: int) -> bool:\n    return L < x < y\n", "bool", ()),
    "cmp_last": ("def f(x: int, y: int) -> bool:\n    return x < y < L\n", "bool", ()),
    "cmp_chain4": ("def f(x: int, y: int) -> bool:\n    return x <= L <= y <= L\n", "bool", ()),
    "cmp_two_mid": ("def f(x: int, y: int) -> bool:\n    return x >= L > L >= y\n", "bool", ()),
    "cmp_if": ("def f(x: int, y: int) -> int:\n    if x < L < y:\n        return x\n    return y\n", "int", ()),
    "and": ("def f(x: int, y: int) -> bool:\n    return x < L and y > L\n", "bool", ()),
    "or": ("def f(x: int, y: int) -> bool:\n    return x == L or y == L\n", "bool", ()),
    "not": ("def f(x: int, y: int) -> bool:\n    return not (x < L)\n", "bool", ()),
    "and_chain": ("def f(x: int, y: int) -> bool:\n    return x < y and x < L < y\n", "bool", ()),
    "ifexp_arm": ("def f(x: int, y: int) -> int:\n    return L if x < y else y\n", "int", ()),
    "ifexp_else": ("def f(x: int, y: int) -> int:\n    return x if x < y else L\n", "int", ()),
    "ifexp_cond": ("def f(x: int, y: int) -> int:\n    return x if L < y else y\n", "int", ()),
    "ifexp_cond_chain": ("def f(x: int, y: int) -> int:\n    return x if x < L < y else y\n", "int", ()),
    "walrus": ("def f(x: int, y: int) -> int:\n    if (z := L) < x:\n        return z\n    return y\n", "int", ()),
    "aug": ("def f(x: int, y: int) -> int:\n    x += L\n    y -= L\n    return x + y\n", "int", ()),
    "call_arg": ("def g(a: T, b: T) -> T:\n    return a\n\n@guppy\ndef f(x: T, y: T) -> T:\n    return g(L, x) + g(y, L)\n", "T", ()),
    "tuple": ("def f(x: T, y: T) -> tuple[T, T, T]:\n    return (L, x, L)\n", ("tuple", ["T", "T", "T"]), ()),
    "array": ("def f(x: int, y: int) -> int:\n    xs = array(L, x, L)\n    return xs[0] + xs[2]\n", "int", (0, 2)),
    "index": ("def f(x: int, y: int) -> int:\n    xs = array(x, y, x)\n    return xs[L]\n", "int", ()),
    "default_ret": ("def f(x: T, y: T) -> T:\n    if x > y:\n        return x\n    return L\n", "T", ()),
    "while": ("def f(x: int, y: int) -> int:\n    while x < L < y:\n        x = y\n    return x\n", "int", ()),
    # argument of an OVERLOADED function: the literal is first tried against an earlier variant (int / float parameter) that
    # fails on a later argument, then against the matching variant's parameter type
    "overload_arg": ("def ov_a(p: int, q: bool) -> int:\n    return p\n\n@guppy\ndef ov_b(p: T, q: T) -> T:\n    return p\n\n"
                     "@guppy.overload(ov_a, ov_b)\ndef ov(): ...\n\n@guppy\ndef f(x: T, y: T) -> T:\n    return ov(L, x)\n", "T", ()),
    "overload_two_lits": ("def ov_a(p: float, q: bool) -> float:\n    return p\n\n@guppy\ndef ov_c(p: int, q: bool) -> int:\n    return p\n\n"
                          "@guppy\ndef ov_b(p: T, q: T) -> T:\n    return p\n\n"
                          "@guppy.overload(ov_a, ov_c, ov_b)\ndef ov(): ...\n\n@guppy\ndef f(x: T, y: T) -> T:\n    return ov(L, 1)\n", "T", (1,)),
    "assign_then_cmp": ("def f(x: int, y: int) -> bool:\n    z = L\n    return x < z < y\n", "bool", ()),
}
POS_WITH_NAT = ("call_arg", "tuple", "default_ret", "overload_arg", "overload_two_lits")


def _pos_source(c, python=False):
    tpl, _shape, _own = POS_TEMPLATES[c["tpl"]]
    if python:
        # CPython reference: the literal with Guppy's run-time wrap-around applied to each *unfolded* minus (C04)
        lit = f"({c['pyval']})"
    else:
        lit = _lit_src(c["negs"], c["n"])
    src = tpl.replace("T", c["kind"]).replace("L", lit)
    return src if python else "@guppy\n" + src


def _pos_shape(c):
    sh = POS_TEMPLATES[c["tpl"]][1]
    if isinstance(sh, tuple):
        return ("tuple", [c["kind"] for _ in sh[1]])
    return c["kind"] if sh == "T" else sh


def _pos_oracle(c):
    """(accept?, folded constant value, value of the literal expression as the program must see it)"""
    k, negs, n = c["kind"], c["negs"], c["n"]
    inner = -n if negs >= 1 else n
    if k == "nat":
        if negs >= 2:
            return (False, None, None)       # `- -n` is an int expression: never a nat
        return (_in_range(inner, "nat"), inner, inner)
    if not _in_range(inner, "int"):
        return (False, None, None)
    v = inner
    for _ in range(max(negs - 1, 0)):
        v = ((-v + P63) % P64) - P63
    return (True, inner, v)


def _pos_args(c, v):
    """argument pairs around the literal's value (clipped to the parameter type's range)"""
    lo, hi = (0, P64 - 1) if c["kind"] == "nat" else (-P63, P63 - 1)
    cand = [v - 1, v, v + 1, -v, 0, 3, lo, hi]
    cand = sorted({min(max(x, lo), hi) for x in cand})
    pairs = [(a, b) for a in cand for b in cand]
    return pairs


def _pos_python(c, pairs):
    """results of the same source under CPython, wrapped to the declared 64-bit types"""
    class _Arr:
        def __class_getitem__(cls, item):
            return list
    class _G:
        def __call__(self, f):
            return f

        def overload(self, *variants):
            return lambda _stub: (lambda *a: variants[-1](*a))    # the matching variant is the last one in the templates
    env = {"guppy": _G(), "nat": int, "array": (lambda *a: list(a)), "__builtins__": {"int": int, "bool": bool, "tuple": tuple, "abs": abs}}
    exec(_pos_source(c, python=True), env)
    wrap = (lambda r: r % P64) if c["kind"] == "nat" else (lambda r: ((r + P63) % P64) - P63)
    out = []
    for a, b in pairs:
        r = env["f"](a, b)
        if isinstance(r, bool):
            out.append(r)
        elif isinstance(r, tuple):
            out.append(tuple(wrap(x) for x in r))
        else:
            out.append(wrap(r))
    return out


def _pos_cases(ctx):
    rng = ctx.rng
    mags = [0, 1, 5, P63 - 1, P63, P63 + 1, P64 - 1, P64]
    cases = []
    corpus = os.path.join(vlib.VERIF, "corpus", "c17_positions")
    if os.path.isdir(corpus):
        for fn in sorted(os.listdir(corpus)):
            cases.extend(json.load(open(os.path.join(corpus, fn))))
    if ctx.replay_in and "poscase" in ctx.replay_in.get("replay", {}):
        cases.append(ctx.replay_in["replay"]["poscase"])
    for tpl in POS_TEMPLATES:
        kinds = ["int", "nat"] if tpl in POS_WITH_NAT else ["int"]
        for kind in kinds:
            if ctx.quick:
                lits = [(1, 5), (0, 5), (1, P63), (0, P63 - 1), (2, 5), (1, P63 + 1), (0, P63), (2, P63)]
                lits += [(rng.randrange(0, 4), rng.choice(mags + [rng.getrandbits(62), rng.getrandbits(64)])) for _ in range(2)]
                if kind == "nat":
                    lits = [(0, 5), (0, P64 - 1), (0, P64), (1, 0), (1, 1), (2, 5)]
            else:
                lits = [(ng, n) for ng in range(4) for n in mags + [rng.getrandbits(62), rng.getrandbits(63), rng.getrandbits(64)]]
            for ng, n in lits:
                cases.append({"form": "pos", "tpl": tpl, "kind": kind, "negs": ng, "n": n})
    return cases


def _tie_positions(ctx):
    import feed
    import hugr.ops as ops
    import hugr_interp as hi
    cases = _pos_cases(ctx)
    reqs = []
    for c in cases:
        reqs += [f"lit {c['kind']} {c['negs']} {c['n']}", f"eval {c['negs']} {c['n']}"]
    replies = ctx.driver(DRIVER, reqs)
    skipped = 0
    for i, c in enumerate(cases):
        key = json.dumps(c, sort_keys=True)
        mcls = replies[2 * i].split(":")[0]
        acc, inner, v = _pos_oracle(c)
        own = set(POS_TEMPLATES[c["tpl"]][2])
        src = _pos_source(c)
        line = next(l.strip() for l in src.splitlines() if "- " * c["negs"] + str(c["n"]) in l)
        rep = {"poscase": c, "source": src}
        # ---- real
        try:
            m = feed.load(src)
        except BaseException as e:  # noqa: BLE001
            ctx.broke(f"position probe does not load: {key}: {type(e).__name__}")
            continue
        try:
            kind, exc = feed.check_outcome(m.f)
            rcls = "ok" if kind == "ok" else (ERR.get(feed.err_class(exc), "other:" + feed.err_class(exc)) if kind == "user" else "crash:" + type(exc).__name__)
            ctx.count(c, nontrivial=_nontrivial([c["n"]]) or c["negs"] >= 1, kind=f"pos:{c['tpl']}:{rcls.split(':')[0]}")
            if (rcls == "ok") != acc:
                ctx.violation("input:" + key,
                              f"literal `{_lit_src(c['negs'], c['n'])}` in position {c['tpl']} ({c['kind']}) is "
                              f"{'accepted' if rcls == 'ok' else 'rejected (' + rcls + ')'} but the statement says {'accept' if acc else 'reject'}: `{line}`",
                              dict(rep, real=rcls, oracle=acc))
                continue
            if c["tpl"].startswith("overload"):
                # every variant's failure is folded into one OverloadNoMatchError: only accept/reject is comparable
                if (rcls == "ok") != (mcls == "ok"):
                    ctx.broke(f"correspondence Model/IntLit.lean vs checker at position {key}: real={rcls} model={mcls}")
            elif rcls != mcls:
                ctx.broke(f"correspondence Model/IntLit.lean vs checker at position {key}: real={rcls} model={mcls}")
            if rcls != "ok":
                continue
            try:
                g = feed.lower(m.f)
            except BaseException as e:  # noqa: BLE001
                ctx.violation("input:" + key, f"accepted literal crashes the compiler at position {c['tpl']}: {type(e).__name__}: {str(e)[:80]}: `{line}`", rep)
                continue
            consts, negs = [], 0
            for nd in g.hugr:
                op = g.hugr[nd].op
                if isinstance(op, ops.Const):
                    _const_payloads(op.val, consts)
                elif feed.op_name(op) == "arithmetic.int.ineg":
                    negs += 1
            got = {_decode(k, u) for k, u, _w in consts if k in ("int", "nat")}
            want = {inner} | own
            if got != want:
                ctx.violation("input:" + key,
                              f"constants of the compiled program {sorted(got)} are not the literal's {sorted(want)} (position {c['tpl']}): `{line}`",
                              dict(rep, consts=sorted(got), want=sorted(want), ineg=negs))
                continue
            if (negs > 0) != (c["negs"] >= 2):
                ctx.broke(f"correspondence Model/IntLit.fold vs builder at position {key}: {negs} ineg ops for {c['negs']} minus signs")
            # ---- evaluate the lowered program (reference interpreter) against CPython
            if c["tpl"] == "index":
                continue   # negative / huge index: Guppy panics where Python wraps around — not a literal question
            c2 = dict(c, pyval=v)
            pairs = _pos_args(c, v)
            try:
                want_vals = _pos_python(c2, pairs)
            except BaseException as e:  # noqa: BLE001
                ctx.broke(f"python reference failed for {key}: {type(e).__name__}: {e}")
                continue
            for (a, b), w in zip(pairs, want_vals):
                try:
                    r = hi.run(g.hugr, "f", [a, b], ret_shape=_pos_shape(c))
                except (hi.Unsupported, hi.OutOfFuel):
                    skipped += 1
                    break
                except hi.InterpError as e:
                    ctx.broke(f"interpreter error on {key}: {e}")
                    break
                out = r.outcome()
                if out != ("value", w):
                    ctx.violation("input:" + key,
                                  f"compiled program computes {out} on ({a}, {b}), Python gives {w}: literal `{_lit_src(c['negs'], c['n'])}` at position {c['tpl']}: `{line}`",
                                  dict(rep, args=[a, b], real=repr(out), oracle=repr(w)))
                    break
        finally:
            feed.unload(m)
    ctx.extra["position_cases"] = len(cases)
    ctx.extra["position_interp_skipped"] = skipped


if __name__ == "__main__":
    vlib.main(sys.modules[__name__])
