"""C10 — Compiler output and diagnostics are deterministic (partial)."""
from __future__ import annotations

import concurrent.futures
import json
import os
import subprocess
import sys

sys.path.insert(0, os.path.dirname(os.path.dirname(os.path.abspath(__file__))))
import vlib
sys.path.insert(0, os.path.dirname(os.path.abspath(__file__)))
sys.path.insert(0, os.path.join(vlib.VERIF, "harness", "translate"))

PID = "C10"
THEOREM_MODULES = ["GuppyVerif.Props.C10"]
DRIVER = "C10"
RULE = (
    "(a) a pool of fixed witnesses, generated programs (the C08 generator: undefined / re-typed variables, loops, nested "
    "functions) and /repo's own tests/error modules (a sample in quick, all in thorough and whenever a proof or tie broke) is checked, lowered and serialised (Hugr.to_str) or its diagnostic rendered, in fresh processes under different "
    "PYTHONHASHSEED values and heap perturbations; all outputs per program must be identical. (b) update_reachable, "
    "check_rows_match and sort_vars are run on random inputs in several arrangements and compared with the Lean models. "
    "Non-trivial = the program is rejected with >=1 candidate variable or accepted with a branch; distinct by source text"
)
ASSUMPTIONS = [
    "CPython is deterministic apart from set iteration order (string hashes vary with PYTHONHASHSEED, identity hashes with object addresses)",
    "the site inventory is syntactic (set literals/constructors/operators, names and attributes annotated or assigned as sets); a set reaching an iteration through an untyped parameter is not seen by it — the multi-process runs are the backstop",
    "classification of each site (membership only / result is a set / ordered container) is by reading the code; only the iterating sites have Lean theorems",
]
UNMODELLED = [
    "sites classified `unproven` (listed in evidence.coverage.uncovered_sites): expr_checker.check_call picks an arbitrary unsolved variable for a sub-note",
    "nondeterminism from outside the compiler (hugr/tket_exts/pytket internals)",
]
MANIFEST = {
    "level_text": "Lean theorems: update_reachable flags do not depend on the set's pop order (any order; = path reachability); iterating "
    "sorted(a set) / min(a set) / sort_vars / the index assignments of partially_monomorphize_args give the same result for every "
    "permutation the set may yield; C09's schedule-independence theorems for the analysis results. The inventory of ALL set "
    "construction/iteration sites is regenerated from /repo's source on every run and `all_sites_classified` (decide over the regenerated "
    "table) fails if a site appears or changes kind. Tie + search on the real code: programs are compiled in fresh processes under several "
    "hash seeds and heap layouts and the serialised HUGR / rendered diagnostics compared byte for byte; the three modelled functions are "
    "compared with the Lean models on random inputs.",
    "level_note": "Partial: the argument 'only set iteration is nondeterministic' and the per-site classification are by inspection; one site "
    "is classified unproven. Multi-process runs sample hash seeds and layouts.",
    "technique": "Lean 4 proofs of order-independence per set-iteration site + regenerated site inventory (decide) + multi-process hash-seed / heap-layout differential runs",
    "design_ref": "DESIGN.md §5 C10",
    "ready": True,
}

GEN = os.path.join(vlib.LEAN, "GuppyVerif", "Gen", "C10SetSites.lean")


def translate(ctx):
    import bootstrap
    import c10_sites

    sites = c10_sites.scan(bootstrap.REPO)
    txt = c10_sites.to_lean(sites)
    if not os.path.exists(GEN) or open(GEN).read() != txt:
        with open(GEN, "w") as f:
            f.write(txt)
    ctx.extra["set_sites"] = len(sites)
    ctx.extra["iteration_sites"] = [list(s) for s in sites if s[2] != "construct"]


# ------------------------------------------------------------------ witnesses

WITNESSES = [
    {"name": "two-undefined", "target": "f", "src": """
@guppy
def f(c: bool, d: bool) -> int:
    if c:
        x = 1
        w = 2
    while d:
        y = x
        z = w
    return w + x
"""},
    {"name": "two-retyped", "target": "f", "src": """
@guppy
def f(c: bool) -> int:
    if c:
        aaa = 1
        bbb = 2
    else:
        aaa = 1.5
        bbb = 2.5
    u = aaa
    v = bbb
    return 0
"""},
    {"name": "mono-two-params", "target": "foo", "src": """
@guppy.declare
def foo[T: (Copy, Drop), x: T]() -> T: ...
"""},
    {"name": "struct-two-overrides", "target": "f", "src": """
@guppy.struct
class S:
    @guppy
    def alpha(self: "S") -> int:
        return 1
    @guppy
    def beta(self: "S") -> int:
        return 1
    @guppy
    def gamma(self: "S") -> int:
        return 1
    alpha: int
    beta: int
    gamma: int
@guppy
def f(s: S) -> None:
    pass
"""},
    {"name": "d1-dead-code", "target": "f", "src": """
@guppy
def f(x: int) -> int:
    y = x + 1
    if y > 0:
        return 1
        z = x
    return 0
"""},
    {"name": "branch-many-live", "target": "f", "src": """
@guppy
def f(c: bool, a: int, b: float) -> float:
    p = a + 1
    q = b * 2.0
    r = a - 3
    if c:
        s = p + r
        t = q
    else:
        s = r
        t = q + 1.0
    while s > 0:
        s = s - 1
        t = t + q
    return t
"""},
    {"name": "qubits-branch", "target": "f", "prelude": "from guppylang.std.quantum import qubit, h, measure, cx\n", "src": """
@guppy
def f(c: bool) -> bool:
    q1 = qubit()
    q2 = qubit()
    n = 3
    if c:
        h(q1)
        n = n + 1
    else:
        cx(q1, q2)
    b1 = measure(q1)
    b2 = measure(q2)
    return b1 and b2 and n > 2
"""},
    {"name": "struct-generic", "target": "f", "src": """
@guppy.struct
class P:
    a: int
    b: float
@guppy
def g(p: P, k: int) -> P:
    return P(p.a + k, p.b)
@guppy
def f(x: int) -> float:
    p = P(x, 1.0)
    i = 0
    while i < 3:
        p = g(p, i)
        i += 1
    return p.b
"""},
]


# "maybe not defined" diagnostics with several branch notes: their content is computed from collections of basic
# blocks (hashed by address), so an order-dependent choice shows up under heap perturbation.  Several shapes, to
# give every run a good chance of two different address orders.
_MAYBE_SHAPES = {
    "nested-if": "    if a:\n        if b:\n            y = 1\n    return y\n",
    "if-in-loop": "    while n > 0:\n        if a:\n            if b:\n                y = n\n        n -= 1\n    return y\n",
    "three-deep": "    if a:\n        if b:\n            if n > 1:\n                y = 1\n    return y\n",
    "two-vars": "    if a:\n        if b:\n            y = 1\n            z = 2\n    if b:\n        if a:\n            z = 3\n    return y + z\n",
    "elif-chain": "    if a:\n        y = 1\n    elif b:\n        if n > 2:\n            y = 2\n    elif n > 5:\n        y = 3\n    return y\n",
    "loop-break": "    while n > 0:\n        if a:\n            if b:\n                y = n\n                break\n        n -= 1\n    return y\n",
}
for _k in range(3):  # the same shapes three times: three different allocation points within one worker
    for _mn, _mb in _MAYBE_SHAPES.items():
        WITNESSES.append({"name": f"maybe-undefined-{_mn}-{_k}", "target": "f",
                          "src": f"@guppy\ndef f(a: bool, b: bool, n: int) -> int:\n{_mb}"})

# diagnostics that mention a Python VALUE (comptime expressions Guppy cannot represent): the text must not
# contain anything run-dependent (default reprs with addresses, hash-ordered set reprs).  values x positions.
_COMPTIME_VALUES = {
    "object": "Gadget()", "function": "helper", "lambda": "(lambda: 1)", "str-set": "{'aa', 'bb', 'cc', 'dd'}",
    "complex": "1j", "class": "Gadget", "module": "math",
    "dict-of-sets": "{'k': {'p', 'q', 'r'}}", "bound-method": "Gadget().m", "nested-list": "[Gadget(), {'x', 'y', 'z'}]",
}
_COMPTIME_POSITIONS = {
    "synth": "    y = comptime(val)\n    return 0\n",
    "annotated": "    y: int = comptime(val)\n    return y\n",
    "return": "    return comptime(val)\n",
    "argument": "    return takes_int(comptime(val))\n",
    "operand": "    return 1 + comptime(val)\n",
    "tuple-elem": "    t: tuple[int, int] = (1, comptime(val))\n    return t[0]\n",
}
for _vn, _ve in _COMPTIME_VALUES.items():
    for _pn, _pb in _COMPTIME_POSITIONS.items():
        WITNESSES.append({
            "name": f"comptime-{_vn}-{_pn}", "target": "f",
            "prelude": "import math\nclass Gadget:\n    def m(self):\n        return 1\ndef helper():\n    return 1\n",
            "src": f"val = {_ve}\n@guppy\ndef takes_int(x: int) -> int:\n    return x\n@guppy\ndef f() -> int:\n{_pb}",
        })


def _programs(ctx, everything=False):
    progs = [dict(w) for w in WITNESSES]
    import c08

    for i in range(ctx.n(24, 300)):
        body = c08.gen_program(ctx.rng)
        progs.append({"name": f"gen{i}", "target": "f", "src": c08.source(c08._tuplify(body)), "prelude": c08.PRELUDE_EXTRA})
    # /repo's own error tests (every diagnostic path the maintainers thought of), as whole modules
    import c02_harvest

    errs = c02_harvest.error_programs()
    if not everything:
        errs = ctx.rng.sample(errs, min(len(errs), ctx.n(60, 10**6)))
    for name, src in errs:
        progs.append({"name": "tests/error/" + name, "target": "", "src": src, "module": True})
    return progs


def _run_worker(seed, perturb, progs):
    import bootstrap

    env = dict(os.environ)
    env["PYTHONHASHSEED"] = str(seed)
    env["VERIF_REPO"] = bootstrap.REPO
    env.pop("CQCL_GUPPYLANG_VERIF", None)  # hooks off: observe the real iteration orders
    p = subprocess.run(
        ["/venv/bin/python", os.path.join(vlib.VERIF, "harness", "c10_worker.py")],
        input=json.dumps({"perturb": perturb, "programs": progs}), capture_output=True, text=True, env=env, timeout=3000,
    )
    if p.returncode != 0:
        raise vlib.Infra("c10 worker failed: " + p.stderr[-1500:])
    return json.loads(p.stdout)


def _multiprocess(ctx, progs, nseeds):
    seeds = [(s, 1000 * s + 17) for s in range(nseeds)]
    with concurrent.futures.ThreadPoolExecutor(max_workers=min(8, nseeds)) as ex:
        results = list(ex.map(lambda sp: _run_worker(sp[0], sp[1], progs), seeds))
    for i, prog in enumerate(progs):
        outs = [json.dumps(r[i], sort_keys=True) for r in results]
        kinds = {r[i]["kind"] for r in results}
        nontrivial = "diag" in kinds or "if " in prog["src"]
        ctx.count(prog["src"], nontrivial, kind="outcome:" + "/".join(sorted(kinds)))
        if len(set(outs)) > 1:
            a = outs[0]
            j = next(k for k, o in enumerate(outs) if o != a)
            ctx.violation(
                "input:" + prog["src"],
                f"program `{prog['name']}` gives different output under PYTHONHASHSEED={seeds[0][0]} and {seeds[j][0]}",
                {"program": prog, "seed_a": seeds[0], "out_a": results[0][i], "seed_b": seeds[j], "out_b": results[j][i]},
            )
        for r in results:
            if r[i]["kind"] in ("load-exc",) and not prog.get("module"):
                raise vlib.Infra(f"c10 worker could not load program {prog['name']}: {r[i]['text']}")
    ctx.extra["processes"] = len(seeds)


# ------------------------------------------------------------------ model ties


def _tie_models(ctx):
    rng = ctx.rng
    lines, expect = [], []
    # (1) update_reachable
    from guppylang_internals.cfg.cfg import CFG

    for _ in range(ctx.n(150, 3000)):
        n = rng.randint(2, 9)
        succ = {b: [] for b in range(n)}
        for _e in range(rng.randint(0, 2 * n)):
            a, b = rng.randrange(n), rng.randrange(n)
            if b not in succ[a]:
                succ[a].append(b)
        cfg = CFG()
        while len(cfg.bbs) < n:
            cfg.new_bb()
        for a in range(n):
            for b in succ[a]:
                cfg.link(cfg.bbs[a], cfg.bbs[b])
        try:
            cfg.update_reachable()
            real = "ok " + " ".join("1" if bb.reachable else "0" for bb in cfg.bbs)
        except Exception as e:  # noqa: BLE001
            real = "exception:" + type(e).__name__
        # oracle: DFS
        seen, st = set(), [0]
        while st:
            u = st.pop()
            if u not in seen:
                seen.add(u)
                st += succ[u]
        orc = "ok " + " ".join("1" if b in seen else "0" for b in range(n))
        tbl = "(succ" + "".join(" (" + " ".join(map(str, [a, *succ[a]])) + ")" for a in range(n) if succ[a]) + ")"
        for sched in ("min", "max", "last"):
            lines.append(f"(reach {n} {tbl} {sched})")
            expect.append(("update_reachable", real))
        ctx.count(lines[-1], any(len(v) > 1 for v in succ.values()), kind="reach")
        if real != orc:
            ctx.violation("input:reach " + json.dumps(succ, sort_keys=True),
                          f"update_reachable flags {real} differ from path reachability {orc}",
                          {"succ": succ, "real": real, "oracle": orc})
    # (2) check_rows_match on permuted rows, (3) sort_vars on permuted rows
    from guppylang_internals.checker.cfg_checker import check_rows_match
    from guppylang_internals.checker.core import Variable
    from guppylang_internals.compiler.cfg_compiler import sort_vars
    from guppylang_internals.error import GuppyError
    from guppylang_internals.tys.builtin import bool_type, int_type, float_type
    from guppylang_internals.std._internal.compiler.tket_exts import QUANTUM_EXTENSION  # noqa: F401
    from guppylang_internals.tys.ty import NumericType

    tys = [NumericType(NumericType.Kind.Int), NumericType(NumericType.Kind.Float), bool_type()]
    try:
        from guppylang.std.quantum import qubit

        qty = qubit._defn if hasattr(qubit, "_defn") else None
    except Exception:  # noqa: BLE001
        qty = None
    from guppylang_internals.tys.builtin import array_type  # noqa: F401

    class FakeBB:
        pass

    for _ in range(ctx.n(200, 4000)):
        k = rng.randint(1, 6)
        names = rng.sample(range(1, 40), k)
        t1 = {x: rng.randrange(3) for x in names}
        t2 = {x: (t1[x] if rng.random() < 0.6 else rng.randrange(3)) for x in names}
        outs = set()
        for _p in range(3):
            o1 = rng.sample(names, k)
            o2 = rng.sample(names, k)
            r1 = [Variable(f"v{x:03d}", tys[t1[x]], None) for x in o1]
            r2 = [Variable(f"v{x:03d}", tys[t2[x]], None) for x in o2]
            try:
                # the error construction needs cfg.live_before; catch at the first mismatch instead
                res = "none"
                m1 = {v.name: v for v in r1}
                m2 = {v.name: v for v in r2}
                import guppylang_internals.checker.cfg_checker as cc

                class _Stop(Exception):
                    pass

                class _BB:
                    class containing_cfg:  # noqa: N801
                        class live_before(dict):  # noqa: N801
                            pass

                bb = _BB()
                lb = {}

                class _LB(dict):
                    def __getitem__(self, key):
                        raise _Stop(key)

                class _D(dict):
                    def __getitem__(self, key):
                        return _LB()

                bb.containing_cfg = type("C", (), {"live_before": _D()})()
                try:
                    check_rows_match(r1, r2, bb)
                except _Stop as s:
                    res = str(s.args[0])
            except Exception as e:  # noqa: BLE001
                res = "exception:" + type(e).__name__
            outs.add(res)
        real = sorted(outs)[0] if len(outs) == 1 else "varies:" + ",".join(sorted(outs))
        mism = sorted(x for x in names if t1[x] != t2[x])
        orc = f"v{mism[0]:03d}" if mism else "none"
        ctx.count(["rows", names, t1, t2], len(mism) >= 2, kind="rowsmatch")
        if real != orc:
            ctx.violation("input:rows " + json.dumps([names, t1, t2], sort_keys=True),
                          f"check_rows_match reports {real}, expected the first mismatching name in sorted order {orc}",
                          {"names": names, "t1": t1, "t2": t2, "real": real, "oracle": orc})
        lines.append("(mismatch (keys " + " ".join(map(str, rng.sample(names, k))) + ") (t1" + "".join(f" ({x} {t1[x]})" for x in names)
                     + ") (t2" + "".join(f" ({x} {t2[x]})" for x in names) + "))")
        expect.append(("check_rows_match", "none" if real == "none" else (str(int(real[1:])) if real.startswith("v") and real[1:].isdigit() else real)))
    # sort_vars
    from guppylang_internals.tys.builtin import array_type as _arr  # noqa: F401
    from guppylang_internals.tys.arg import ConstArg, TypeArg  # noqa: F401
    from guppylang_internals.tys.const import ConstValue  # noqa: F401

    lin = None
    try:
        from guppylang_internals.tys.builtin import array_type
        from guppylang_internals.tys.ty import NumericType as _N

        lin = array_type(tys[0], 2)  # arrays are not copyable but droppable? use a qubit type if available
    except Exception:  # noqa: BLE001
        lin = None
    try:
        import guppylang.std.quantum as _q
        from guppylang_internals.engine import DEF_STORE
        from guppylang_internals.tys.parsing import type_from_ast  # noqa: F401

        qdef = _q.qubit
        from guppylang_internals.definition.ty import TypeDef

        qd = DEF_STORE.raw_defs[qdef.id]
        qubit_ty = qd.check_instantiate([], None)
    except Exception:  # noqa: BLE001
        qubit_ty = None
    if qubit_ty is not None:
        for _ in range(ctx.n(150, 3000)):
            k = rng.randint(1, 6)
            names = rng.sample(range(1, 40), k)
            drop = {x: rng.random() < 0.6 for x in names}
            outs = set()
            for _p in range(3):
                row = [Variable(f"v{x:03d}", tys[0] if drop[x] else qubit_ty, None) for x in rng.sample(names, k)]
                try:
                    outs.add(" ".join(str(int(str(v)[1:])) for v in sort_vars(row)))
                except Exception as e:  # noqa: BLE001
                    outs.add("exception:" + type(e).__name__)
            real = sorted(outs)[0] if len(outs) == 1 else "varies:" + "|".join(sorted(outs))
            orc = " ".join(map(str, sorted((x for x in names), key=lambda x: (not drop[x], f"v{x:03d}"))))
            ctx.count(["sortvars", names, drop], len(names) >= 2, kind="sortvars")
            if real != orc:
                ctx.violation("input:sortvars " + json.dumps([names, drop], sort_keys=True),
                              f"sort_vars gives {real}, expected {orc}", {"names": names, "droppable": drop, "real": real, "oracle": orc})
            lines.append("(sortvars (row " + " ".join(map(str, rng.sample(names, k))) + ") (drop " + " ".join(str(x) for x in names if drop[x]) + "))")
            expect.append(("sort_vars", real))
    else:
        ctx.extra["sort_vars_tie"] = "skipped: could not build a non-droppable type"
    replies = ctx.driver(DRIVER, lines)
    for (what, real), rep, line in zip(expect, replies, lines):
        if rep != real:
            ctx.broke(f"correspondence Model/Determ.lean vs {what}: real={real} model={rep} on {line[:300]}")
            break


def tie(ctx):
    progs = _programs(ctx)
    _multiprocess(ctx, progs, ctx.n(6, 16))
    _tie_models(ctx)
    # sites not covered by a theorem, from the regenerated table (reported, not hidden)
    ctx.extra["uncovered_sites"] = ctx.driver(DRIVER, ["(uncovered)"])[0]


def search(ctx, why):
    # a proof or tie broke: run the determinism differential with more seeds
    progs = _programs(ctx, everything=True)
    _multiprocess(ctx, progs, 16)


if __name__ == "__main__":
    vlib.main(sys.modules[__name__])
