"""Structural validator for the in-memory `hugr.Hugr` produced by /repo's lowering (property C01).

No HUGR validator accepts /repo's output in this sandbox (dependency drift), so this module
re-implements the structural part of HUGR validation that the property statement names:
ports well-typed, every linear value consumed exactly once, region / control-flow / order-edge
structure well-formed.  It is written against the HUGR specification, not against the compiler.

`validate(hugr) -> list[Complaint]`; a complaint is `(code, message)`; codes:

  hier        parent is not a container / wrong child kind / children of a leaf op
  io          first two children of a dataflow container are not Input, Output / extra Input/Output
  sig         Input/Output node rows differ from the parent's declared signature
  port        a port index outside the op's signature, or op incomplete (types never set)
  type        value link whose source type differs from target type
  kind        link between ports of different kinds (value/const/function/cf/order)
  unlinked    value in-port with no incoming link / static in-port unconnected / cf out-port unconnected
  multi-in    in-port with more than one incoming link
  linear      non-copyable value out-port linked != 1 times
  nonlocal    value / order / const-function edge between non-siblings (reported separately; ext
              edges from an ancestor's sibling are legal HUGR but the compiler says it avoids them;
              anything else is illegal and reported as `nonlocal-illegal`)
  cycle       dataflow siblings not acyclic
  cfg         block successor row mismatch, exit mismatch, entry mismatch, wrong child order
  cond        case count / case rows differ from the conditional's sum rows / outputs
  loop        TailLoop body rows
  static      Call / LoadFunc / LoadConst static edge target of wrong kind or signature
  varscope    a type / row / const variable (de Bruijn index) occurring in an op, a port type or a
              signature inside a FuncDefn that is not bound by that FuncDefn's parameter list, or is bound
              to a parameter of another kind (type vs bounded-nat) or of a weaker bound
"""
from __future__ import annotations

import json
from typing import Any

import hugr.ops as ops
import hugr.tys as ht
from hugr.hugr.node_port import InPort, OutPort, Node

Complaint = tuple[str, str]


# --------------------------------------------------------------------------- types
def _ser(x: Any) -> Any:
    s = x._to_serial()
    return s.model_dump(mode="json") if hasattr(s, "model_dump") else s


def _canon(ty: Any) -> str:
    try:
        return json.dumps(_ser(ty), sort_keys=True, default=str)
    except Exception:  # noqa: BLE001
        return repr(ty)


def ty_eq(a: Any, b: Any) -> bool:
    try:
        if a == b:
            return True
    except Exception:  # noqa: BLE001
        pass
    return _canon(a) == _canon(b)


def row_eq(a, b) -> bool:
    a, b = list(a), list(b)
    return len(a) == len(b) and all(ty_eq(x, y) for x, y in zip(a, b))


def _row_str(r) -> str:
    return "[" + ", ".join(str(t) for t in r) + "]"


def is_copyable(ty: Any) -> bool:
    return ty.type_bound() == ht.TypeBound.Copyable


# ------------------------------------------------------------- substitution (for Call/LoadFunc)
class _NoSubst(Exception):
    pass


def _subst(j: Any, args: list[Any]) -> Any:
    """Substitute serialised type args for de-Bruijn variables in a serialised type/row."""
    if isinstance(j, list):
        out = []
        for x in j:
            if isinstance(x, dict) and x.get("t") == "R":
                a = args[x["i"]]
                # row variable: argument is a list arg of types
                if a.get("tya") in ("List", "Sequence") and all(e.get("tya") == "Type" for e in a.get("elems", [])):
                    out.extend(e["ty"] for e in a["elems"])
                    continue
                raise _NoSubst
            out.append(_subst(x, args))
        return out
    if isinstance(j, dict):
        if j.get("t") == "V":
            a = args[j["i"]]
            if a.get("tya") == "Type":
                return a["ty"]
            raise _NoSubst
        if j.get("t") == "R":
            raise _NoSubst
        if j.get("tya") == "Variable":
            idx = j.get("idx", j.get("i"))
            if idx is None:
                raise _NoSubst
            return args[idx]
        return {k: _subst(v, args) for k, v in j.items()}
    return j


def _strip_bounds(j: Any) -> Any:
    """Opaque types cache a bound that may legitimately change under substitution; drop it."""
    if isinstance(j, list):
        return [_strip_bounds(x) for x in j]
    if isinstance(j, dict):
        return {k: _strip_bounds(v) for k, v in j.items() if not (k == "bound" and j.get("t") == "Opaque")}
    return j


def instantiation_matches(poly: ht.PolyFuncType, type_args: list, inst: ht.FunctionType) -> bool | None:
    """True/False, or None when substitution is outside what this helper supports."""
    try:
        body = _ser(poly.body)
        args = [_ser(a) for a in type_args]
        got = _subst(body, args)
        want = _ser(inst)
        return json.dumps(_strip_bounds(got), sort_keys=True) == json.dumps(_strip_bounds(want), sort_keys=True)
    except (_NoSubst, IndexError, KeyError, AttributeError, TypeError):
        return None


# --------------------------------------------------------------------------- helpers
DF_CONTAINERS = (ops.FuncDefn, ops.DFG, ops.Case, ops.DataflowBlock, ops.TailLoop)
CONTAINERS = (ops.Module, ops.CFG, ops.Conditional, *DF_CONTAINERS)
STATIC_DEFS = (ops.FuncDefn, ops.FuncDecl, ops.Const, ops.AliasDecl, ops.AliasDefn)


def _kind_tag(k: Any) -> str:
    return {
        ht.ValueKind: "value", ht.ConstKind: "const", ht.FunctionKind: "function",
        ht.CFKind: "cf", ht.OrderKind: "order",
    }.get(type(k), type(k).__name__)


def _opname(op: Any) -> str:
    try:
        if isinstance(op, ops.ExtOp):
            return op.op_def().qualified_name()
        if isinstance(op, ops.Custom):
            return f"{op.extension}.{op.op_name}"
    except Exception:  # noqa: BLE001
        pass
    return type(op).__name__


class _V:
    def __init__(self, h):
        self.h = h
        self.out: list[Complaint] = []
        self.nonlocal_edges = 0

    def c(self, code: str, msg: str) -> None:
        if len(self.out) < 200:
            self.out.append((code, msg))

    def d(self, n: Node) -> str:
        return f"{n.idx}:{_opname(self.h[n].op)}"

    # ---- port kinds / types, guarded
    def kind(self, p):
        try:
            return self.h.port_kind(p)
        except ops.IncompleteOp:
            self.c("port", f"{self.d(p.node)} port {p.offset}: op is incomplete (types never set)")
        except Exception as e:  # noqa: BLE001  (InvalidPort, IndexError ...)
            self.c("port", f"{self.d(p.node)} has no {'in' if isinstance(p, InPort) else 'out'}-port {p.offset} ({type(e).__name__})")
        return None

    def is_ancestor(self, a: Node, n: Node) -> bool:
        while n is not None:
            if n == a:
                return True
            n = self.h[n].parent
        return False

    # ---- passes
    def run(self) -> list[Complaint]:
        h = self.h
        nodes = list(h)
        roots = [n for n in nodes if h[n].parent is None]
        if len(roots) != 1 or not isinstance(h[roots[0]].op, ops.Module):
            self.c("hier", f"expected exactly one parentless Module root, got {[self.d(r) for r in roots]}")
        for n in nodes:
            self.node(n)
        self.links()
        self.varscope()
        return self.out

    def node(self, n: Node) -> None:
        h = self.h
        op = h[n].op
        par = h[n].parent
        kids = h.children(n)
        if par is not None:
            pop = h[par].op
            if not isinstance(pop, CONTAINERS):
                self.c("hier", f"{self.d(n)}: parent {self.d(par)} is not a container op")
            elif isinstance(pop, ops.Module):
                if not isinstance(op, STATIC_DEFS):
                    self.c("hier", f"{self.d(n)}: not allowed as a child of Module")
            elif isinstance(pop, ops.CFG):
                if not isinstance(op, (ops.DataflowBlock, ops.ExitBlock)):
                    self.c("hier", f"{self.d(n)}: not a basic block but child of CFG")
            elif isinstance(pop, ops.Conditional):
                if not isinstance(op, ops.Case):
                    self.c("hier", f"{self.d(n)}: not a Case but child of Conditional")
            else:  # dataflow container
                if isinstance(op, (ops.Module, ops.Case, ops.DataflowBlock, ops.ExitBlock)):
                    self.c("hier", f"{self.d(n)}: not allowed inside dataflow region {self.d(par)}")
            if n not in h.children(par):
                self.c("hier", f"{self.d(n)}: not listed among its parent's children")
        for k in kids:
            if h[k].parent != n:
                self.c("hier", f"{self.d(k)}: listed as child of {self.d(n)} but parent differs")
        if kids and not isinstance(op, CONTAINERS):
            self.c("hier", f"{self.d(n)}: non-container op has children")
        if isinstance(op, DF_CONTAINERS):
            self.df_region(n, op, kids)
        if isinstance(op, ops.CFG):
            self.cfg(n, op, kids)
        if isinstance(op, ops.Conditional):
            self.cond(n, op, kids)

    def df_region(self, n: Node, op, kids) -> None:
        h = self.h
        if len(kids) < 2 or not isinstance(h[kids[0]].op, ops.Input) or not isinstance(h[kids[1]].op, ops.Output):
            self.c("io", f"{self.d(n)}: first two children are not Input, Output: {[self.d(k) for k in kids[:2]]}")
            return
        for k in kids[2:]:
            if isinstance(h[k].op, (ops.Input, ops.Output)):
                self.c("io", f"{self.d(n)}: extra {self.d(k)} in region")
        try:
            sig = op.inner_signature()
            i_types = h[kids[0]].op.types
            o_types = h[kids[1]].op.types
        except ops.IncompleteOp:
            self.c("port", f"{self.d(n)}: container signature or its Input/Output incomplete")
            return
        if not row_eq(sig.input, i_types):
            self.c("sig", f"{self.d(n)}: Input node row {_row_str(i_types)} != declared inputs {_row_str(sig.input)}")
        if not row_eq(sig.output, o_types):
            self.c("sig", f"{self.d(n)}: Output node row {_row_str(o_types)} != declared outputs {_row_str(sig.output)}")
        if isinstance(op, ops.TailLoop):
            try:
                outer = op.outer_signature()
                if not row_eq(outer.input, sig.input):
                    self.c("loop", f"{self.d(n)}: loop inputs differ from body inputs")
            except ops.IncompleteOp:
                self.c("port", f"{self.d(n)}: TailLoop incomplete")
        # acyclicity of the sibling graph (value + order edges, local only)
        idx = {k: i for i, k in enumerate(kids)}
        indeg = [0] * len(kids)
        succs: list[list[int]] = [[] for _ in kids]
        for k in kids:
            for _o, ins in h.outgoing_links(k):
                for ip in ins:
                    # a non-local (ext) edge counts as an edge to the target's ancestor in this region
                    t = ip.node
                    while t is not None and t not in idx:
                        t = h[t].parent
                    j = idx.get(t) if t is not None else None
                    if j is not None and j != idx[k]:
                        succs[idx[k]].append(j)
                        indeg[j] += 1
                    elif j is not None and ip.node == k:
                        self.c("cycle", f"{self.d(k)}: node feeds itself")
        stack = [i for i, dg in enumerate(indeg) if dg == 0]
        seen = 0
        while stack:
            i = stack.pop()
            seen += 1
            for j in succs[i]:
                indeg[j] -= 1
                if indeg[j] == 0:
                    stack.append(j)
        if seen != len(kids):
            cyc = [self.d(kids[i]) for i, dg in enumerate(indeg) if dg > 0][:6]
            self.c("cycle", f"{self.d(n)}: dataflow siblings contain a cycle through {cyc}")

    def cfg(self, n: Node, op, kids) -> None:
        h = self.h
        if not kids or not isinstance(h[kids[0]].op, ops.DataflowBlock):
            self.c("cfg", f"{self.d(n)}: first child is not the entry DataflowBlock")
            return
        exits = [k for k in kids if isinstance(h[k].op, ops.ExitBlock)]
        if len(exits) != 1:
            self.c("cfg", f"{self.d(n)}: {len(exits)} exit blocks")
            return
        # NB hugr-py keeps the exit wherever it was created and moves it to position 1 on
        # serialisation; position is therefore not checked here.
        try:
            if not row_eq(h[kids[0]].op.inputs, op.inputs):
                self.c("cfg", f"{self.d(n)}: entry block inputs {_row_str(h[kids[0]].op.inputs)} != CFG inputs {_row_str(op.inputs)}")
            if not row_eq(h[exits[0]].op.cfg_outputs, op.outputs):
                self.c("cfg", f"{self.d(n)}: exit block row {_row_str(h[exits[0]].op.cfg_outputs)} != CFG outputs {_row_str(op.outputs)}")
        except ops.IncompleteOp:
            self.c("port", f"{self.d(n)}: CFG / exit outputs incomplete")
        for k in kids:
            bop = h[k].op
            if not isinstance(bop, ops.DataflowBlock):
                continue
            try:
                nvar = len(bop.sum_ty.variant_rows)
            except ops.IncompleteOp:
                self.c("port", f"{self.d(k)}: block outputs never set")
                continue
            links = {o.offset: ins for o, ins in h.outgoing_links(k)}
            for i in range(nvar):
                ins = links.get(i, [])
                if len(ins) != 1:
                    self.c("unlinked", f"{self.d(k)}: successor port {i} has {len(ins)} links")
                    continue
                tgt = ins[0].node
                if h[tgt].parent != n:
                    self.c("cfg", f"{self.d(k)}: successor {self.d(tgt)} is not a sibling block")
                    continue
                top = h[tgt].op
                row = bop.nth_outputs(i)
                try:
                    want = top.inputs if isinstance(top, ops.DataflowBlock) else top.cfg_outputs if isinstance(top, ops.ExitBlock) else None
                except ops.IncompleteOp:
                    want = None
                if want is None:
                    self.c("cfg", f"{self.d(k)}: successor {self.d(tgt)} is not a block")
                elif not row_eq(row, want):
                    self.c("cfg", f"{self.d(k)}: branch {i} passes {_row_str(row)} but successor {self.d(tgt)} expects {_row_str(want)}")
            for off in links:
                if off >= nvar and off != -1 and links[off]:
                    self.c("cfg", f"{self.d(k)}: control-flow link from port {off} beyond its {nvar} variants")

    def cond(self, n: Node, op, kids) -> None:
        h = self.h
        rows = op.sum_ty.variant_rows
        if len(kids) != len(rows):
            self.c("cond", f"{self.d(n)}: {len(kids)} cases for {len(rows)} variants")
            return
        for i, k in enumerate(kids):
            cop = h[k].op
            if not isinstance(cop, ops.Case):
                continue
            try:
                if not row_eq(cop.inputs, op.nth_inputs(i)):
                    self.c("cond", f"{self.d(k)}: case {i} inputs {_row_str(cop.inputs)} != {_row_str(op.nth_inputs(i))}")
                if not row_eq(cop.outputs, op.outputs):
                    self.c("cond", f"{self.d(k)}: case {i} outputs {_row_str(cop.outputs)} != conditional outputs {_row_str(op.outputs)}")
            except ops.IncompleteOp:
                self.c("port", f"{self.d(k)}: case / conditional outputs incomplete")

    # ---- variable scoping
    def _vars_in(self, j: Any, params: list, where: str) -> None:
        """every variable occurrence in the serialised term `j` is bound by `params` with a matching kind"""
        if isinstance(j, list):
            for x in j:
                self._vars_in(x, params, where)
            return
        if not isinstance(j, dict):
            return
        if "params" in j and "body" in j and isinstance(j["params"], list):
            # a polymorphic signature binds its own variables
            self._vars_in(j["body"], j["params"], where + " (callee signature)")
            return
        t = j.get("t")
        if t in ("V", "R") and "i" in j:
            i = j["i"]
            if not isinstance(i, int) or i >= len(params):
                self.c("varscope", f"{where}: type variable #{i} but only {len(params)} parameters are bound")
            else:
                p = params[i]
                want = "Type" if t == "V" else "List"
                if p.get("tp") != want and not (t == "R" and p.get("tp") == "List"):
                    self.c("varscope", f"{where}: type variable #{i} is bound to a parameter of kind {p.get('tp')}")
                elif t == "V" and j.get("b") == "C" and p.get("b") not in ("C",):
                    self.c("varscope", f"{where}: variable #{i} used as Copyable but bound with bound {p.get('b')}")
            return
        if j.get("tya") == "Variable":
            i = j.get("idx", j.get("i"))
            if not isinstance(i, int) or i >= len(params):
                self.c("varscope", f"{where}: argument variable #{i} but only {len(params)} parameters are bound")
            else:
                decl = j.get("cached_decl") or {}
                if decl.get("tp") and params[i].get("tp") != decl.get("tp"):
                    self.c("varscope", f"{where}: variable #{i} used as {decl.get('tp')} but bound as {params[i].get('tp')}")
            return
        for k, v in j.items():
            if k != "cached_decl":
                self._vars_in(v, params, where)

    def varscope(self) -> None:
        h = self.h
        scope: dict[Node, list] = {}

        def params_of(n: Node) -> list:
            """parameters of the nearest enclosing FuncDefn (none at module level)"""
            if n in scope:
                return scope[n]
            op = h[n].op
            if isinstance(op, ops.FuncDefn):
                try:
                    r = [_ser(p) for p in op.params]
                except Exception:  # noqa: BLE001
                    r = []
            else:
                par = h[n].parent
                r = params_of(par) if par is not None else []
            scope[n] = r
            return r

        for n in h:
            op = h[n].op
            if isinstance(op, ops.Module):
                continue
            try:
                j = op._to_serial(h[n].parent or n).model_dump(mode="json")
            except Exception:  # noqa: BLE001  (incomplete ops are reported elsewhere)
                continue
            if isinstance(op, (ops.FuncDefn, ops.FuncDecl)):
                # {"signature": {"params", "body"}}: handled by the polymorphic-signature rule
                self._vars_in(j.get("signature", j), [], self.d(n))
                continue
            self._vars_in(j, params_of(n), self.d(n))
            # port types are derived from the op, but extension ops cache a signature: check those too
            if isinstance(op, ops.DataflowOp):
                try:
                    sig = op.outer_signature()
                    self._vars_in(_ser(sig), params_of(n), self.d(n) + " (port types)")
                except Exception:  # noqa: BLE001
                    pass

    # ---- links
    def links(self) -> None:
        h = self.h
        in_count: dict[InPort, int] = {}
        out_count: dict[OutPort, int] = {}
        for src, dst in h.links():
            in_count[dst] = in_count.get(dst, 0) + 1
            out_count[src] = out_count.get(src, 0) + 1
            if src.node not in h or dst.node not in h:
                self.c("hier", f"link {src} -> {dst} touches a deleted node")
                continue
            sp, dp = h[src.node].parent, h[dst.node].parent
            if (src.offset == -1) != (dst.offset == -1):
                self.c("kind", f"link {self.d(src.node)}.{src.offset} -> {self.d(dst.node)}.{dst.offset} mixes order and non-order ports")
                continue
            if src.offset == -1:
                if sp != dp:
                    self.c("order", f"order edge {self.d(src.node)} -> {self.d(dst.node)} between non-siblings")
                elif not isinstance(h[sp].op, DF_CONTAINERS):
                    self.c("order", f"order edge {self.d(src.node)} -> {self.d(dst.node)} outside a dataflow region")
                continue
            sk, dk = self.kind(src), self.kind(dst)
            if sk is None or dk is None:
                continue
            st, dt = _kind_tag(sk), _kind_tag(dk)
            if st != dt:
                self.c("kind", f"link {self.d(src.node)}.{src.offset} ({st}) -> {self.d(dst.node)}.{dst.offset} ({dt})")
                continue
            if st == "value":
                if not ty_eq(sk.ty, dk.ty):
                    self.c("type", f"link {self.d(src.node)}.{src.offset} : {sk.ty}  ->  {self.d(dst.node)}.{dst.offset} : {dk.ty}")
                if sp != dp:
                    self.nonlocal_edges += 1
                    # legal ext edge: source's parent is a proper ancestor of target's parent
                    if sp is not None and dp is not None and self.is_ancestor(sp, dp) and is_copyable(sk.ty):
                        self.c("nonlocal", f"non-local value edge {self.d(src.node)}.{src.offset} -> {self.d(dst.node)}.{dst.offset}")
                    elif (sp is not None and isinstance(h[sp].op, ops.DataflowBlock) and h[sp].parent is not None
                          and self.is_ancestor(h[sp].parent, dp) and is_copyable(sk.ty)):
                        # dominator edge between basic blocks of one CFG (dominance itself is not checked here)
                        self.c("nonlocal", f"dom value edge {self.d(src.node)}.{src.offset} -> {self.d(dst.node)}.{dst.offset}")
                    else:
                        self.c("nonlocal-illegal", f"value edge {self.d(src.node)}.{src.offset} -> {self.d(dst.node)}.{dst.offset} is neither local nor a legal ext edge")
            elif st in ("function", "const"):
                self.static(src, dst, sk, dk)
            elif st == "cf":
                if sp != dp or sp is None or not isinstance(h[sp].op, ops.CFG):
                    self.c("cfg", f"control-flow edge {self.d(src.node)} -> {self.d(dst.node)} not between sibling blocks")
        # per node port census
        for n in h:
            op = h[n].op
            if isinstance(op, (ops.DataflowBlock, ops.ExitBlock, ops.Module, ops.Case, ops.FuncDecl, ops.Const, ops.AliasDecl, ops.AliasDefn)):
                continue
            if isinstance(op, ops.FuncDefn):
                continue
            try:
                sig = op.outer_signature()
            except ops.IncompleteOp:
                self.c("port", f"{self.d(n)}: signature incomplete")
                continue
            except Exception as e:  # noqa: BLE001
                self.c("port", f"{self.d(n)}: outer_signature raised {type(e).__name__}: {e}")
                continue
            n_in, n_out = len(sig.input), len(sig.output)
            for i in range(n_in):
                c = in_count.get(InPort(n, i), 0)
                if c == 0:
                    self.c("unlinked", f"{self.d(n)}: value in-port {i} : {sig.input[i]} has no incoming link")
                elif c > 1:
                    self.c("multi-in", f"{self.d(n)}: value in-port {i} has {c} incoming links")
            static_in = 1 if isinstance(op, (ops.Call, ops.LoadFunc, ops.LoadConst)) else 0
            if static_in:
                c = in_count.get(InPort(n, n_in), 0)
                if c != 1:
                    self.c("unlinked", f"{self.d(n)}: static in-port {n_in} has {c} links")
            for i in range(n_out):
                ty = sig.output[i]
                c = out_count.get(OutPort(n, i), 0)
                if not is_copyable(ty) and c != 1:
                    self.c("linear", f"{self.d(n)}: non-copyable out-port {i} : {ty} linked {c} times")
        for p in list(in_count) + list(out_count):
            if p.offset == -1 or p.node not in h:
                continue
            op = h[p.node].op
            if isinstance(op, (ops.DataflowBlock, ops.ExitBlock, ops.FuncDefn, ops.FuncDecl, ops.Const)):
                continue
            try:
                sig = op.outer_signature()
            except Exception:  # noqa: BLE001
                continue
            if isinstance(p, InPort):
                lim = len(sig.input) + (1 if isinstance(op, (ops.Call, ops.LoadFunc, ops.LoadConst)) else 0)
            else:
                lim = len(sig.output)
            if p.offset >= lim:
                self.c("port", f"{self.d(p.node)}: link on {'in' if isinstance(p, InPort) else 'out'}-port {p.offset} beyond signature ({lim} ports)")

    def static(self, src: OutPort, dst: InPort, sk, dk) -> None:
        h = self.h
        sop, dop = h[src.node].op, h[dst.node].op
        if isinstance(dop, (ops.Call, ops.LoadFunc)):
            if not isinstance(sop, (ops.FuncDefn, ops.FuncDecl)):
                self.c("static", f"{self.d(dst.node)}: static edge from {self.d(src.node)} which is not a function")
                return
            try:
                fsig = sop.signature
            except ops.IncompleteOp:
                self.c("port", f"{self.d(src.node)}: function signature incomplete")
                return
            if _canon(fsig) != _canon(dop.signature):
                self.c("static", f"{self.d(dst.node)}: declared callee signature {dop.signature} != target {self.d(src.node)} signature {fsig}")
            if len(dop.type_args) != len(fsig.params):
                self.c("static", f"{self.d(dst.node)}: {len(dop.type_args)} type args for {len(fsig.params)} params")
            else:
                m = instantiation_matches(dop.signature, dop.type_args, dop.instantiation)
                if m is False:
                    self.c("static", f"{self.d(dst.node)}: instantiation {dop.instantiation} is not signature {dop.signature} at {dop.type_args}")
                elif m is None:
                    self.uninst = getattr(self, "uninst", 0) + 1
        elif isinstance(dop, ops.LoadConst):
            if not isinstance(sop, ops.Const):
                self.c("static", f"{self.d(dst.node)}: LoadConst from {self.d(src.node)}")
            elif not ty_eq(sk.ty if hasattr(sk, "ty") else None, dk.ty):
                self.c("static", f"{self.d(dst.node)}: constant type {sk.ty} loaded as {dk.ty}")
        # static edges may come from any ancestor's region (they are not value edges)
        sp, dp = h[src.node].parent, h[dst.node].parent
        if sp is None or not self.is_ancestor(sp, dp):
            self.c("nonlocal-illegal", f"static edge {self.d(src.node)} -> {self.d(dst.node)}: definition not in an enclosing region")


def validate(h) -> list[Complaint]:
    """All structural complaints about `h` (empty list: structurally valid)."""
    v = _V(h)
    try:
        return v.run()
    except Exception as e:  # noqa: BLE001
        import traceback

        return v.out + [("validator-crash", f"{type(e).__name__}: {e} @ {traceback.format_exc(limit=3)}")]


def dump(h) -> str:
    """Compact listing of a Hugr for notes / replays."""
    lines = []
    for n in h:
        d = h[n]
        outs = "; ".join(f"{o.offset}->" + ",".join(f"{i.node.idx}.{i.offset}" for i in ins) for o, ins in h.outgoing_links(n))
        lines.append(f"{n.idx} {_opname(d.op)} parent={d.parent.idx if d.parent else None} [{outs}]")
    return "\n".join(lines)


def selftest(h) -> dict[str, list[str]]:
    """Perturb a (valid) Hugr in known-bad ways and report which complaint codes each perturbation
    triggers.  Used by the check to make sure the validator is not vacuously quiet."""
    import copy

    res: dict[str, list[str]] = {}

    def codes(hh):
        return sorted({c for c, _ in validate(hh)} - {"nonlocal"})

    links = [(s, d) for s, d in h.links() if s.offset >= 0 and d.offset >= 0]
    val_links = []
    for s, d in links:
        try:
            ks, kd = h.port_kind(s), h.port_kind(d)
        except Exception:  # noqa: BLE001
            continue
        if isinstance(ks, ht.ValueKind) and isinstance(kd, ht.ValueKind):
            val_links.append((s, d, ks.ty))
    lin = [(s, d) for s, d, t in val_links if not is_copyable(t)]
    if lin:
        hh = copy.deepcopy(h)
        s, d = lin[0]
        hh.delete_link(s, d)
        res["drop-linear-link"] = codes(hh)
        hh = copy.deepcopy(h)
        other = next(((s2, d2) for s2, d2, _ in val_links if d2 != d and s2 != s), None)
        if other:
            hh.delete_link(*other)
            hh.add_link(s, other[1])
            res["duplicate-linear-use"] = codes(hh)
    # retarget a link to a source of a different type
    for s, d, t in val_links:
        alt = next((s2 for s2, _d2, t2 in val_links if not ty_eq(t, t2) and h[s2.node].parent == h[d.node].parent), None)
        if alt is not None:
            hh = copy.deepcopy(h)
            hh.delete_link(s, d)
            hh.add_link(alt, d)
            res["ill-typed-link"] = codes(hh)
            break
    # order edge between non-siblings
    nodes = list(h)
    pair = next(((a, b) for a in nodes for b in nodes
                 if h[a].parent is not None and h[b].parent is not None and h[a].parent != h[b].parent
                 and isinstance(h[h[a].parent].op, DF_CONTAINERS) and isinstance(h[h[b].parent].op, DF_CONTAINERS)
                 and not isinstance(h[a].op, (ops.Input, ops.Output)) and not isinstance(h[b].op, (ops.Input, ops.Output))), None)
    if pair:
        hh = copy.deepcopy(h)
        hh.add_order_link(pair[0], pair[1])
        res["order-edge-across-regions"] = codes(hh)
    # cycle among siblings via an order edge back
    for s, d, _t in val_links:
        if h[s.node].parent == h[d.node].parent and not isinstance(h[s.node].op, ops.Input) and not isinstance(h[d.node].op, ops.Output):
            hh = copy.deepcopy(h)
            hh.add_order_link(d.node, s.node)
            res["cycle"] = codes(hh)
            break
    # swap the successors of a branching block
    for n in h:
        op = h[n].op
        if isinstance(op, ops.DataflowBlock):
            outs = {o.offset: ins for o, ins in h.outgoing_links(n) if o.offset >= 0}
            if len(outs) == 2 and outs[0] and outs[1] and outs[0][0].node != outs[1][0].node:
                try:
                    r0, r1 = op.nth_outputs(0), op.nth_outputs(1)
                except Exception:  # noqa: BLE001
                    continue
                if not row_eq(r0, r1):
                    hh = copy.deepcopy(h)
                    a, b = outs[0][0], outs[1][0]
                    hh.delete_link(OutPort(n, 0), a)
                    hh.delete_link(OutPort(n, 1), b)
                    hh.add_link(OutPort(n, 0), b)
                    hh.add_link(OutPort(n, 1), a)
                    res["swap-successors"] = codes(hh)
                    break
    return res
