"""C31 — Printed types read back as the same type; distinct variables get distinct names."""
from __future__ import annotations

import ast
import json
import math
import os
import re
import sys

sys.path.insert(0, os.path.dirname(os.path.dirname(os.path.abspath(__file__))))
import vlib

PID = "C31"
THEOREM_MODULES = ["GuppyVerif.Props.C31"]
DRIVER = "C31"
RULE = (
    "case = (parameter context, type) built from the REAL classes. Stream A (round trip): random first-order types over "
    "int/nat/float/bool/str/None/qubit, tuples of arity 0..3 (1-tuples and empty tuples over-represented), nested "
    "array/Option/frozenarray/SizedIter/Either/Result/Future and 15 struct definitions (generic, nat/bool/float/int and "
    "dependent const parameters), free bound type/const variables of a random parameter context; ~20% deliberately outside "
    "the theorem's class (int / negative / inf / nan const values, ill-kinded arguments, shadowed or globally bound variable "
    "names, lists). Stream B (names): function types, generic ones with repeated parameter names, comptime parameters, "
    "existential type/const variables, plus higher-rank and non-closed ones (model=real only). Stream C (reader): mutated "
    "printed strings (dropped/extra/swapped arguments, `tuple[...]`, redundant parentheses, missing trailing commas, "
    "negative numbers, unknown names) parsed by CPython and fed to the real type_from_ast and the model's stage 2. "
    "Per case: real str(ty), real ast, real type_from_ast(ast.parse(str(ty))) and ==, real copyable/droppable, real "
    "variable-occurrence names (tracing wrapper around the real TypePrinter) against the Lean driver, and against the "
    "oracle (in-class => reads back ==; names equal <=> same variable). non-trivial = contains a tuple, a const "
    "argument or a generic struct/opaque; distinct by canonical request line"
)
ASSUMPTIONS = [
    "CPython: ast.parse on the printed fragment (tokenisation of the rendered string, `X[(a, b)]` == `X[a, b]`), str(int), "
    "float(repr(x)) == x for finite non-negative floats, dict semantics of param_var_mapping",
    "display names and definition names are Python identifiers other than None/True/False (so they contain neither ' nor ?)",
    "the Lean model Model/Print.lean is hand-written; agreement with printing.py / parsing.py / param.py / builtin.py is "
    "established by the same-input correspondence run here (stage 1 against CPython's ast, stage 2 against type_from_ast)",
    "the theorem's classifier hypothesis (copyable/droppable ignore the `preserve` flag) is proved for the model's classifier, "
    "which is compared with the real Type.copyable/droppable on every case",
]
MANIFEST = {
    "level_text": "Lean theorems for ALL types (structural induction, no bound): parse_print — for every well-formed "
    "first-order type (numerics, bool, str, None, tuples of any arity, opaque generics and generic structs resolvable in the "
    "definition environment and kind-correct, nat/bool/non-negative-float const arguments, free bound variables named by the "
    "parameter context) reading the printed tokens back (CPython expression grammar on the printed fragment, then "
    "arg_from_ast/type_from_ast/check_all_args) yields the same type up to the `preserve` flag (Python ==); "
    "distinct_vars_distinct_names — in the printed form of any rank-1 type (closed generic function types with repeated "
    "parameter names and comptime parameters, existential variables anywhere; or non-generic types whose free variables are "
    "named by a context of pairwise distinct names) two variable occurrences are printed with the same name iff they are the "
    "same variable; fresh_names_nodup — `_fresh_name` never returns the same name twice. The full round-trip statement is "
    "false for int-typed / negative / inf / nan const arguments (witness theorems, known findings). Model tied to /repo on "
    "every run by same-input correspondence on random real type objects (quick ~4500, thorough ~110000 cases incl. every first-order type of depth <= 2 over a small signature).",
    "level_note": "Trusted: Lean kernel + propext/Classical.choice/Quot.sound; the hand-written model of printer, CPython "
    "expression parser (fragment) and type reader (correspondence is sampling); CPython's tokenizer/ast on the rendered "
    "string (checked per case against the model's stage 1); identifiers contain neither ' nor ?. /repo was repaired twice "
    "(1-tuples, sole tuple argument) and the REPAIRED printer is what is modelled.",
    "technique": "Lean 4 proof (mutual structural induction over the nested type family; state invariant for the "
    "fresh-name scheme) + differential correspondence with printing.py / parsing.py on real type objects",
    "design_ref": "DESIGN.md §5 C31",
    "ready": True,
}
UNMODELLED = [
    "Callable[...] / Self / qualified names (module.attr) / string (delayed) annotations / comptime(...) expressions / @flags in the reader",
    "legacy guppy.type_var / nat_var definitions (ParamDef) as globals",
    "unification of const-parameter types that contain function types or existential variables",
    "signature_to_str; diagnostics that embed str(ty)",
    "CPython int->str digit limit (nat constants above 10**4300 make str() raise)",
]

EXTRA_SRC = '''
from _verif_tyenv import *
@guppy.struct
class Si[x: int]:
    a: int
@guppy.struct
class Sf[x: float]:
    a: int
@guppy.struct
class Sb[x: bool]:
    a: bool
@guppy.struct
class Sd[T: (Copy, Drop), x: T]:
    a: T
@guppy.struct
class Sm[b: bool, T, n: nat, f: float]:
    xs: array[T, n]
@guppy
def some_function(x: int) -> int:
    return x
not_a_def = 5
'''
EXTRA_STRUCTS = ["Si", "Sf", "Sb", "Sd", "Sm"]

_W = None


class World:
    def __init__(self):
        import feed
        import tysexp
        from guppylang_internals.checker.core import Globals
        from guppylang_internals.engine import ENGINE

        self.tenv = tysexp.env()
        self.module = feed.load(EXTRA_SRC, name="_verif_c31_env")
        self.structs = dict(self.tenv.structs)
        for n in EXTRA_STRUCTS:
            self.structs[n] = ENGINE.get_checked(getattr(self.module, n).id)
        self.struct_names = list(self.structs)
        self.opaques = self.tenv.opaques
        g = Globals(None)
        g.f_globals = self.module.__dict__
        self.globals = g
        self.env_line, self.defs = self._env_line()

    def _env_line(self):
        import tysexp
        from guppylang_internals.checker.core import PythonObject
        from guppylang_internals.definition.struct import CheckedStructDef, ParsedStructDef
        from guppylang_internals.definition.ty import OpaqueTypeDef
        from guppylang_internals.engine import ENGINE
        from guppylang_internals.tys import builtin as B

        g = self.globals
        names = sorted(n for n in set(self.module.__dict__) | set(g.builtin_defs()) if n.isidentifier())
        out, defs = [], {}
        for n in names:
            try:
                if n not in g:
                    continue
                d = g[n]
            except BaseException:  # noqa: BLE001
                continue
            if isinstance(d, PythonObject):
                continue
            defs[n] = d
            ps = lambda d: " ".join(tysexp.param_sexp(p) for p in d.params)
            b = lambda x: "1" if x else "0"
            if isinstance(d, B._NumericTypeDef):
                out.append(f"(num {n} {d.ty.kind.name.lower()})")
            elif isinstance(d, B._TupleTypeDef):
                out.append(f"(tuple {n})")
            elif isinstance(d, B.WasmModuleTypeDef | B.CallableTypeDef | B.SelfTypeDef | B._NoneTypeDef):
                out.append(f"(special {n})")
            elif isinstance(d, OpaqueTypeDef):
                out.append(f"(opaque {n} {tysexp._atom(d.name)} ({ps(d)}) {b(d.never_copyable)} {b(d.never_droppable)} "
                           f"{b(isinstance(d, B._ListTypeDef))})")
            elif isinstance(d, ParsedStructDef | CheckedStructDef):
                c = ENGINE.get_checked(d.id)
                fs = " ".join(tysexp.ty_sexp(f.ty) for f in c.fields)
                out.append(f"(struct {n} {tysexp._atom(c.name)} ({ps(c)}) ({fs}))")
            elif type(d).__name__ == "ParamDef":
                out.append(f"(special {n})")
            else:
                out.append(f"(nontype {n})")
        return "env 0 (" + " ".join(out) + ")", defs


def world() -> World:
    global _W
    if _W is None:
        _W = World()
    return _W


# ------------------------------------------------------------------ real side
def _err_name(ex) -> str:
    from guppylang_internals.error import GuppyError

    if isinstance(ex, SyntaxError):
        return "SyntaxError"
    if isinstance(ex, GuppyError):
        return type(ex.error).__name__
    return "Crash"


def real_print(t) -> str:
    try:
        return "P " + str(t)
    except BaseException:  # noqa: BLE001
        return "CRASH"


def real_read_node(node, pm):
    import tysexp
    from guppylang_internals.tys.parsing import TypeParsingCtx, type_from_ast

    try:
        t2 = type_from_ast(node, TypeParsingCtx(world().globals, dict(pm)))
    except BaseException as ex:  # noqa: BLE001
        return "err " + _err_name(ex), None
    return "ok " + tysexp.ty_sexp(t2), t2


def real_read(s: str, pm):
    try:
        node = ast.parse(s, mode="eval").body
    except SyntaxError:
        return "err SyntaxError", None
    except BaseException:  # noqa: BLE001
        return "err Crash", None
    return real_read_node(node, pm)


def ast_sexp(node) -> str | None:
    """CPython ast -> the driver's ast syntax; None = outside the modelled fragment"""
    if isinstance(node, ast.Name):
        return f"(name {node.id})"
    if isinstance(node, ast.Constant):
        v = node.value
        if v is None:
            return "none"
        if isinstance(v, bool):
            return f"(bool {1 if v else 0})"
        if isinstance(v, int):
            return f"(nat {v})"
        if isinstance(v, float):
            return f"(float {repr(v)})"
        return None
    if isinstance(node, ast.UnaryOp) and isinstance(node.op, ast.USub):
        e = ast_sexp(node.operand)
        return None if e is None else f"(neg {e})"
    if isinstance(node, ast.Tuple):
        es = [ast_sexp(e) for e in node.elts]
        return None if any(e is None for e in es) else "(tuple" + "".join(" " + e for e in es) + ")"
    if isinstance(node, ast.Subscript):
        v, s = ast_sexp(node.value), ast_sexp(node.slice)
        return None if v is None or s is None else f"(sub {v} {s})"
    return None


def real_ast(s: str) -> str:
    try:
        node = ast.parse(s, mode="eval").body
    except SyntaxError:
        return "err SyntaxError"
    r = ast_sexp(node)
    return "err Unsupported" if r is None else r


def real_occs(t):
    """(variable id, printed name) per occurrence, observed on the REAL printer through a tracing wrapper"""
    from guppylang_internals.tys.param import ConstParam, TypeParam
    from guppylang_internals.tys.printing import TypePrinter
    from guppylang_internals.tys.var import BoundVar, ExistentialVar

    pr = TypePrinter()
    orig = pr._visit
    occs = []

    def traced(ty, inside_row):
        s = orig(ty, inside_row)
        if isinstance(ty, BoundVar):
            occs.append(("b", ty.idx, s))
        elif isinstance(ty, ExistentialVar):
            occs.append(("e", ty.id, s))
        elif isinstance(ty, TypeParam):
            occs.append(("b", ty.idx, s))
        elif isinstance(ty, ConstParam):
            occs.append(("b", ty.idx, s.split(":")[0]))
        return s

    pr._visit = traced
    try:
        pr.visit(t)
    except BaseException:  # noqa: BLE001
        return None
    return occs


# ------------------------------------------------------------------ oracles (independent of printer and reader)
def _ground(ty) -> bool:
    from guppylang_internals.tys import builtin as B
    from guppylang_internals.tys.ty import NumericType

    return isinstance(ty, NumericType) or ty == B.bool_type()


def _plain_float(v) -> bool:
    return isinstance(v, float) and math.isfinite(v) and math.copysign(1.0, v) > 0


def in_class(t, pm) -> bool:
    """the hypothesis of parse_print, recomputed on the real objects"""
    from guppylang_internals.checker.core import PythonObject
    from guppylang_internals.engine import ENGINE
    from guppylang_internals.tys import builtin as B
    from guppylang_internals.tys import ty as T
    from guppylang_internals.tys.arg import ConstArg, TypeArg
    from guppylang_internals.tys.const import BoundConstVar, ConstValue
    from guppylang_internals.tys.param import ConstParam, TypeParam, check_all_args

    W = world()

    def is_def(name):
        return name in W.defs

    def var_ok(name, idx, want):
        p = pm.get(name)
        return p is not None and p == want and p.idx == idx and not is_def(name) and name.isidentifier()

    def go(t):
        if isinstance(t, T.NumericType | T.NoneType):
            return True
        if isinstance(t, T.BoundTypeVar):
            return var_ok(t.display_name, t.idx, TypeParam(t.idx, t.display_name, t.copyable, t.droppable))
        if isinstance(t, T.TupleType):
            return all(go(e) for e in t.element_types)
        if isinstance(t, T.OpaqueType | T.StructType):
            d = W.defs.get(t.defn.name)
            if d is None:
                return False
            if isinstance(t, T.StructType):
                if not hasattr(d, "fields") or ENGINE.get_checked(d.id) != t.defn:
                    return False
            elif d is not t.defn or isinstance(d, B._ListTypeDef):
                return False
            for p in t.defn.params:
                if isinstance(p, ConstParam) and not _ground(p.ty):
                    return False
            for a in t.args:
                if isinstance(a, TypeArg):
                    if not go(a.ty):
                        return False
                elif isinstance(a, ConstArg):
                    c = a.const
                    if isinstance(c, ConstValue):
                        v = c.value
                        ok = (
                            (c.ty == B.nat_type() and type(v) is int and v >= 0)
                            or (c.ty == B.bool_type() and type(v) is bool)
                            or (c.ty == B.float_type() and _plain_float(v))
                        )
                        if not ok:
                            return False
                    elif isinstance(c, BoundConstVar):
                        if not (_ground(c.ty) and var_ok(c.display_name, c.idx, ConstParam(c.idx, c.display_name, c.ty))):
                            p = pm.get(c.display_name)
                            if not (isinstance(p, ConstParam) and p.idx == c.idx and p.ty == c.ty and _ground(c.ty)
                                    and not is_def(c.display_name)):
                                return False
                    else:
                        return False
            try:
                check_all_args(t.defn.params, t.args, t.defn.name)
            except BaseException:  # noqa: BLE001
                return False
            return True
        return False

    return go(t)


def _identlike(s: str) -> bool:
    return s.isidentifier() and s not in ("None", "True", "False")


def names_in_class(t, ctx_params) -> bool:
    """the hypothesis of distinct_vars_distinct_names, recomputed on the real objects"""
    from guppylang_internals.tys import ty as T
    from guppylang_internals.tys.arg import ConstArg, TypeArg
    from guppylang_internals.tys.const import BoundConstVar, ConstValue, ExistentialConstVar
    from guppylang_internals.tys.param import ConstParam

    top_params = list(t.params) if isinstance(t, T.FunctionType) else []
    n = len(top_params)
    ctx_names = [p.name for p in ctx_params]
    ok = [True]

    def bvar(name, idx):
        if not _identlike(name):
            ok[0] = False
        if n:
            if idx >= n:
                ok[0] = False
        else:
            if idx >= len(ctx_names) or ctx_names[idx] != name:
                ok[0] = False

    def go(t, top):
        if isinstance(t, T.BoundTypeVar):
            bvar(t.display_name, t.idx)
        elif isinstance(t, T.ExistentialTypeVar):
            if not _identlike(t.display_name):
                ok[0] = False
        elif isinstance(t, T.TupleType):
            for e in t.element_types:
                go(e, False)
        elif isinstance(t, T.FunctionType):
            if t.params and not top:
                ok[0] = False
            for i in t.inputs:
                go(i.ty, False)
            go(t.output, False)
            for i, p in enumerate(t.params):
                if p.idx != i or not _identlike(p.name):
                    ok[0] = False
                if isinstance(p, ConstParam):
                    go(p.ty, False)
        elif isinstance(t, T.OpaqueType | T.StructType):
            for a in t.args:
                if isinstance(a, TypeArg):
                    go(a.ty, False)
                elif isinstance(a, ConstArg):
                    c = a.const
                    if isinstance(c, BoundConstVar):
                        bvar(c.display_name, c.idx)
                    elif isinstance(c, ExistentialConstVar):
                        if not _identlike(c.display_name):
                            ok[0] = False

    go(t, True)
    if not n and len(set(ctx_names)) != len(ctx_names):
        ok[0] = False
    return ok[0]


def names_ok(occs) -> bool:
    """the property's literal reading: same printed name <=> same variable"""
    by_name, by_var = {}, {}
    for k, i, s in occs:
        by_name.setdefault(s, set()).add((k, i))
        by_var.setdefault((k, i), set()).add(s)
    return all(len(v) == 1 for v in by_name.values()) and all(len(v) == 1 for v in by_var.values())


# ------------------------------------------------------------------ generators
def _mk_gen(rng, params, **kw):
    import tysexp
    from guppylang_internals.tys import builtin as B
    from guppylang_internals.tys import ty as T
    from guppylang_internals.tys.arg import ConstArg, TypeArg
    from guppylang_internals.tys.const import ConstValue, ExistentialConstVar

    W = world()

    class Gen(tysexp.TyGen):
        wild = kw.pop("wild", False)  # allow values outside the theorem's class
        cevars = kw.pop("cevars", False)

        def nat_const(self):
            if self.cevars and rng.random() < 0.15:
                self._evar_id += 1
                return ExistentialConstVar(B.nat_type(), rng.choice(["n", "T", "k"]), self._evar_id)
            c = super().nat_const()
            if isinstance(c, ConstValue) and rng.random() < 0.1:
                return ConstValue(B.nat_type(), rng.choice([10**30, 2**64, 255, 1000003]))
            if self.wild and rng.random() < 0.05:
                return ConstValue(B.nat_type(), rng.choice([-1, -7]))
            return c

        def const_of(self, ty):
            if ty == B.nat_type():
                return self.nat_const()
            if ty == B.bool_type():
                return ConstValue(ty, rng.random() < 0.5)
            if ty == B.float_type():
                good = [0.0, 0.5, 1.0, 1e20, 1e-7, 5e-324, 1.7976931348623157e308, 3.141592653589793, 2.5e-5, 123456789.125]
                bad = [-2.25, float("inf"), float("-inf"), float("nan"), -0.0, -1e-9]
                return ConstValue(ty, rng.choice(bad if self.wild and rng.random() < 0.3 else good))
            if ty == B.int_type():
                return ConstValue(ty, rng.choice([-5, -1, 0, 1, 42]))
            return super().const_of(ty)

        def _gen(self, depth, need_copy, need_drop):
            if depth <= 0 or rng.random() < 0.15:
                return self.leaf(need_copy, need_drop)
            kinds = ["tuple", "tuple", "tuple", "struct", "struct", "array", "option", "opaque", "frozenarray"]
            if self.functions:
                kinds += ["func"]
            if self.lists:
                kinds.append("list")
            k = rng.choice(kinds)
            if k == "tuple":
                n = rng.choice([0, 1, 1, 1, 2, 2, 3])
                return T.TupleType([self.gen(depth - 1, need_copy, need_drop) for _ in range(n)],
                                   preserve=rng.random() < 0.1)
            if k == "struct":
                names = W.struct_names if self.wild else [n for n in W.struct_names if n not in ("Si",)]
                d = W.structs[rng.choice(names)]
                if any(getattr(p, "ty", None) is not None and p.ty.bound_vars for p in d.params):
                    # dependent const parameter `Sd[T, x: T]`
                    ty = rng.choice([B.nat_type(), B.bool_type(), B.float_type(), B.int_type()] if self.wild
                                    else [B.nat_type(), B.bool_type(), B.float_type()])
                    return T.StructType([TypeArg(ty), ConstArg(self.const_of(ty))], d)
                return T.StructType(self.args_for(d.params, depth), d)
            return super()._gen(depth, need_copy, need_drop) if k in ("func", "list") else self._opq(k, depth)

        def _opq(self, k, depth):
            name = {"array": "array", "option": "Option", "frozenarray": "frozenarray",
                    "opaque": rng.choice(["Either", "Result", "Future", "SizedIter", "Option", "array"])}[k]
            d = W.opaques[name]
            return T.OpaqueType(self.args_for(d.params, depth), d)

        def leaf(self, need_copy=False, need_drop=False):
            t = super().leaf(need_copy, need_drop)
            if isinstance(t, T.NoneType) and rng.random() < 0.2:
                return T.NoneType(preserve=True)
            return t

    return Gen(rng, params, **kw)


def _ctx_params(rng, gen_src, n):
    """a parameter context; sometimes with clashing / globally bound names (outside the class)"""
    from guppylang_internals.tys.param import ConstParam, TypeParam

    ps = gen_src.gen_params(n, dependent=False, comptime=False)
    r = rng.random()
    if ps and r < 0.06:
        i = rng.randrange(len(ps))
        newname = rng.choice(["int", "G1", "array", "T", "n", "some_function", "not_a_def"])
        p = ps[i]
        ps[i] = TypeParam(p.idx, newname, p.must_be_copyable, p.must_be_droppable) if isinstance(p, TypeParam) \
            else ConstParam(p.idx, newname, p.ty)
    return ps


def _has(t, pred) -> bool:
    from guppylang_internals.tys import ty as T
    from guppylang_internals.tys.arg import TypeArg

    if pred(t):
        return True
    if isinstance(t, T.FunctionType):
        return any(_has(i.ty, pred) for i in t.inputs) or _has(t.output, pred)
    if isinstance(t, T.TupleType):
        return any(_has(e, pred) for e in t.element_types)
    if isinstance(t, T.OpaqueType | T.StructType):
        return any(isinstance(a, TypeArg) and _has(a.ty, pred) for a in t.args)
    return False


def _nontrivial(t) -> bool:
    from guppylang_internals.tys import ty as T
    from guppylang_internals.tys.arg import ConstArg

    return _has(t, lambda x: isinstance(x, T.TupleType)
                or (isinstance(x, T.OpaqueType | T.StructType) and len(x.args) > 0))


def gen_first_order(ctx, n):
    rng = ctx.rng
    base = _mk_gen(rng, [])
    out = []
    for _ in range(n):
        wild = rng.random() < 0.3
        ps = _ctx_params(rng, base, rng.choice([0, 0, 1, 2, 3, 5])) if (wild or rng.random() < 0.7) else []
        if not wild:
            ps = base.gen_params(len(ps), dependent=False, comptime=False)
        g = _mk_gen(rng, ps, first_order=True, lists=wild and rng.random() < 0.3, kinded=not (wild and rng.random() < 0.5),
                    wild=wild)
        t = g.gen(rng.choice([1, 2, 2, 3, 3, 4]))
        out.append(("fo", ps, t))
    return out


def gen_exhaustive():
    """every first-order type of nesting depth <= 2 over {int, bool, None, T} with tuples of arity 0..2,
    Option, array[_, 2] and the generic struct G1 (thorough tier)"""
    from guppylang_internals.tys import builtin as B
    from guppylang_internals.tys import ty as T
    from guppylang_internals.tys.arg import ConstArg, TypeArg
    from guppylang_internals.tys.const import ConstValue
    from guppylang_internals.tys.param import TypeParam

    W = world()
    p = TypeParam(0, "T", False, False)
    level = [B.int_type(), B.bool_type(), T.NoneType(), p.to_bound().ty]
    seen = list(level)
    for _d in range(2):
        new = [T.TupleType([])]
        new += [T.TupleType([a]) for a in seen]
        new += [T.TupleType([a, b]) for a in seen for b in seen]
        new += [T.OpaqueType([TypeArg(a)], W.opaques["Option"]) for a in seen]
        new += [T.OpaqueType([TypeArg(a), ConstArg(ConstValue(B.nat_type(), 2))], W.opaques["array"]) for a in seen]
        new += [T.StructType([TypeArg(a)], W.structs["G1"]) for a in seen]
        seen = level + new
    return [("fo", [p], t) for t in seen]


def gen_functions(ctx, n):
    from guppylang_internals.tys import builtin as B
    from guppylang_internals.tys import ty as T
    from guppylang_internals.tys.param import ConstParam, TypeParam

    rng = ctx.rng
    base = _mk_gen(rng, [])
    out = []
    for _ in range(n):
        mode = rng.choice(["generic", "generic", "generic", "plain", "open", "rank2"])
        k = rng.choice([1, 2, 3, 4, 6]) if mode != "plain" else rng.choice([0, 2, 3])
        ps = base.gen_params(k, dependent=rng.random() < 0.3, comptime=True)
        if mode in ("generic", "rank2", "open") and rng.random() < 0.7:
            # repeated display names
            pool = rng.choice([["T"], ["T", "n"], ["T", "U", "n"]])
            ps2 = []
            for p in ps:
                nm = rng.choice(pool)
                ps2.append(TypeParam(p.idx, nm, p.must_be_copyable, p.must_be_droppable) if isinstance(p, TypeParam)
                           else ConstParam(p.idx, nm, p.ty, from_comptime_arg=p.from_comptime_arg))
            ps = ps2
        g = _mk_gen(rng, ps, first_order=rng.random() < 0.5, lists=False, evars=rng.random() < 0.6, cevars=True)
        ins = []
        for _i in range(rng.choice([0, 1, 1, 2, 3])):
            ty = g.gen(rng.choice([0, 1, 2]))
            fl = T.InputFlags.NoFlags
            if not ty.copyable:
                fl = T.InputFlags.Owned if rng.random() < 0.5 else T.InputFlags.Inout
            elif ty.droppable and rng.random() < 0.15:
                fl = T.InputFlags.Comptime
            ins.append(T.FuncInput(ty, fl))
        outty = g.gen(rng.choice([0, 1, 2]))
        if mode == "plain":
            t = T.FunctionType(ins, outty) if rng.random() < 0.5 else T.TupleType([outty] + [i.ty for i in ins])
            out.append(("fn", ps, t))
            continue
        if mode == "open":
            t = T.FunctionType(ins, outty, ps[: max(1, len(ps) // 2)])
        elif mode == "rank2":
            inner = T.FunctionType(ins[:1], outty, ps)
            qs = base.gen_params(rng.choice([1, 2]), dependent=False, comptime=False)
            t = rng.choice([
                lambda: T.FunctionType([T.FuncInput(inner, T.InputFlags.NoFlags)], outty, qs),
                lambda: T.TupleType([inner, inner]),
                lambda: T.FunctionType([T.FuncInput(inner, T.InputFlags.NoFlags)], inner),
            ])()
        else:
            t = T.FunctionType(ins, outty, ps)
        if rng.random() < 0.03 and ps:
            # parameter index out of range -> IndexError in the real printer
            bad = list(ps)
            bad[-1] = TypeParam(len(ps) + 2, "Z", False, False)
            t = T.FunctionType(ins, outty, bad)
        out.append(("fn", [], t))
    return out


def gen_mutants(ctx, n):
    """strings near printed types for the reader (stage 2 incl. every error path)"""
    rng = ctx.rng
    base = _mk_gen(rng, [])
    out = []
    atoms = ["int", "nat", "bool", "None", "3", "0", "True", "()", "(int,)", "qubit", "T", "n", "zzz", "-1", "1.5", "G1",
             "E0", "some_function", "not_a_def", "tuple", "tuple[int, bool]", "tuple[()]", "(int)", "Option[int]", "list[int]",
             "Callable", "array", "Option"]
    for _ in range(n):
        ps = base.gen_params(rng.choice([0, 1, 2, 4]), dependent=False, comptime=False)
        g = _mk_gen(rng, ps, first_order=True, lists=False)
        s = str(g.gen(rng.choice([1, 2, 3])))
        for _m in range(rng.choice([1, 1, 2, 3])):
            r = rng.random()
            if r < 0.3 and ", " in s:
                parts = s.split(", ")
                i = rng.randrange(len(parts))
                if rng.random() < 0.5:
                    parts.insert(i, rng.choice(atoms))
                else:
                    parts[i] = rng.choice(atoms)
                s = ", ".join(parts)
            elif r < 0.45:
                s = s.replace(",]", "]", 1) if rng.random() < 0.5 else s.replace(",)", ")", 1)
            elif r < 0.6:
                s = s.replace("(", "tuple[", 1).replace(")", "]", 1) if "(" in s else f"({s})"
            elif r < 0.7:
                s = f"{rng.choice(['Option', 'G1', 'array', 'int', 'E0', 'zzz', 'tuple', 'Either', 'T'])}[{s}]"
            elif r < 0.8:
                s = f"({s}, {rng.choice(atoms)})" if rng.random() < 0.5 else f"(({s}))"
            elif r < 0.9:
                toks = s.replace("[", " [ ").replace("]", " ] ").replace(",", " , ").split()
                idx = [i for i, tk in enumerate(toks) if tk.isidentifier() or tk.isdigit()]
                if idx:
                    toks[rng.choice(idx)] = rng.choice(atoms)
                s = " ".join(toks)
            else:
                s = rng.choice(atoms)
        out.append((ps, s))
    return out


# ------------------------------------------------------------------ the tie
def _req(ps, t):
    import tysexp

    return "case (" + " ".join(tysexp.param_sexp(p) for p in ps) + ") " + tysexp.ty_sexp(t)


def _pm(ps):
    return {p.name: p for p in ps}


# ------------------------------------------------------------------ Round 6: variables from the REAL allocators
_SESSION_IDS: dict = {}  # id -> (kind, call description) for every variable handed out through a recipe


def _note_alloc(ctx, v, call):
    """allocator invariant: ids handed out by the two `.fresh` classmethods in one session are pairwise distinct,
    also across kinds"""
    kind = type(v).__name__
    prev = _SESSION_IDS.get(v.id)
    if prev is not None and ctx is not None:
        ctx.violation(
            f"alloc:{prev[0]}/{kind}",
            f"the fresh-id allocators handed out id {v.id} twice: {prev[1]} -> {prev[0]}#{v.id}, then {call} -> {kind}#{v.id}",
            {"first_call": prev[1], "second_call": call, "id": v.id, "kinds": [prev[0], kind]},
        )
    _SESSION_IDS[v.id] = (kind, call)


def run_recipe(recipe, ctx=None):
    """execute a sequence of REAL allocator calls; returns the list `v` of created objects.
    ops: ["T",name,cp,dr] ExistentialTypeVar.fresh | ["C",name] ExistentialConstVar.fresh(name, nat) |
         ["TP",name,cp,dr] TypeParam.to_existential | ["CP",name] ConstParam.to_existential |
         ["UNQ",[name...]] (forall T0, n0, T1, n1 ... . (array[Ti, ni]...) -> (Ti...)).unquantified(): pushes its
         variables, then the instantiated function type |
         ["ALIGN"] allocate (observing only the ids returned) until a fresh type variable and a fresh const variable
         are as close as the allocators allow: with one shared counter nothing can be aligned, with per-kind
         counters the next variables of the two kinds get EQUAL ids"""
    from guppylang_internals.tys import builtin as B
    from guppylang_internals.tys import ty as T
    from guppylang_internals.tys.const import ExistentialConstVar
    from guppylang_internals.tys.param import ConstParam, TypeParam

    v = []
    for op in recipe:
        k = op[0]
        if k == "T":
            x = T.ExistentialTypeVar.fresh(op[1], bool(op[2]), bool(op[3]))
            _note_alloc(ctx, x, f"ExistentialTypeVar.fresh({op[1]!r})")
            v.append(x)
        elif k == "C":
            x = ExistentialConstVar.fresh(op[1], B.nat_type())
            _note_alloc(ctx, x, f"ExistentialConstVar.fresh({op[1]!r}, nat)")
            v.append(x)
        elif k == "TP":
            _a, x = TypeParam(0, op[1], bool(op[2]), bool(op[3])).to_existential()
            _note_alloc(ctx, x, f"TypeParam({op[1]!r}).to_existential()")
            v.append(x)
        elif k == "CP":
            _a, x = ConstParam(0, op[1], B.nat_type()).to_existential()
            _note_alloc(ctx, x, f"ConstParam({op[1]!r}, nat).to_existential()")
            v.append(x)
        elif k == "UNQ":
            names = op[1]
            ps, ins, outs = [], [], []
            for j in range(0, len(names) - 1, 2):
                tp = TypeParam(j, names[j], True, True)
                cp = ConstParam(j + 1, names[j + 1], B.nat_type())
                ps += [tp, cp]
                ins.append(T.FuncInput(B.array_type(tp.to_bound().ty, cp.to_bound().const), T.InputFlags.Inout))
                outs.append(tp.to_bound().ty)
            f = T.FunctionType(ins, T.TupleType(outs), ps)
            inst, xs = f.unquantified()
            for x in xs:
                _note_alloc(ctx, x, f"FunctionType.unquantified() [{x.display_name}]")
                v.append(x)
            v.append(inst)
        elif k == "ALIGN":
            t = T.ExistentialTypeVar.fresh("A", True, True)
            _note_alloc(ctx, t, "ExistentialTypeVar.fresh('A') [align]")
            c = ExistentialConstVar.fresh("a", B.nat_type())
            _note_alloc(ctx, c, "ExistentialConstVar.fresh('a', nat) [align]")
            for _ in range(200000):
                if c.id < t.id:
                    c2 = ExistentialConstVar.fresh("a", B.nat_type())
                    _note_alloc(ctx, c2, "ExistentialConstVar.fresh('a', nat) [align]")
                    if c2.id > t.id and c2.id - t.id == 1 and c2.id - c.id == 2:
                        break  # one shared counter: cannot get closer
                    c = c2
                elif t.id < c.id:
                    t2 = T.ExistentialTypeVar.fresh("A", True, True)
                    _note_alloc(ctx, t2, "ExistentialTypeVar.fresh('A') [align]")
                    if t2.id > c.id and t2.id - c.id == 1 and t2.id - t.id == 2:
                        break
                    t = t2
                else:
                    break
        else:
            raise AssertionError(op)
    return v


def build_shape(shape: str, v):
    from guppylang_internals.tys import builtin as B
    from guppylang_internals.tys import ty as T
    from guppylang_internals.tys.arg import ConstArg, TypeArg

    W = world()
    ns = dict(
        v=v, T=T, I=B.int_type(), N=B.nat_type(), Bo=B.bool_type(),
        tup=lambda *ts: T.TupleType(list(ts)),
        arr=lambda t, c: T.OpaqueType([TypeArg(t), ConstArg(c)], W.opaques["array"]),
        fa=lambda t, c: T.OpaqueType([TypeArg(t), ConstArg(c)], W.opaques["frozenarray"]),
        opt=lambda t: T.OpaqueType([TypeArg(t)], W.opaques["Option"]),
        G2=lambda t, c: T.StructType([TypeArg(t), ConstArg(c)], W.structs["G2"]),
        Ph=lambda t, c: T.StructType([TypeArg(t), ConstArg(c)], W.structs["Ph"]),
        fn=lambda ins, out: T.FunctionType([T.FuncInput(i, T.InputFlags.NoFlags) for i in ins], out),
    )
    return eval(shape, ns)  # noqa: S307 - recipes are generated here or come from our corpus


def gen_alloc(ctx, n):
    """(recipe, shape) pairs: k variables of each kind allocated in lockstep through the real allocators (equal display
    names included), all mentioned in one printed type"""
    rng = ctx.rng
    out = []
    for _ in range(n):
        k = rng.choice([1, 2, 2, 3, 4])
        names_t = rng.choice([["T"], ["T", "U"], ["T", "n"]])
        names_c = rng.choice([["n"], ["n", "m"], ["T", "n"]])
        recipe = [["ALIGN"]]
        tv, cv, fns = [], [], []
        idx = 0
        for _i in range(k):
            r = rng.random()
            if r < 0.15 and k >= 2:
                nm = [rng.choice(names_t), rng.choice(names_c)]
                recipe.append(["UNQ", nm])
                tv.append(idx)
                cv.append(idx + 1)
                fns.append(idx + 2)
                idx += 3
                continue
            first_t = rng.random() < 0.5
            ops = [["T" if rng.random() < 0.6 else "TP", rng.choice(names_t), 1, 1],
                   ["C" if rng.random() < 0.6 else "CP", rng.choice(names_c)]]
            if not first_t:
                ops.reverse()
            for op in ops:
                recipe.append(op)
                (tv if op[0] in ("T", "TP") else cv).append(idx)
                idx += 1
        pairs = list(zip(tv, cv))
        parts = []
        for (a, b) in pairs:
            form = rng.choice(["arr", "fa", "G2", "Ph", "arr"])
            parts.append(f"{form}(v[{a}], v[{b}])")
        # cross pairs and repeated mentions
        for _j in range(rng.choice([0, 1, 2])):
            parts.append(rng.choice([f"v[{rng.choice(tv)}]", f"arr(I, v[{rng.choice(cv)}])",
                                     f"opt(v[{rng.choice(tv)}])", f"arr(v[{rng.choice(tv)}], v[{rng.choice(cv)}])"]))
        parts += [f"v[{f}]" for f in fns]
        rng.shuffle(parts)
        form = rng.choice(["tup", "one", "fn", "nest"])
        if form == "one" and len(parts) == 1:
            shape = parts[0]
        elif form == "fn":
            shape = f"fn([{', '.join(parts[:-1])}], {parts[-1]})"
        elif form == "nest":
            shape = f"opt(tup({', '.join(parts)}))"
        else:
            shape = f"tup({', '.join(parts)})"
        out.append((recipe, shape))
    return out


def real_occs_kinded(t):
    """like real_occs, but an existential variable is identified by (class, id) -- equality of the variable objects"""
    from guppylang_internals.tys.printing import TypePrinter
    from guppylang_internals.tys.var import ExistentialVar

    pr = TypePrinter()
    orig = pr._visit
    occs = []

    def traced(ty, inside_row):
        s = orig(ty, inside_row)
        if isinstance(ty, ExistentialVar):
            occs.append((type(ty).__name__, ty.id, s))
        return s

    pr._visit = traced
    try:
        pr.visit(t)
    except BaseException:  # noqa: BLE001
        return None
    return occs


def _corpus(ctx):
    """witness types from corpus/c31/*.json: {"ctx": [...], "build": "<python expr over helpers>"}"""
    d = os.path.join(vlib.VERIF, "corpus", "c31")
    out = []
    if not os.path.isdir(d):
        return out
    for fn in sorted(os.listdir(d)):
        if fn.endswith(".json"):
            for item in json.load(open(os.path.join(d, fn))):
                if "recipe" not in item:
                    out.append((fn, item))
    return out


def _corpus_recipes():
    d = os.path.join(vlib.VERIF, "corpus", "c31")
    out = []
    if os.path.isdir(d):
        for fn in sorted(os.listdir(d)):
            if fn.endswith(".json"):
                for item in json.load(open(os.path.join(d, fn))):
                    if "recipe" in item:
                        out.append((fn, item))
    return out


def _build(expr: str):
    """evaluate a corpus witness: a Python expression over the real constructors"""
    from guppylang_internals.tys import builtin as B
    from guppylang_internals.tys import ty as T
    from guppylang_internals.tys.arg import ConstArg, TypeArg
    from guppylang_internals.tys.const import BoundConstVar, ConstValue, ExistentialConstVar
    from guppylang_internals.tys.param import ConstParam, TypeParam

    W = world()
    ns = dict(T=T, B=B, TypeArg=TypeArg, ConstArg=ConstArg, ConstValue=ConstValue, BoundConstVar=BoundConstVar,
              ExistentialConstVar=ExistentialConstVar, ConstParam=ConstParam, TypeParam=TypeParam,
              S=W.structs, O=W.opaques, inf=float("inf"), nan=float("nan"),
              tup=lambda *ts: T.TupleType(list(ts)), I=B.int_type(), N=B.nat_type(), F=B.float_type(), Bo=B.bool_type(),
              opt=lambda t: T.OpaqueType([TypeArg(t)], W.opaques["Option"]),
              nat=lambda v: ConstArg(ConstValue(B.nat_type(), v)),
              fin=lambda ty, fl=T.InputFlags.NoFlags: T.FuncInput(ty, fl))
    return eval(expr, ns)  # noqa: S307 - corpus files are ours


def _fallback(ctx, exc):
    """the environment of struct definitions cannot even be built (the real annotation reader rejects the
    sources of harness/tysexp.py): look for a failing input among builtin types, with builtin globals only"""
    import traceback

    from guppylang_internals.checker.core import Globals
    from guppylang_internals.tys import builtin as B
    from guppylang_internals.tys import ty as T
    from guppylang_internals.tys.parsing import TypeParsingCtx, type_from_ast

    ctx.broke("definition environment cannot be built on this tree: " + "".join(
        traceback.format_exception_only(type(exc), exc)).strip()[:300])
    I, N, F, Bo = B.int_type(), B.nat_type(), B.float_type(), B.bool_type()
    cands = [I, N, F, Bo, T.NoneType(), T.TupleType([]), T.TupleType([I]), T.TupleType([I, Bo]),
             B.array_type(I, 3), B.array_type(T.TupleType([I, Bo]), 0), B.frozenarray_type(F, 2),
             B.option_type(I), B.option_type(T.TupleType([I, Bo])), B.option_type(B.array_type(Bo, 7)),
             T.TupleType([B.array_type(I, 1), B.option_type(T.TupleType([]))])]
    g = Globals(None)
    for t in cands:
        try:
            s = str(t)
            t2 = type_from_ast(ast.parse(s, mode="eval").body, TypeParsingCtx(g, {}))
            ok, how = t2 == t, "ok " + str(t2)
        except BaseException as ex:  # noqa: BLE001
            s = locals().get("s", "<str() raised>")
            ok, how = False, "err " + _err_name(ex)
        ctx.count(repr(t), nontrivial=True, kind="fallback:" + ("ok" if ok else "fail"))
        if not ok:
            ctx.violation("input:builtin " + repr(s), f"printed type `{s}` does not read back as the same type: {how}",
                          {"printed": s, "real_read": how, "type": repr(t)})


def tie(ctx):
    import tysexp

    try:
        W = world()
    except BaseException as exc:  # noqa: BLE001
        _fallback(ctx, exc)
        return
    cases = []  # (stream, ctx params, type, label)
    for fn, item in _corpus(ctx):
        ps = [_build(p) for p in item.get("ctx", [])]
        cases.append((item.get("stream", "fo"), ps, _build(item["build"]), fn))
    if ctx.replay_in and "build" in ctx.replay_in.get("replay", {}):
        r = ctx.replay_in["replay"]
        cases.append((r.get("stream", "fo"), [_build(p) for p in r.get("ctx", [])], _build(r["build"]), "replay"))
    if not ctx.quick:
        ex = gen_exhaustive()
        ctx.extra["exhaustive"] = True
        ctx.extra["exhaustive_note"] = (f"all {len(ex)} first-order types of depth <= 2 over int/bool/None/T with tuples of "
                                        "arity 0..2, Option, array[_, 2], G1")
        for s, ps, t in ex:
            cases.append((s, ps, t, ""))
    for s, ps, t in gen_first_order(ctx, ctx.n(2500, 70000)):
        cases.append((s, ps, t, ""))
    for s, ps, t in gen_functions(ctx, ctx.n(1200, 25000)):
        cases.append((s, ps, t, ""))
    recipes = {}  # index into cases -> (recipe, shape)
    al = [(item["recipe"], item["shape"], fn) for fn, item in _corpus_recipes()]
    if ctx.replay_in and "recipe" in ctx.replay_in.get("replay", {}):
        al.append((ctx.replay_in["replay"]["recipe"], ctx.replay_in["replay"]["shape"], "replay"))
    al += [(r, sh, "") for r, sh in gen_alloc(ctx, ctx.n(250, 4000))]
    for recipe, shape, label in al:
        try:
            t = build_shape(shape, run_recipe(recipe, ctx))
        except BaseException as ex:  # noqa: BLE001
            ctx.broke(f"recipe {recipe} / {shape} cannot be built: {ex!r}")
            continue
        recipes[len(cases)] = (recipe, shape)
        cases.append(("al", [], t, label))
    mutants = gen_mutants(ctx, ctx.n(800, 15000))

    lines = [W.env_line] + [_req(ps, t) for _s, ps, t, _l in cases]
    mut_reqs = []
    for ps, s in mutants:
        try:
            node = ast.parse(s, mode="eval").body
            a = ast_sexp(node)
        except SyntaxError:
            node, a = None, None
        mut_reqs.append((ps, s, node, a))
        if a is not None:
            lines.append("parse (" + " ".join(tysexp.param_sexp(p) for p in ps) + ") " + a)
    replies = ctx.driver(DRIVER, lines)
    if replies[0] != "ok":
        raise vlib.Infra("C31 driver rejected the environment: " + replies[0])
    pos = 1

    for ci, (stream, ps, t, label) in enumerate(cases):
        line = lines[pos]
        m = replies[pos]
        pos += 1
        parts = dict()
        if m.startswith("CRASH"):
            parts["P"] = "CRASH"
            rest = m.split(" ;; ")[1:]
        else:
            segs = m.split(" ;; ")
            parts["P"] = segs[0]
            rest = segs[1:]
        for seg in rest:
            parts[seg[0]] = seg[2:] if len(seg) > 1 else ""
        pm = _pm(ps)
        rp = real_print(t)
        if rp == "CRASH":
            r_ast, r_read, t2 = "n/a", "n/a", None
        else:
            s = rp[2:]
            r_ast = real_ast(s)
            r_read, t2 = real_read(s, pm)
        try:
            r_cls = f"{str(bool(t.copyable)).lower()} {str(bool(t.droppable)).lower()}"
        except BaseException:  # noqa: BLE001
            r_cls = None
        occs = real_occs(t)
        r_occs = None if occs is None else sorted(f"({k} {i} {s})" for k, i, s in occs)
        m_occs = sorted(f"({k} {i} {s})" for k, i, s in re.findall(r"\((b|e) (\d+) ([^ ()]+)\)", parts.get("N", "")))
        inc = stream == "fo" and in_class(t, pm)
        ninc = names_in_class(t, ps)
        kind = f"{stream}:{'in' if inc else 'out'}:{r_read.split(' ')[0] if r_read != 'n/a' else 'crash'}" + (
            ":" + r_read.split(" ")[1] if r_read.startswith("err") else "")
        ctx.count(line, nontrivial=_nontrivial(t), kind=kind)
        if ninc:
            ctx.bump("names-in-class")
        key = "input:" + line
        replay = {"request": line, "printed": rp, "real_read": r_read, "model": m, "label": label}
        # ---- property oracle on the real code
        if inc:
            if not (t2 is not None and t2 == t):
                ctx.violation(key, f"printed type `{rp[2:]}` does not read back as the same type: {r_read}", replay)
        elif stream == "fo" and label and rp != "CRASH" and not (t2 is not None and t2 == t):
            # corpus witnesses outside the theorem's class (documented findings): still failing inputs of the property
            ctx.violation(key, f"printed type `{rp[2:]}` does not read back as the same type: {r_read}", replay)
        if stream == "al":
            ko = real_occs_kinded(t)
            kinds = {k for k, _i, _s in (ko or [])}
            ctx.bump("alloc:both-kinds" if len(kinds) == 2 else "alloc:one-kind")
            if ko is not None and not names_ok(ko):
                recipe, shape = recipes[ci]
                ctx.violation(
                    "recipe:" + json.dumps([recipe, shape]),
                    f"variables created by the real allocators ({recipe}) placed in `{shape}` print as `{rp[2:]}`: "
                    f"two different variables share a name or one has two: {ko}",
                    {"recipe": recipe, "shape": shape, "stream": "al", "type": line, "printed": rp, "occurrences": ko},
                )
        if ninc and occs is not None and not names_ok(occs):
            ctx.violation(key + "#names", f"two distinct variables share a printed name or one variable has two names in `{rp[2:]}`: {occs}", replay)
        # ---- correspondence model vs real
        if parts["P"] != rp:
            ctx.broke(f"correspondence print on `{line}` (real={rp!r} model={parts['P']!r})")
        if rp != "CRASH":
            if parts.get("A") != r_ast:
                ctx.broke(f"correspondence stage-1 ast on `{rp[2:]}` (real={r_ast} model={parts.get('A')})")
            if parts.get("R") != r_read:
                ctx.broke(f"correspondence read-back on `{line}` (real={r_read} model={parts.get('R')})")
            if r_occs is not None and m_occs != r_occs:
                ctx.broke(f"correspondence variable names on `{line}` (real={r_occs} model={m_occs})")
        if r_cls is not None and parts.get("C") != r_cls:
            ctx.broke(f"correspondence copyable/droppable on `{line}` (real={r_cls} model={parts.get('C')})")

    for ps, s, node, a in mut_reqs:
        if a is None:
            ctx.bump("mutant:unparsed")
            continue
        m = replies[pos]
        line = lines[pos]
        pos += 1
        r_read, _t2 = real_read_node(node, _pm(ps))
        ctx.count(line, nontrivial=True, kind="mutant:" + " ".join(r_read.split(" ")[:2] if r_read.startswith("err") else ["ok"]))
        if m == "err Unsupported":
            ctx.bump("mutant:unsupported")
            continue
        if m != r_read:
            ctx.broke(f"correspondence stage-2 reader on `{s}` (real={r_read} model={m})")


if __name__ == "__main__":
    vlib.main(sys.modules[__name__])
