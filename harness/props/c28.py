"""C28 — Emulator configurations are immutable and reproducible."""
from __future__ import annotations

import json
import os
import sys

sys.path.insert(0, os.path.dirname(os.path.dirname(os.path.abspath(__file__))))
import vlib

PID = "C28"
THEOREM_MODULES = ["GuppyVerif.Props.C28"]
DRIVER = "C28"
RULE = (
    "case = (n_qubits, history) where history is a list of: user constructs a simulator object (Quest/Coinflip/Stim or a "
    "user-defined non-dataclass Simulator subclass, with or without its own random_seed), derive from ANY instance created so "
    "far with any of with_seed/with_shots/with_shot_offset/with_shot_increment/with_n_qubits/with_n_processes/with_verbose/"
    "with_timeout/with_progress_bar/with_runtime/with_error_model/with_event_hook/with_simulator/statevector_sim/coinflip_sim/"
    "stabilizer_sim, run() of any instance, and — interleaved — EmulatorBuilder derivations (with_name/with_build_dir/with_verbose/"
    "with_build_arg) from ANY builder created so far and build() of any builder (the built instance joins the instance list; "
    "after each build the dict returned by custom_args is scribbled on); every instance is run once more at the end. Executed on "
    "the REAL classes with selene_sim.build and SeleneInstance replaced by recorders and tqdm by a flag; observed = the keyword "
    "arguments of every selene_sim.build and run_shots call (simulator by class and random_seed at call time; runtime/error "
    "model/event hook — user-supplied SimpleRuntime / DepolarizingErrorModel / NoEventHook objects shared between configurations, or "
    "the defaults — by object identity and by their own random_seed at call time, which build produced the SeleneInstance that is run, whether tqdm wrapped the stream). "
    "non-trivial = some instance is run after a later derivation that re-seeds an instance sharing its "
    "simulator lineage, or after >=3 later derivations; distinct by request line"
)
ASSUMPTIONS = [
    "selene's run_shots is a function of its arguments and of the simulator/runtime/error-model objects' attributes at call time "
    "(_get_component_config: component.random_seed if set else random_seed=), deterministic for fixed seeds, and does not mutate them",
    "dataclasses.replace / copy.copy semantics of CPython",
    "the Lean model Model/EmuConfig.lean is hand-written; agreement with instance.py is established by the correspondence run here",
    "the user does not mutate a simulator object after handing it to with_simulator",
]
MANIFEST = {
    "level_text": "Lean theorems over all histories of user simulator / runtime / error-model / event-hook construction (two object "
    "heaps: every component selene reads a random_seed from), instance derivations (16 methods) from any existing "
    "instance, builder derivations (4 methods) from any existing builder, build() and run(), on the repaired code (fix 1c5ff9f): "
    "every instance existing at any point keeps exactly the same run_shots arguments and build origin under every continuation "
    "(derive_preserves_earlier), every builder keeps its selene_sim.build arguments (builder_derive_preserves_earlier); an "
    "instance reached by a builder path, build, then an instance path — with arbitrary other operations in between — runs with "
    "the fold of the instance path over the defaults on a SeleneInstance built with the fold of the builder path "
    "(build_then_derive_pure); all runs of one instance pass identical "
    "arguments and a fixed seed gives the simulator a definite effective seed (run_reproducible); a derivation is a pure "
    "function of the parent's by-value behaviour (derive_is_pure); the original with_seed violates this (d10_original_code_violates, "
    "witness replayed from corpus). Model tied to /repo on every run by random histories on the real EmulatorInstance with a "
    "recording fakes for selene_sim.build / SeleneInstance (quick 400 histories; thorough 20000).",
    "level_note": "Trusted: Lean kernel + propext/Classical.choice/Quot.sound; hand-written model (correspondence is sampling); "
    "'behaviour' is the argument record handed to selene — selene itself (outside the repository; cannot run /repo's output "
    "here) is assumed deterministic in those arguments; the builder's _custom_args dict is modelled by value (the code never writes it; the tie scribbles on the dict returned by custom_args).",
    "technique": "Lean 4 proof (append-only heap invariant, induction over histories) + differential correspondence with the real EmulatorInstance",
    "design_ref": "DESIGN.md §5 C28, §6 D10",
    "ready": True,
}
UNMODELLED = [
    "selene (build, run_shots, simulators): results are not observed, only the arguments passed",
    "EmulatorResult / state results; builder fields without a with_* method (_planner, _utilities, _interface, _progress_bar, _strict, _save_planner) and _results_logfile are constants",
    "aliasing of the builder's _custom_args dict (modelled by value)",
    "user code mutating objects it passed in",
]

DERIVS_NAT = {"shots": "with_shots", "shotoffset": "with_shot_offset", "shotincrement": "with_shot_increment",
              "nqubits": "with_n_qubits", "nprocesses": "with_n_processes"}
DEFAULTS = {"simKind": "quest", "simSeed": None, "runtime": 0, "runtimeSeed": None, "errorModel": 0, "errorModelSeed": None,
            "eventHook": 0, "eventHookSeed": None, "shots": 1,
            "verbose": 0, "timeout": None, "seed": None, "shotOffset": 0, "shotIncrement": 1, "nProcesses": 1,
            "progressBar": 0, "origin": None}
FIELDS = ["simKind", "simSeed", "runtime", "runtimeSeed", "errorModel", "errorModelSeed", "eventHook", "eventHookSeed", "nQubits", "shots", "verbose", "timeout", "seed",
          "shotOffset", "shotIncrement", "nProcesses", "progressBar", "origin"]


def _bentry(i, b):
    return f"{i}:{_show(b['name'])},{_show(b['buildDir'])},{int(bool(b['verbose']))}," + ";".join(f"{k}={v}" for k, v in b["custom"])


def _show(v):
    return "none" if v is None else str(v)


def _entry(i, a):
    return f"{i}:" + ",".join(_show(a[f]) for f in FIELDS)


# ----------------------------------------------------------------- request lines
def _op_sexp(op):
    t = op[0]
    if t == "newsim":
        return f"(newsim {op[1]} {_show(op[2])})"
    if t == "run":
        return f"(run {op[1]})"
    if t == "newcomp":
        return f"(newcomp {_show(op[2])})"
    if t == "build":
        return f"(build {op[1]} {op[2]})"
    if t == "bderive":
        d = op[2]
        return f"(bderive {op[1]} ({d[0]} " + " ".join(_show(x) for x in d[1:]) + "))"
    d = op[2]
    ds = d[0] if len(d) == 1 else f"({d[0]} {_show(d[1])})"
    return f"(derive {op[1]} {ds})"


def _line(case):
    return f"1 {case['n']} (" + " ".join(_op_sexp(op) for op in case["ops"]) + ")"


# ----------------------------------------------------------------- real side
class _FakeSelene:
    def __init__(self, rec):
        self.rec = rec

    def run_shots(self, **kw):
        self.rec(kw)
        return iter(())


_custom_cls = {}


def _custom(k):
    """user-defined simulator plugin: a plain (non-dataclass) subclass with extra state"""
    if k not in _custom_cls:
        from selene_core.simulator import Simulator

        class UserSim(Simulator):
            tag = k

            def __init__(self, random_seed=None):
                self.random_seed = random_seed
                self.extra = ["state", k]

            @property
            def library_file(self):
                return f"/nonexistent/libuser{k}.so"

            def get_init_args(self):
                return []

        UserSim.__name__ = UserSim.__qualname__ = f"UserSim{k}"
        _custom_cls[k] = UserSim
    return _custom_cls[k]


def _run_real(case):
    import datetime
    import pathlib

    import guppylang.emulator.builder as B
    import guppylang.emulator.instance as I
    from guppylang.emulator.instance import EmulatorInstance
    from selene_sim.backends.bundled_error_models import DepolarizingErrorModel
    from selene_sim.backends.bundled_runtimes import SimpleRuntime
    from selene_sim.backends.bundled_simulators import Coinflip, Quest, Stim
    from selene_sim.event_hooks import NoEventHook

    log, blog = [], []
    cur = [None, 0]  # instance being run, tqdm used during this run

    def make_fake(origin):
        return _FakeSelene(lambda kw: rec(kw, origin))

    base = EmulatorInstance(_instance=make_fake(None), _n_qubits=case["n"])  # type: ignore[arg-type]
    # component heap: index 0 = any default-constructed runtime / error model / event hook; user objects are appended
    comps = [None]
    defaults = [base._options._runtime, base._options._error_model, base._options._event_hook]

    def idx(obj):
        for i, o in enumerate(comps):
            if o is obj:
                return i
        if any(o is obj for o in defaults):
            return 0
        return f"?{type(obj).__name__}"

    def kind(sim):
        n = type(sim).__name__
        if n.startswith("UserSim"):
            return "c" + n[len("UserSim"):]
        return {"QuestPlugin": "quest", "CoinflipPlugin": "coinflip", "StimPlugin": "stim"}.get(n, "?" + n)

    pending = []

    def rec(kw, origin):
        t = kw["timeout"]
        pending.append({"simKind": kind(kw["simulator"]), "simSeed": kw["simulator"].random_seed,
             "runtime": idx(kw["runtime"]), "runtimeSeed": getattr(kw["runtime"], "random_seed", None),
             "errorModel": idx(kw["error_model"]), "errorModelSeed": getattr(kw["error_model"], "random_seed", None),
             "eventHook": idx(kw["event_hook"]), "eventHookSeed": getattr(kw["event_hook"], "random_seed", None), "nQubits": kw["n_qubits"], "shots": kw["n_shots"],
             "verbose": int(bool(kw["verbose"])), "timeout": None if t is None else int(t.total_seconds()),
             "seed": kw["random_seed"], "shotOffset": kw["shot_offset"], "shotIncrement": kw["shot_increment"],
             "nProcesses": kw["n_processes"], "origin": origin})

    def fake_tqdm(stream, **kw):
        cur[1] = 1
        return stream

    def canon(v, prefix):
        if v is None:
            return None
        v = str(v)
        return int(v[len(prefix):]) if v.startswith(prefix) and v[len(prefix):].isdigit() else v

    def fake_build(package, **kw):
        reserved = ("name", "build_dir", "verbose", "interface", "utilities", "planner", "progress_bar", "strict", "save_planner")
        custom = [(k[1:] if k.startswith("k") and k[1:].isdigit() else k, v) for k, v in kw.items() if k not in reserved]
        blog.append(_bentry(cur[0], {"name": canon(kw["name"], "n"), "buildDir": canon(kw["build_dir"], "/tmp/bd"),
                                     "verbose": kw["verbose"], "custom": custom}))
        return make_fake(len(blog) - 1)

    insts = [base]
    builders = [B.EmulatorBuilder()]
    sims = [base._options._simulator]  # heap index 0 = the default simulator; operations that create objects append
    simcls = {"quest": Quest, "coinflip": Coinflip, "stim": Stim}
    orig_build, orig_tqdm = B.selene_sim.build, I.tqdm
    B.selene_sim.build, I.tqdm = fake_build, fake_tqdm
    try:
        for op in case["ops"]:
            t = op[0]
            if t == "newsim":
                k = op[1]
                cls = simcls[k] if k in simcls else _custom(int(k[1:]))
                sims.append(cls(random_seed=op[2]))
            elif t == "newcomp":
                if op[1] == "runtime":
                    comps.append(SimpleRuntime(random_seed=op[2]))
                elif op[1] == "errormodel":
                    comps.append(DepolarizingErrorModel(random_seed=op[2], p_1q=0.01, p_meas=0.02))
                else:
                    comps.append(NoEventHook())
            elif t == "run":
                cur[0], cur[1] = op[1], 0
                del pending[:]
                insts[op[1]].run()
                for a in pending:
                    a["progressBar"] = cur[1]
                    log.append(_entry(op[1], a))
            elif t == "bderive":
                b, d = builders[op[1]], op[2]
                if d[0] == "name":
                    builders.append(b.with_name(None if d[1] is None else f"n{d[1]}"))
                elif d[0] == "builddir":
                    builders.append(b.with_build_dir(None if d[1] is None else pathlib.Path(f"/tmp/bd{d[1]}")))
                elif d[0] == "verbose":
                    builders.append(b.with_verbose(bool(d[1])))
                else:
                    builders.append(b.with_build_arg(f"k{d[1]}", d[2]))
            elif t == "build":
                cur[0] = op[1]
                new = builders[op[1]].build(None, op[2])  # type: ignore[arg-type]
                defaults.extend([new._options._runtime, new._options._error_model, new._options._event_hook])
                insts.append(new)
                sims.append(None)  # model heap: the built instance's fresh default simulator
                args = builders[op[1]].custom_args
                if args is not None:
                    args["poison"] = 1  # the user scribbles on the returned dict: must be a copy
            else:
                e = insts[op[1]]
                d = op[2]
                n = d[0]
                if n == "seed":
                    new = e.with_seed(d[1])
                    sims.append(None)  # model heap: the seeded simulator copy
                elif n in DERIVS_NAT:
                    new = getattr(e, DERIVS_NAT[n])(d[1])
                elif n == "verbose":
                    new = e.with_verbose(bool(d[1]))
                elif n == "progressbar":
                    new = e.with_progress_bar(bool(d[1]))
                elif n == "timeout":
                    new = e.with_timeout(None if d[1] is None else datetime.timedelta(seconds=d[1]))
                elif n == "runtime":
                    new = e.with_runtime(comps[d[1]] if d[1] else base._options._runtime)
                elif n == "errormodel":
                    new = e.with_error_model(comps[d[1]] if d[1] else base._options._error_model)
                elif n == "eventhook":
                    new = e.with_event_hook(comps[d[1]] if d[1] else base._options._event_hook)
                elif n == "simulator":
                    new = e.with_simulator(sims[d[1]])
                elif n in ("statevector", "coinflip", "stabilizer"):
                    new = getattr(e, n + "_sim")()
                    sims.append(None)
                else:
                    raise AssertionError(d)
                insts.append(new)
        return " ".join(log) + " || " + " ".join(blog)
    except Exception as e:  # noqa: BLE001
        return " ".join(log) + " || " + " ".join(blog) + f" EXC:{type(e).__name__}:{e}"
    finally:
        B.selene_sim.build, I.tqdm = orig_build, orig_tqdm


# ----------------------------------------------------------------- oracle (by-value path semantics)
def _oracle(case):
    """every instance / builder is a plain record computed once from its parent's record and the derivation (simulator
    objects by the content they were created with; a built instance starts from the defaults and remembers which build
    call made it); a run / build reports the record, whatever happened in between."""
    recs = [dict(DEFAULTS, nQubits=case["n"])]
    brecs = [{"name": None, "buildDir": None, "verbose": 0, "custom": []}]
    user_sims = {}
    comp_seed = [None]  # by content at creation
    heap_n = 1
    log, blog = [], []
    for op in case["ops"]:
        t = op[0]
        if t == "newsim":
            user_sims[heap_n] = (op[1], op[2])
            heap_n += 1
        elif t == "newcomp":
            comp_seed.append(op[2])
        elif t == "run":
            log.append(_entry(op[1], recs[op[1]]))
        elif t == "bderive":
            r = dict(brecs[op[1]])
            d = op[2]
            if d[0] == "arg":
                cu = [list(kv) for kv in r["custom"]]
                for kv in cu:
                    if kv[0] == str(d[1]):
                        kv[1] = d[2]
                        break
                else:
                    cu.append([str(d[1]), d[2]])
                r["custom"] = [tuple(kv) for kv in cu]
            else:
                r[{"name": "name", "builddir": "buildDir", "verbose": "verbose"}[d[0]]] = d[1]
            brecs.append(r)
        elif t == "build":
            blog.append(_bentry(op[1], brecs[op[1]]))
            recs.append(dict(DEFAULTS, nQubits=op[2], origin=len(blog) - 1))
            heap_n += 1
        else:
            r = dict(recs[op[1]])
            d = op[2]
            n = d[0]
            if n == "seed":
                r["seed"] = d[1]
                r["simSeed"] = d[1]
                heap_n += 1
            elif n == "simulator":
                r["simKind"], r["simSeed"] = user_sims[d[1]]
            elif n in ("statevector", "coinflip", "stabilizer"):
                r["simKind"] = {"statevector": "quest", "coinflip": "coinflip", "stabilizer": "stim"}[n]
                r["simSeed"] = None
                heap_n += 1
            else:
                key = {"shots": "shots", "shotoffset": "shotOffset", "shotincrement": "shotIncrement", "nqubits": "nQubits",
                       "nprocesses": "nProcesses", "verbose": "verbose", "timeout": "timeout", "runtime": "runtime",
                       "errormodel": "errorModel", "eventhook": "eventHook", "progressbar": "progressBar"}[n]
                r[key] = d[1]
                if key in ("runtime", "errorModel", "eventHook"):
                    r[key + "Seed"] = comp_seed[d[1]]
            recs.append(r)
    return " ".join(log) + " || " + " ".join(blog)


def _eff(log: str) -> str:
    """observable behaviour: the simulator's *effective* seed (its own random_seed if set, else random_seed=)"""
    out = []
    for tok in log.split(" "):
        if ":" not in tok or tok.startswith("EXC"):
            out.append(tok)
            continue
        i, rest = tok.split(":", 1)
        f = rest.split(",")
        if len(f) == len(FIELDS):
            for comp in ("simSeed", "runtimeSeed", "errorModelSeed"):
                if f[FIELDS.index(comp)] == "none":
                    f[FIELDS.index(comp)] = f[FIELDS.index("seed")]
        out.append(i + ":" + ",".join(f))
    return " ".join(out)


# ----------------------------------------------------------------- generator
def _gen(rng, length):
    n = rng.randrange(1, 6)
    ops = []
    n_inst, heap_n, user, n_b = 1, 1, [], 1
    comp_kinds = ["default"]  # component heap: kind of each object
    for _ in range(length):
        c = rng.random()
        if c < 0.22:
            c2 = rng.random()
            if c2 < 0.3:
                ops.append(["build", _pick(rng, n_b), rng.randrange(1, 6)])
                n_inst += 1
                heap_n += 1
            else:
                k = rng.choice(["name", "builddir", "verbose", "arg", "arg", "arg"])
                d = {"name": ["name", rng.choice([None, 1, 2])], "builddir": ["builddir", rng.choice([None, 1, 2])],
                     "verbose": ["verbose", rng.randrange(2)], "arg": ["arg", rng.randrange(3), rng.randrange(4)]}[k]
                ops.append(["bderive", _pick(rng, n_b), d])
                n_b += 1
            continue
        c = rng.random()
        if c < 0.07:
            ck = rng.choice(["errormodel", "errormodel", "runtime", "eventhook"])
            ops.append(["newcomp", ck, None if ck == "eventhook" else rng.choice([None, rng.randrange(100)])])
            comp_kinds.append(ck)
            continue
        c = rng.random()
        if c < 0.08:
            k = rng.choice(["quest", "coinflip", "stim", f"c{rng.randrange(3)}", f"c{rng.randrange(3)}"])
            ops.append(["newsim", k, rng.choice([None, None, rng.randrange(100)])])
            user.append(heap_n)
            heap_n += 1
        elif c < 0.33:
            ops.append(["run", _pick(rng, n_inst)])
        else:
            i = _pick(rng, n_inst)
            k = rng.choice(["seed"] * 6 + ["shots", "shotoffset", "shotincrement", "nqubits", "nprocesses", "verbose", "timeout", "progressbar",
                                         "runtime", "errormodel", "errormodel", "errormodel", "eventhook"] + ["simulator"] * 3
                           + ["statevector", "coinflip", "stabilizer"])
            if k == "simulator" and not user:
                k = "seed"
            if k == "seed":
                d = ["seed", rng.choice([None, rng.randrange(5), rng.randrange(1000)])]
                heap_n += 1
            elif k in ("shots", "nqubits", "nprocesses"):
                d = [k, rng.randrange(1, 50)]
            elif k in ("shotoffset", "shotincrement"):
                d = [k, rng.randrange(0, 50)]
            elif k in ("verbose", "progressbar"):
                d = [k, rng.randrange(2)]
            elif k == "timeout":
                d = [k, rng.choice([None, rng.randrange(1, 100)])]
            elif k in ("runtime", "errormodel", "eventhook"):
                cands = [0] + [ix for ix, ck in enumerate(comp_kinds) if ck == k]
                d = [k, rng.choice(cands[1:] or cands) if rng.random() < 0.8 else 0]
            elif k == "simulator":
                d = [k, rng.choice(user)]
            else:
                d = [k]
                heap_n += 1
            ops.append(["derive", i, d])
            n_inst += 1
    for b in range(n_b):
        if rng.random() < 0.5:
            ops.append(["build", b, rng.randrange(1, 6)])
            n_inst += 1
    ops += [["run", i] for i in range(n_inst)]
    return {"n": n, "ops": ops}


def _pick(rng, n):
    # bias towards early instances and towards the most recent one
    r = rng.random()
    if r < 0.35:
        return rng.randrange(min(n, 2))
    if r < 0.55:
        return n - 1
    return rng.randrange(n)


def _nontrivial(case):
    created_at, t_inst = {0: -1}, 1
    derive_times = []
    for t, op in enumerate(case["ops"]):
        if op[0] == "build":
            created_at[t_inst] = t
            t_inst += 1
        elif op[0] == "derive":
            created_at[t_inst] = t
            t_inst += 1
            derive_times.append((t, op[2][0]))
        elif op[0] == "run":
            later = [k for (u, k) in derive_times if u > created_at[op[1]]]
            if "seed" in later or len(later) >= 3:
                return True
    return False


# ----------------------------------------------------------------- the tie
def _corpus():
    out = []
    d = os.path.join(vlib.VERIF, "corpus", "c28")
    if os.path.isdir(d):
        for fn in sorted(os.listdir(d)):
            out += json.load(open(os.path.join(d, fn)))
    return out


def _eval(ctx, cases, use_model=True):
    lines = [_line(c) for c in cases]
    model = ctx.driver(DRIVER, lines) if use_model else [None] * len(lines)
    for case, line, m in zip(cases, lines, model):
        real = _run_real(case)
        orc = _oracle(case)
        kinds = sorted({op[2][0] for op in case["ops"] if op[0] == "derive"} | {"b:" + op[2][0] for op in case["ops"] if op[0] == "bderive"}
                       | {"build" for op in case["ops"] if op[0] == "build"})
        ctx.count(line, nontrivial=_nontrivial(case), kind="seed" if "seed" in kinds else "noseed")
        for k in kinds:
            ctx.bump("derive:" + k)
        if _eff(real) != _eff(orc):
            r, o = _eff(real).split(" "), _eff(orc).split(" ")
            first = next((i for i, (x, y) in enumerate(zip(r, o)) if x != y), min(len(r), len(o)))
            ctx.violation(
                "input:" + line,
                f"run #{first} of history passes {r[first] if first < len(r) else '<missing>'} but the configuration was derived as "
                f"{o[first] if first < len(o) else '<none>'} (fields: i:{','.join(FIELDS)}; simSeed shown as the simulator's effective seed) on `{line}`",
                {"case": case, "line": line, "real": real, "oracle": orc, "model": m},
            )
        if use_model and real != m:
            ctx.broke(f"correspondence Model/EmuConfig.lean vs instance.py on `{line}` (real=[{real}] model=[{m}])")


def tie(ctx):
    cases = _corpus()
    if ctx.replay_in and "case" in ctx.replay_in.get("replay", {}):
        cases.append(ctx.replay_in["replay"]["case"])
    for _ in range(ctx.n(400, 20000)):
        cases.append(_gen(ctx.rng, ctx.rng.choice([3, 6, 10, 15, 25, 40])))
    _eval(ctx, cases)


def search(ctx, why):
    cases = [_gen(ctx.rng, ctx.rng.choice([10, 20, 40])) for _ in range(ctx.n(1000, 10000))]
    _eval(ctx, cases, use_model=False)


if __name__ == "__main__":
    vlib.main(sys.modules[__name__])
