"""C01 thorough tier: run /repo's own integration tests *against /repo's sources* with
`compile()` replaced by (check, lower with the real compiler, structural validation).

The pinned pytest suite imports site-packages guppylang 1.0.4; here the bootstrap shim is installed
first, so the test modules exercise /repo's working tree.  Only the programs the tests compile are
of interest: each `x.compile()` / `compile_function()` / `compile_entrypoint()` call is intercepted.
Test pass/fail itself is ignored (emulator-based tests cannot run on this stack).

usage: c01_harvest.py <out.json> [pytest node ids / paths ...]
"""
from __future__ import annotations

import json
import os
import sys

HERE = os.path.dirname(os.path.abspath(__file__))
sys.path.insert(0, os.path.dirname(HERE))
sys.path.insert(0, HERE)
import bootstrap

bootstrap.install()
import feed  # noqa: E402
import c01_validate as V  # noqa: E402
import pytest  # noqa: E402

RESULTS: list[dict] = []
CUR = [None]


class FakePkg:
    def __init__(self, g):
        self.g = g
        self.modules = [g.hugr]
        self.package = self
        self.module = g.hugr

    def to_bytes(self):
        return b""


def lower_and_validate(self):
    import hugr.build.function as hf
    from guppylang_internals.compiler.core import CompilerContext
    from guppylang_internals.engine import ENGINE
    from guppylang_internals.error import GuppyError

    ENGINE.check(self.id)  # rejected / tracing failures: not an accepted program, propagate
    g = hf.Module()
    try:
        CompilerContext(g).compile(ENGINE.checked[self.id])
    except GuppyError:
        raise
    except BaseException as e:  # noqa: BLE001
        import traceback

        msg = f"{type(e).__name__}: {str(e)[:300]}"
        env = isinstance(e, UnboundLocalError) and "outer_func" in str(e)  # tket.circuit not importable here
        RESULTS.append({"test": CUR[0], "outcome": "env" if env else "crash", "detail": msg,
                        "traceback": traceback.format_exc(limit=-4)[-1200:]})
        raise
    cs = V.validate(g.hugr)
    hard = [c for c in cs if c[0] != "nonlocal"]
    RESULTS.append({"test": CUR[0], "outcome": "invalid" if hard else "ok", "nodes": g.hugr.num_nodes(),
                    "complaints": hard[:8], "nonlocal": len(cs) - len(hard)})
    return FakePkg(g)


def main() -> None:
    out = sys.argv[1]
    args = sys.argv[2:] or [os.path.join(bootstrap.REPO, "tests", "integration")]
    import guppylang.defs as D

    for cls in (D.GuppyDefinition, D.GuppyFunctionDefinition):
        for m in ("compile", "compile_function", "compile_entrypoint"):
            if m in cls.__dict__:
                setattr(cls, m, lower_and_validate)
    import selene_hugr_qis_compiler

    selene_hugr_qis_compiler.check_hugr = lambda b: None

    class Plugin:
        @pytest.hookimpl(tryfirst=True)
        def pytest_runtest_setup(self, item):
            CUR[0] = item.nodeid

    os.chdir(os.path.join(bootstrap.REPO, "tests"))
    pytest.main(["-q", "-p", "no:cacheprovider", "--timeout=120", "-W", "ignore", "--tb=no", "--no-header",
                 "--continue-on-collection-errors", *args], plugins=[Plugin()])
    json.dump(RESULTS, open(out, "w"), indent=0, default=str)


if __name__ == "__main__":
    main()
