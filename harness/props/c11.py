"""C11 — Compiling a definition does not depend on session history."""
from __future__ import annotations

import concurrent.futures as cf
import json
import os
import subprocess
import sys

sys.path.insert(0, os.path.dirname(os.path.dirname(os.path.abspath(__file__))))
sys.path.insert(0, os.path.dirname(os.path.abspath(__file__)))
import vlib

PID = "C11"
THEOREM_MODULES = ["GuppyVerif.Props.C11"]
DRIVER = "C11"
RULE = (
    "one long session on the REAL engine (in-process): random check / lower (=ENGINE.check + CompilerContext.compile) / "
    "re-lower-from-cache operations over a pool of 36 definitions (ill-typed ones, callers of ill-typed ones, one whose signature "
    "does not parse and a caller of it, recursive nested "
    "functions with and without captures, generics, structs, comptime functions incl. one raising mid-trace and one mistyped, "
    "comptime expressions, comprehensions, static arrays); every lower/re-lower outcome (canonicalised Hugr digest: ops, types, "
    "wiring, node ids renumbered in traversal order; or exception class + rendered diagnostic) is compared with the outcome of "
    "lowering that definition ALONE in a fresh interpreter; the same operation sequence is run through the Lean session model "
    "(abstract pool extracted from the real objects) and per-operation outcome class, %tmp counter, DEF_STORE growth, tracing "
    "flag, frame rebinding, len(ENGINE.parsing) and the engine's checked cache (return-vars-inserted flag, input_tys growth) are "
    "compared. thorough: "
    "additionally every ordered pair (a, b) of pool definitions as consecutive lowerings. Edited files: in the same session a "
    "file NAME is loaded again and again with another content (a chain of 11 / 61 random small edits of a four-function file: "
    "operator, constant, arity of a callee, ill-typed body, an extra function, lines inserted at the top — most edits keep "
    "every definition on its line) and after every load `check` and `compile` of every function are compared with the same "
    "version loaded ALONE in a fresh interpreter; a difference is shrunk to the shortest suffix of earlier versions that "
    "reproduces it in a fresh interpreter. A case = one observed operation; "
    "non-trivial = it is preceded by at least one other operation and has a fresh-process baseline; distinct by the operation "
    "together with its three predecessors"
)
ASSUMPTIONS = [
    "Model/Session.lean is hand-written; its agreement with the engine is established by the per-operation state correspondence run here (sampling)",
    "the abstract pool (deps, tmps, sorted rows, nested definitions reached before a failure, comptime / bad-signature flags) is extracted from the real objects by c11_pool.calibrate (T-obj); deps come from the pool source via ast",
    "signatures of pool definitions do not mention other definitions, so parses do not nest (the model's `parsing` holds at most the definition being parsed)",
    "harness-side instrumentation: cfg.builder.tmp_vars is replaced in-process by an equivalent counter object (same names, same reset()) whose position can be read",
    "a fresh interpreter lowering the target alone (subprocess, same bootstrap) is the reference for 'no history'",
    "sorted() with compare_var on distinct names = insertion sort by name order (CPython sort correctness)",
]
UNMODELLED = [
    "struct definitions and their generated methods (real-engine tie only)",
    "GlobalConstId / GuppyObjectId / ExistentialVar counters (inventoried by counters_classified; observed not to reach the Hugr)",
    "DEF_STORE.sources, emulate() (no emulator for /repo output)",
    "state the inventory scanner cannot see: setattr/__dict__, function attributes, closures, instances made by factory functions, C-level caches (linecache, sys.modules), other packages (hugr)",
    "redefinition between operations is modelled only as 'the pool changes' (vsys): the model has no notion of source text, file names or line numbers; caches keyed by them are excluded by the inventory session_globals_classified and searched for by the edited-file run",
    "the types_to_check_worklist and the exact interleaving of on-demand checks during tracing",
]
TRUSTED_EXTRA = [
    "harness/props/c11_translate.py (ast reading of engine.py, cfg_compiler.py, tracing/state.py, package-wide scans)",
    "harness/props/c11_canon.py (Hugr canonical form) and hugr-py's own serialiser",
]
MANIFEST = {
    "level_text": "Lean theorems over the session model, for ALL pools of definitions and ALL histories of check / compile / "
    "re-lower operations (induction over operation lists, simulation between runs that differ in counters and cached objects): "
    "compile_history_free and failed_op_no_effect — for the configuration read off /repo's source on every run (real_config_sound, "
    "real_config_restarts_tmp: check() resets the caches incl. `parsing`, nothing is written into the defining frame, the tracing "
    "state and `parsing` are restored on every exit, check() restarts the %tmp numbering) and the order compare_var really uses on "
    "generated names (string order), check/compile outcomes and the abstract compile output after any history equal those of a "
    "fresh session; compile_history_free_of_sound is the general form (restart of the numbering OR an order invariant under "
    "renumbering); op_keeps_session_clean (no operation, failing half-way — in a parse too — included, binds a frame name, leaves "
    "tracing on or leaves a definition recorded as being parsed); relower_entry_stable_partial (the insert_return_vars guard and the "
    "unread input_tys make the in-place mutations of a cached CFG unobservable when it is lowered again). Witness theorems show each "
    "mechanism is needed; three of them were real defects found by this proof attempt and fixed in /repo (frame leak of recursive "
    "nested functions; tracing state not restored; block-port order depending on the session's %tmp counter: "
    "compile_history_free_false_for_name_order is the kernel-checked counter-history for the pre-fix configuration). "
    "compile_version_history_free: the same for histories of operations on ANY earlier versions of the definitions (the program "
    "text changes between operations), on the ASSUMPTION that the model's State is all that survives; syntactic "
    "tripwires for it are the regenerated inventories session_globals_classified (over guppylang_internals and guppylang: "
    "module/class-level containers mutated from functions, functools.cache memo tables, container attributes of module-level "
    "instances such as DEF_STORE.* and ENGINE.*, ContextVars, `global` rebinding, class-attribute stores / monkey patches, mutable "
    "default arguments — each entry classified with a reason in sessionGlobalsClassified; DEF_STORE.sources (keyed by file name), "
    "DEF_STORE.impls and the Hugr.add_node patch are NOT modelled and rest on the differential runs), counters_classified and "
    "reset_clears_all_caches; position_keyed_source_cache_observable shows what a source cache "
    "keyed by position would do. "
    "What only the search covers: that the real engine behaves like the model — checked on every run by running the same random "
    "operation sequence on the real engine and the model and comparing per-operation state projections, and by comparing every "
    "real lowering after a history with a fresh-process lowering (canonical Hugr).",
    "level_note": "The output of the model is abstract (return-variable count, sorted %tmp rows, input_tys length per definition), "
    "not the Hugr; equality of real Hugrs is established by the differential run only (quick: ~800 operations, thorough: all ordered "
    "pairs + ~6500 random operations). Trusted: Lean kernel, the translator c11_translate.py, the calibration of the abstract pool, "
    "the canonicaliser.",
    "technique": "Lean 4 proof (induction over histories, simulation relation) over a hand-written session model + T-src config + differential run against fresh-process compilation",
    "design_ref": "DESIGN.md §5 C11",
    "ready": True,
}

GEN = os.path.join(vlib.LEAN, "GuppyVerif", "Gen", "C11Config.lean")
POOLPY = os.path.join(os.path.dirname(os.path.abspath(__file__)), "c11_pool.py")


def translate(ctx):
    import c11_translate
    f = c11_translate.facts()
    ctx.extra["source_facts"] = f
    txt = c11_translate.render(f)
    old = open(GEN).read() if os.path.exists(GEN) else ""
    if old != txt:
        with open(GEN, "w") as fh:
            fh.write(txt)


# ----------------------------------------------------------------------------------------------- helpers
def _sub(args, timeout=600):
    env = dict(os.environ)
    p = subprocess.run(["/venv/bin/python", POOLPY, *args], capture_output=True, text=True, timeout=timeout, env=env)
    if p.returncode != 0:
        raise vlib.Infra(f"c11_pool subprocess failed: {p.stderr[-1500:]}")
    return json.loads(p.stdout.strip().splitlines()[-1])


def _baselines(targets):
    with cf.ThreadPoolExecutor(8) as ex:
        res = list(ex.map(lambda t: _sub(["fresh", t]), targets))
    out = {}
    for r in res:
        out.update(r)
    return {k.split(":", 1)[1]: v for k, v in out.items()}


def _strip(o):
    return {k: v for k, v in o.items() if k != "canon"}


def _cls_real(o):
    if o["kind"] in ("ok", "hugr"):
        return "ok"
    if o["kind"] == "absent":
        return "absent"
    if o.get("diag") == "ComptimeExprEvalError":
        return "ctEval"
    if o.get("diag") == "IllegalComptimeExpressionError":
        return "illegalCt"
    if o["exc"] in ("GuppyError", "GuppyTypeError", "GuppyComptimeError"):
        return "user"
    if o["exc"] == "ValueError" and o.get("text") == "boom":
        return "user"
    return "crash:" + o["exc"]


def _cls_model(s):
    if s.startswith("ok"):
        return "ok"
    if s == "absent":
        return "absent"
    e = s.split(":", 1)[1]
    return {"typeError": "user", "undefinedName": "user", "userRaise": "user", "sigError": "user",
            "cyclic": "user"}.get(e, e)


def _pool_sexp(cal):
    def d(o):
        rows = " ".join("(" + " ".join(map(str, r)) + ")" for r in o["rows"])
        nested = " ".join("(" + " ".join(map(str, n)) + ")" for n in o["nested"])
        return (f"(({' '.join(map(str, o['deps']))}) {o['ill']} {o['ct_call']} {o['nret']} {o['tmps']} {o['ctmps']} "
                f"({rows}) ({nested}) {o['comptime']} {o['raises']} {o.get('bad_sig', 0)})")
    return "(" + " ".join(d(o) for o in cal) + ")"


def _cfg_bits(f):
    return "({} {} {} {} {} {} {} {})".format(
        int(f["check_resets"]), int(f["return_vars_guard"]), int(bool(f["input_tys_reads"])), int(f["tracing_restored"]),
        int(bool(f["frame_writes"])), int(f["reset_clears_parsing"]), int(f["parse_restores"]), int(f["check_restarts_tmp"]))


def _euler_pairs(names, rng):
    """a sequence in which every ordered pair (a, b), a != b or a == b, occurs as consecutive elements"""
    n = len(names)
    order = list(range(n))
    rng.shuffle(order)
    # Hierholzer on the complete digraph with loops
    nxt = {v: list(order) for v in range(n)}
    stack, circuit = [order[0]], []
    while stack:
        v = stack[-1]
        if nxt[v]:
            stack.append(nxt[v].pop())
        else:
            circuit.append(stack.pop())
    return [names[i] for i in reversed(circuit)]


def _shrink_and_classify(ctx, hist, tgt_op, base):
    """find a short history that reproduces the difference in a FRESH interpreter; classify tmp-name-order"""
    cands = []
    for k in (0, 1, 2, 4, 8, 16, 32):
        if k <= len(hist):
            cands.append(hist[len(hist) - k:])
    cands.append(hist)
    uniq, seen = [], set()
    for h in cands:
        key = json.dumps(h)
        if key not in seen:
            seen.add(key)
            uniq.append(list(h))
    with cf.ThreadPoolExecutor(8) as ex:
        futs = [ex.submit(_sub, ["history", json.dumps({"ops": ops, "target": tgt_op[1], "observe": tgt_op[0]})])
                for ops in uniq]
        res = [fu.result() for fu in futs]
    for ops, r in zip(uniq, res):  # shortest first
        if tgt_op[0] == "relower" and base["kind"] == "error" and _cls_real(r["final"]) == _cls_real(base):
            continue
        if r["final"]["kind"] != "absent" and _strip(r["final"]) != _strip(base):
            r2 = _sub(["history", json.dumps({"ops": ops, "target": tgt_op[1], "observe": tgt_op[0],
                                              "tmp_reset_before_target": True})])
            tmp_only = _strip(r2["final"]) == _strip(base)
            return ops, r["final"], tmp_only
    return None, None, False


def _report(ctx, hist, tgt_op, real, base):
    ops, final, tmp_only = _shrink_and_classify(ctx, hist, tgt_op, base)
    if ops is not None and tmp_only:
        ctx.violation(
            "tmp-name-order:" + tgt_op[1],
            f"Hugr of `{tgt_op[1]}` depends on the session's %tmp counter (string order of generated names)",
            {"ops": ops, "target": tgt_op[1], "after_history": _strip(final), "fresh": _strip(base)})
        return
    h = ops if ops is not None else hist
    ctx.violation(
        "history:" + json.dumps([h, tgt_op]),
        f"`{tgt_op[0]} {tgt_op[1]}` after a history of {len(h)} operation(s) differs from a fresh session: "
        f"{_short(real)} vs fresh {_short(base)}",
        {"ops": h, "target": tgt_op[1], "observe": tgt_op[0], "after_history": _strip(real), "fresh": _strip(base),
         "reproduced_in_fresh_interpreter": ops is not None})


def _short(o):
    if o["kind"] == "hugr":
        return f"hugr {o['digest'][:10]} ({o['nodes']} nodes)"
    if o["kind"] == "error":
        return f"{o['exc']}/{o.get('diag', '')}: {o.get('text', '')[:80]!r}"
    return o["kind"]


def _judge_subprocess_case(ctx, case, r, base_cache):
    tgt = case["target"]
    real, base = r["final"], base_cache[tgt]
    ctx.count(["corpus", case["ops"][-3:], tgt], nontrivial=bool(case["ops"]), kind="corpus:" + real["kind"])
    if real["kind"] != "absent" and _strip(real) != _strip(base):
        r2 = _sub(["history", json.dumps({"ops": case["ops"], "target": tgt, "tmp_reset_before_target": True})])
        if _strip(r2["final"]) == _strip(base):
            ctx.violation("tmp-name-order:" + tgt,
                          f"Hugr of `{tgt}` depends on the session's %tmp counter (string order of generated names)",
                          {"ops": case["ops"], "target": tgt, "after_history": _strip(real), "fresh": _strip(base)})
        else:
            ob = case.get("observe", "lower")
            ctx.violation("history:" + json.dumps([case["ops"], [ob, tgt]]),
                          f"`{ob} {tgt}` after the stored history differs from a fresh session: {_short(real)} vs {_short(base)}",
                          {"ops": case["ops"], "target": tgt, "observe": ob, "after_history": _strip(real),
                           "fresh": _strip(base)})


# ----------------------------------------------------------------------------------------------- edited files
def _edit_mutate(rng, v):
    """the next version of the edited file: one or two small edits; most keep every definition on its line"""
    import c11_pool as P
    w = dict(v)
    for _ in range(rng.choice([1, 1, 2])):
        k = rng.choice(["op", "op", "k", "k", "arity", "bad", "extra", "shift", "same"])
        if k == "op":
            w["op"] = rng.choice([o for o in P.EDIT_OPS if o != w["op"]])
        elif k == "k":
            w["k"] = rng.choice([x for x in (1, 2, 3, 5, 7, 11) if x != w["k"]])
        elif k == "arity":
            w["arity"] = 3 - w["arity"]
        elif k == "bad":
            w["bad"] = 1 - w["bad"]
        elif k == "extra":
            w["extra"] = 1 - w["extra"]
        elif k == "shift":
            w["shift"] = rng.choice([x for x in (0, 1, 2) if x != w["shift"]])
    return w


_EDIT_V0 = {"shift": 0, "op": "+", "k": 1, "arity": 1, "bad": 0, "extra": 0}


def _edit_fresh(versions):
    """observation of each distinct version loaded ALONE in a fresh interpreter"""
    keys = sorted({json.dumps(v, sort_keys=True) for v in versions})
    with cf.ThreadPoolExecutor(8) as ex:
        res = list(ex.map(lambda k: _sub(["edit", json.dumps({"hist": [], "final": json.loads(k)})])["final"], keys))
    return dict(zip(keys, res))


def _edit_judge(ctx, tag, hist, v, obs, fresh, state):
    """obs: what the session observed for version v after the versions of `hist`; fresh: the fresh-interpreter result"""
    for name in sorted(fresh):
        real, base = obs.get(name, {"kind": "missing"}), fresh[name]
        ctx.count(["edit", tag, hist[-2:], v, name], nontrivial=bool(hist), kind="edit:" + name.split(":")[0] + ":" + _cls_real(real))
        if _strip(real) == _strip(base) or state["n"] >= 2:
            continue
        state["n"] += 1
        # shortest history that reproduces in a fresh interpreter: the previous version only, then longer suffixes
        short, shown = None, real
        for k in (1, 2, 4, len(hist)):
            if k > len(hist):
                continue
            h = hist[len(hist) - k:]
            r = _sub(["edit", json.dumps({"hist": h, "final": v})])["final"].get(name, {"kind": "missing"})
            if _strip(r) != _strip(base):
                short, shown = h, r
                break
        h = short if short is not None else hist
        ctx.violation(
            "edit:" + json.dumps([h, v, name], sort_keys=True),
            f"`{name}` of an edited file (re-loaded under the same file name) differs from a fresh session after "
            f"{len(h)} earlier version(s) of the file were compiled: {_short(shown)} vs fresh {_short(base)}",
            {"edit_hist": h, "edit_final": v, "name": name, "after_history": _strip(shown), "fresh": _strip(base),
             "final_source": __import__("c11_pool").edit_source(v),
             "previous_source": __import__("c11_pool").edit_source(h[-1]) if h else "",
             "reproduced_in_fresh_interpreter": short is not None})


def _edit_chains(ctx, chains, tag):
    """each chain of versions is replayed in its own interpreter (all but the last as history)"""
    fresh = _edit_fresh([c[-1] for c in chains])
    with cf.ThreadPoolExecutor(8) as ex:
        res = list(ex.map(lambda c: _sub(["edit", json.dumps({"hist": c[:-1], "final": c[-1]})])["final"], chains))
    state = {"n": 0}
    for c, r in zip(chains, res):
        _edit_judge(ctx, tag, c[:-1], c[-1], r, fresh[json.dumps(c[-1], sort_keys=True)], state)


def _edit_phase(ctx, more):
    import c11_pool as P
    rng = ctx.rng
    # corpus chains (own interpreter each)
    chains = []
    cdir = os.path.join(vlib.VERIF, "corpus", "c11")
    if os.path.isdir(cdir) and more == 1:
        for fn in sorted(os.listdir(cdir)):
            c = json.load(open(os.path.join(cdir, fn)))
            if "edit_hist" in c:
                chains.append(c["edit_hist"] + [c["edit_final"]])
    if chains:
        _edit_chains(ctx, chains, "corpus")
    # one long chain of edits in THIS session
    vs = [dict(_EDIT_V0, op=rng.choice(P.EDIT_OPS), k=rng.choice([1, 2, 3]))]
    for _ in range(ctx.n(10, 60) * more):
        vs.append(_edit_mutate(rng, vs[-1]))
    obs = [P.edit_observe(v) for v in vs]
    fresh = _edit_fresh(vs)
    state = {"n": 0}
    for i, (v, o) in enumerate(zip(vs, obs)):
        _edit_judge(ctx, "session", vs[:i], v, o, fresh[json.dumps(v, sort_keys=True)], state)
    ctx.extra["edit_versions"] = len(vs)


# ----------------------------------------------------------------------------------------------- tie
def tie(ctx, more: int = 1):
    import time

    import c11_pool as P
    rng = ctx.rng
    tm = ctx.extra.setdefault("timing_s", {})
    t0 = time.time()
    base: dict = {}
    # ---- corpus / replay cases (each in its own fresh interpreter) and the fresh-process baselines, all in parallel
    cases = []
    cdir = os.path.join(vlib.VERIF, "corpus", "c11")
    if os.path.isdir(cdir) and more == 1:
        for fn in sorted(os.listdir(cdir)):
            c = json.load(open(os.path.join(cdir, fn)))
            if "ops" in c:
                cases.append(c)
    if ctx.replay_in:
        rp = ctx.replay_in["replay"]
        cases = [{"ops": rp["ops"], "target": rp["target"], "observe": rp.get("observe", "lower")}] if "ops" in rp else []
        if "edit_hist" in rp:
            _edit_chains(ctx, [rp["edit_hist"] + [rp["edit_final"]]], "replay")
    if ctx.replay_in:
        targets = []
    elif ctx.quick and more == 1:
        always = ["two_tmp", "uses_f", "cexpr", "user_bad", "rec_cap", "use_struct", "uses_bad_sig"]
        rest = [t for t in P.TARGETS if t not in always]
        targets = always + rng.sample(rest, 6)
    else:
        targets = list(P.TARGETS)
    need = sorted(set(targets) | {c["target"] for c in cases})
    with cf.ThreadPoolExecutor(16) as ex:
        fb = {t: ex.submit(_sub, ["fresh", t]) for t in need}
        fc = [ex.submit(_sub, ["history", json.dumps({"ops": c["ops"], "target": c["target"],
                                                      "observe": c.get("observe", "lower")})]) for c in cases]
        for t, fu in fb.items():
            base[t] = list(fu.result().values())[0]
        case_res = [fu.result() for fu in fc]
    for c, r in zip(cases, case_res):
        _judge_subprocess_case(ctx, c, r, base)
    tm["corpus+baselines"] = round(time.time() - t0, 1)
    if ctx.replay_in:
        return
    ctx.extra["baseline_targets"] = sorted(base)
    # ---- calibration, then a clean start for the long history
    from guppylang_internals.engine import DEF_STORE, ENGINE
    cal = P.calibrate()
    for o in cal:
        if o["comptime"] and not o["raises"] and o["name"] in P.FAILING:
            o["raises"] = 1  # comptime function rejected while tracing (mistyped return): fails at compile time
    ctx.extra["abstract_pool"] = [{k: v for k, v in o.items()} for o in cal]
    idx = {t: i for i, t in enumerate(P.MODEL_TARGETS)}
    ENGINE.reset()
    P.COUNTER.n = 0
    store0 = len(DEF_STORE.raw_defs)
    # ---- history A (modelled definitions)
    kinds = ["check", "lower", "lower", "lower", "relower"]
    opsA = []
    if not ctx.quick or more > 1:
        seq = _euler_pairs(P.MODEL_TARGETS, rng)
        opsA += [["lower", t] for t in seq]
        ctx.extra["exhaustive"] = True
        ctx.extra["exhaustive_note"] = (f"every ordered pair of the {len(P.MODEL_TARGETS)} modelled pool definitions occurs as "
                                        "two consecutive lowerings (Euler circuit)")
    nA = ctx.n(600, 5000) * more
    obsA = [t for t in P.MODEL_TARGETS if t in base]
    for _ in range(nA):
        k = rng.choice(kinds)
        # observed operations mostly on definitions that have a fresh-process baseline in this run
        t = rng.choice(obsA) if (k != "check" and obsA and rng.random() < 0.6) else rng.choice(P.MODEL_TARGETS)
        opsA.append([k, t])
    realA, probes = [], []
    for op in opsA:
        realA.append(P.run_op(op))
        probes.append(P.state_probe())
    tm["historyA"] = round(time.time() - t0, 1)
    # ---- model on the same sequence
    f = ctx.extra.get("source_facts") or __import__("c11_translate").facts()
    req = "(name {} {} ({}) 0)".format(
        _cfg_bits(f), _pool_sexp(cal),
        " ".join("({} {})".format({"check": "c", "lower": "l", "relower": "r"}[k], idx[t]) for k, t in opsA))
    reply = ctx.driver(DRIVER, [req])[0]
    if reply.startswith("bad-request"):
        raise vlib.Infra("C11 driver rejected the request")
    per_op = reply.split(" || ")[0].split(" | ") if opsA else []
    mism = 0
    for i, (op, real, pr, mo) in enumerate(zip(opsA, realA, probes, per_op)):
        mparts = mo.split(";")
        m_out = mparts[0]
        m_tmp, m_store, m_tr, m_leaks = int(mparts[1]), int(mparts[3]), int(mparts[4]), int(mparts[5])
        m_chk = " ".join("/".join(c.split("/")[:3]) for c in mparts[6].split()) if len(mparts) > 6 else ""
        m_parsing = int(mparts[7]) if len(mparts) > 7 else 0
        diffs = []
        if _cls_real(real) != _cls_model(m_out):
            diffs.append(f"outcome real={_cls_real(real)} model={_cls_model(m_out)}")
        if pr["tmp"] != m_tmp:
            diffs.append(f"%tmp counter real={pr['tmp']} model={m_tmp}")
        if pr["store"] - store0 < m_store:
            # (only a lower bound: std structs such as Range re-register their generated methods on every check)
            diffs.append(f"DEF_STORE growth real={pr['store'] - store0} < model={m_store}")
        if pr["tracing"] != m_tr:
            diffs.append(f"tracing real={pr['tracing']} model={m_tr}")
        if bool(pr["rebound"]) != (m_leaks > 0):
            diffs.append(f"frame rebinding real={pr['rebound']} model={m_leaks}")
        if pr.get("parsing", 0) != m_parsing:
            diffs.append(f"len(ENGINE.parsing) real={pr.get('parsing')} model={m_parsing}")
        if pr["checked"] != m_chk:
            diffs.append(f"checked cache real=[{pr['checked']}] model=[{m_chk}]")
        if diffs and mism < 3:
            mism += 1
            ctx.broke(f"correspondence Model/Session.lean vs engine at op {i} `{op[0]} {op[1]}` "
                      f"(previous: {opsA[max(0, i - 3):i]}): " + "; ".join(diffs))
        if diffs and mism >= 3:
            break
    ctx.extra["model_ops_compared"] = len(per_op)
    tm["model"] = round(time.time() - t0, 1)
    # ---- oracle: every observed lowering equals the fresh-process one
    _oracle(ctx, opsA, realA, base, "A")
    # ---- history B: everything, structs included (real engine only)
    obsB = [t for t in P.TARGETS if t in base]
    opsB = []
    for _ in range(ctx.n(200, 1500) * more):
        k = rng.choice(kinds)
        opsB.append([k, rng.choice(obsB) if (k != "check" and obsB and rng.random() < 0.6) else rng.choice(P.TARGETS)])
    realB = [P.run_op(op) for op in opsB]
    _oracle(ctx, opsB, realB, base, "B", prefix=opsA)
    tm["oracle+B"] = round(time.time() - t0, 1)
    # ---- edited source files: the same file name is loaded again with another content (in this very session, whose
    # engine has been through histories A and B)
    _edit_phase(ctx, more)
    tm["edit"] = round(time.time() - t0, 1)
    pr = P.session_probe()
    if pr["tracing_active"] or pr["pool_names_rebound"]:
        ctx.violation("session-probe:" + json.dumps(pr, sort_keys=True),
                      f"after the run the session is not clean: {pr}", {"probe": pr}, found_input=False)


def _oracle(ctx, ops, reals, base, tag, prefix=()):
    nviol = 0
    for i, (op, real) in enumerate(zip(ops, reals)):
        k, t = op
        if k == "check":
            ctx.count([tag, ops[max(0, i - 3):i], op], nontrivial=False, kind="check:" + _cls_real(real))
            continue
        has_base = t in base
        compared = has_base and real["kind"] != "absent"
        ctx.count([tag, ops[max(0, i - 3):i], op], nontrivial=compared and (i > 0 or bool(prefix)),
                  kind=f"{k}:{_cls_real(real)}" + ("" if compared else ":unobserved"))
        if not compared:
            continue
        if k == "relower" and base[t]["kind"] == "error" and _cls_real(real) == _cls_real(base[t]):
            # harness-only operation on a cache left behind by a FAILED check: which of several ill-typed
            # dependencies is reported first may differ (work-list order vs program order); same class suffices
            continue
        if _strip(real) != _strip(base[t]) and nviol < 2:
            nviol += 1
            _report(ctx, list(prefix) + ops[:i], op, real, base[t])


def search(ctx, why):
    """something no longer checks (typically: Gen config no longer sound): look harder for a real history.
    (vlib.main reports the broken proof / correspondence itself when no failing input turns up.)"""
    ctx.extra["search"] = "thorough-size history run (all ordered pairs + more random operations)"
    if not any(v["found"] for v in ctx.violations):
        tie(ctx, more=2)


if __name__ == "__main__":
    vlib.main(sys.modules[__name__])
