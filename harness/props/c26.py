"""C26 — Loaded pytket circuits act like the circuit (partial: wiring, not state semantics)."""
from __future__ import annotations

import json
import os
import sys
import types

sys.path.insert(0, os.path.dirname(os.path.dirname(os.path.abspath(__file__))))
import vlib

PID = "C26"
THEOREM_MODULES = ["GuppyVerif.Props.C26"]
DRIVER = "C26"
RULE = (
    "random small pytket circuits: 1-4 qubit registers and 0-3 bit registers with names from pools mixing case, "
    "digits and underscores, units added in shuffled (non-lexicographic, interleaved) order, sometimes units "
    "outside complete registers; 0-4 symbols used in shuffled order inside Rz/Rx expressions; H/CX/Measure gates; "
    "each loaded by guppy.load_pytket with use_arrays in {False, True} and lowered by the real compile_outer; "
    "a fixed list of boundary shapes in both modes (no qubits with one/several bit registers, no bits, nothing at all, "
    "only and many 1-element registers, no parameters) and a random degenerate stream of the same kinds (purely classical "
    "circuits carry SetBits ops); "
    "plus @guppy.pytket stubs (a fixed list of single-deviation stubs incl. `@owned` qubits, and random near-misses: wrong count/order/flags/return/body). "
    "plus HISTORIES in one process: a fixed list and random sessions of events new/extend/load/stub/del over circuit OBJECTS "
    "(one object loaded, extended by gates/measurements/qubits/bits/registers/symbols and loaded again under the same or a new "
    "name; objects deleted + gc.collect() and a new object allocated at the same id(); one circuit loaded twice; two objects "
    "interleaved; use_arrays mixed) where every load is compared with the object's state at that moment, including the gate "
    "multiset of the inserted circuit function. "
    "non-trivial = at least two loads (history), at least two qubit registers or two symbols or one bit (load), any stub case; distinct by "
    "canonical case description"
)
ASSUMPTIONS = [
    "tket's conversion (Tk2Circuit / CompilationState.from_tket1) yields a function whose inputs are the qubits, then the bits, "
    "then one parameter per name of TKET1.input_parameters in that order, and whose outputs are the qubits then the bits, in the "
    "order recorded in TKET1.qubit_registers / TKET1.bit_registers; the oracle reads these labels from the real converted HUGR on every case",
    "pytket lists qubits/bits in increasing UnitID order and q_registers/c_registers as the complete registers in that order "
    "(Circ.viewOk, evaluated by the Lean driver on the real circuit's attributes for every case)",
    "API drift shims local to this check: tket.circuit.Tk2Circuit is provided on top of tket._state.CompilationState.from_tket1 "
    "and hugr Node.metadata on top of Hugr[node].metadata (both removed upstream); they do not reorder anything",
    "the Lean model Model/Pytket.lean is hand-written; agreement with pytket_circuits.py is established by the same-input comparison "
    "of signature and full wiring read back from the lowered Hugr",
]
UNMODELLED = [
    "Tk2Circuit conversion of the circuit body and the circuit's action on quantum state (no emulator for /repo output)",
    "HUGR types on the wires (float vs rotation parameter drift), check_call/synthesize_call of the loaded function",
    "check_signature and parse_py_func for the stub (their result is an input of the model)",
]
TRUSTED_EXTRA = ["the wiring reader in harness/props/c26.py (walks Input/Call/Output links of the lowered Hugr)"]
MANIFEST = {
    "level_text": "Lean theorems over an executable model of compile_outer/_signature_from_circuit/RawPytketDef.parse, for all "
    "circuit shapes: the i-th passed qubit (flattened over register arrays in lexicographic register order) feeds the circuit's "
    "i-th qubit and returns at position i; the parameter passed in position k is bound to the symbol of lexicographic rank k; "
    "outputs are one opaque bool per classical bit then the qubits; a stub is accepted iff its inputs/output equal the circuit's "
    "shape; circuits with units outside complete registers are rejected when arrays are used (after fix da0a7d6); in any session "
    "(history of loads of mutable circuit objects) each load's result is that of its own snapshot. Tie T-obj: "
    "random pytket circuits are loaded and lowered by the real code, signature and complete wiring are read from the Hugr and "
    "compared with the Lean driver and with an independent end-to-end oracle using tket's own port labels.",
    "level_note": "Partial: Tk2Circuit and state semantics are not modelled; the inner function's port order is an assumption read "
    "from tket's metadata on every case. Two local API-drift shims (Tk2Circuit over CompilationState, Node.metadata) are needed to run "
    "compile_outer on the installed tket 0.15.9/hugr 0.18.6. Correspondence is sampling (quick ~275 cases incl. ~30 histories, thorough ~4600 incl. ~510 histories; boundary shapes, single-deviation stubs and boundary histories always included).",
    "technique": "Lean 4 proof over a hand-written model + T-obj wiring extraction from the real lowering + independent oracle",
    "design_ref": "DESIGN.md §5 C26",
    "ready": True,
}

NAME = "circ"
QNAMES = ["q", "a", "z", "b", "r1", "r_2", "aa", "ab", "Q", "Z", "node", "a_", "a1"]
BNAMES = ["c", "m", "k", "C", "c_1", "c0", "mm", "M", "creg"]
SYMS = ["a", "b", "t", "zz", "a1", "A", "Z", "x_", "a_", "beta", "B2", "aa", "ab", "theta", "Theta"]
ODD_SYMS = ["_x", "_"]


# ------------------------------------------------------------------ API drift shims
_shimmed = False
_CUR = [None]


def _install_shims():
    """tket.circuit.Tk2Circuit and hugr Node.metadata no longer exist; provide both (order-neutral)."""
    global _shimmed
    if _shimmed:
        return
    import hugr.hugr.base as hb
    import tket
    from hugr.hugr.node_port import Node
    from tket._state import CompilationState

    if "tket.circuit" not in sys.modules:
        m = types.ModuleType("tket.circuit")

        class Tk2Circuit:
            def __init__(self, circ):
                self._s = CompilationState.from_tket1(circ)

            def to_bytes(self, cfg):
                return self._s.to_bytes(cfg)

        m.Tk2Circuit = Tk2Circuit
        sys.modules["tket.circuit"] = m
        tket.circuit = m
    if not hasattr(Node, "metadata"):
        orig = hb.Hugr.insert_hugr

        def insert_hugr(self, *a, **k):
            _CUR[0] = self
            return orig(self, *a, **k)

        hb.Hugr.insert_hugr = insert_hugr
        Node.metadata = property(lambda self: _CUR[0][self].metadata)
    _shimmed = True


# ------------------------------------------------------------------ case -> circuit
def apply_desc(c, desc, from_q=0, from_b=0, from_op=0):
    """add the units/ops of `desc` from the given positions on to the pytket circuit object `c`"""
    from pytket import Bit, Qubit
    from sympy import Symbol

    qs = [Qubit(n, i) for n, i in desc["qubits"]]
    bs = [Bit(n, i) for n, i in desc["bits"]]
    for q in qs[from_q:]:
        c.add_qubit(q)
    for b in bs[from_b:]:
        c.add_bit(b)
    for op in desc["ops"][from_op:]:
        if op[0] == "H":
            c.H(qs[op[1]])
        elif op[0] == "CX":
            c.CX(qs[op[1]], qs[op[2]])
        elif op[0] in ("Rz", "Rx"):
            e = 0
            for coef, s in op[1]:
                e = e + coef * Symbol(s)
            getattr(c, op[0])(e, qs[op[2]])
        elif op[0] == "Measure":
            c.Measure(qs[op[1]], bs[op[2]])
        elif op[0] == "SetBits":
            c.add_c_setbits([bool(v) for v in op[1]], [bs[i] for i in op[2]])
        else:
            raise AssertionError(op)
    return c


def build_circuit(case, c=None):
    from pytket import Circuit

    return apply_desc(Circuit() if c is None else c, case)


def oracle_body(desc):
    """quantum gates the circuit consists of, from the description: ['CX:1', 'H:2', ...]"""
    cnt = {}
    for op in desc["ops"]:
        if op[0] != "SetBits":
            cnt[op[0]] = cnt.get(op[0], 0) + 1
    return [f"{k}:{v}" for k, v in sorted(cnt.items())]


def _body_of(h, root):
    """quantum ops (tket.quantum.*) below `root`: ['CX:1', 'H:2', ...]"""
    import feed

    cnt, st = {}, [root]
    while st:
        n = st.pop()
        for k in h.children(n):
            nm = feed.op_name(h[k].op)
            if nm.startswith("tket.quantum."):
                g = nm.split(".")[-1]
                g = "Measure" if g.startswith("Measure") else g
                cnt[g] = cnt.get(g, 0) + 1
            st.append(k)
    return [f"{k}:{v}" for k, v in sorted(cnt.items())]


def inner_body(g, name):
    """content of the circuit function that the outer function `name` calls"""
    import hugr.ops as ops

    h = g.hugr
    outer = [n for n in h if isinstance(h[n].op, ops.FuncDefn) and h[n].op.f_name == name][0]
    call = [k for k in h.children(outer) if isinstance(h[k].op, ops.Call)][0]
    nin = len(h[call].op.instantiation.input)
    tgt = list(h.linked_ports(call.inp(nin)))[0].node
    return _body_of(h, tgt)


def case_symbols(case):
    return sorted({s for op in case["ops"] if op[0] in ("Rz", "Rx") for coef, s in op[1] if coef != 0})


# ------------------------------------------------------------------ S-expressions
def sx(x):
    if isinstance(x, (list, tuple)):
        return "(" + " ".join(sx(i) for i in x) + ")"
    return str(x)


def _atom(s):
    return "".join(ch if (ch.isalnum() or ch in "_[],.-") else "~" for ch in str(s).replace(" ", "")) or "~"


def circ_sx(c):
    units = lambda us: [[u.reg_name, *u.index] for u in us]
    regs = lambda rs: [[r.name, r.size] for r in rs]
    return ["circ", units(c.qubits), units(c.bits), regs(c.q_registers), regs(c.c_registers), len(c.free_symbols())]


def _scalar(ty):
    from guppylang_internals.tys.ty import OpaqueType, StructType

    if isinstance(ty, OpaqueType) and not ty.args and ty.defn.name in ("qubit", "bool"):
        return ty.defn.name
    if isinstance(ty, StructType) and not ty.args and ty.defn.name == "angle":
        return "angle"
    return ["other", _atom(ty)]


def _leaf(ty):
    from guppylang_internals.tys.arg import ConstArg
    from guppylang_internals.tys.builtin import get_element_type, is_array_type
    from guppylang_internals.tys.const import ConstValue

    if is_array_type(ty):
        ln = ty.args[1]
        if isinstance(ln, ConstArg) and isinstance(ln.const, ConstValue):
            return ["array", _scalar(get_element_type(ty)), ln.const.value]
        return ["other", _atom(ty)]
    return _scalar(ty)


def sig_sx(fty):
    from guppylang_internals.tys.ty import InputFlags, NoneType, TupleType

    fl = {InputFlags.NoFlags: "noFlags", InputFlags.Inout: "inout", InputFlags.Owned: "owned", InputFlags.Comptime: "comptime"}
    ins = [[_leaf(i.ty), fl.get(i.flags, "otherflags")] for i in fty.inputs]
    o = fty.output
    if isinstance(o, NoneType):
        out = "none"
    elif isinstance(o, TupleType):
        out = ["tuple", *[_leaf(t) for t in o.element_types]]
    else:
        out = _leaf(o)
    return ["sig", ["ins", *ins], out]


# ------------------------------------------------------------------ reading the wiring back from the Hugr
class Unrecognised(Exception):
    pass


def _elem(t):
    import hugr.tys as ht

    if t == ht.Qubit:
        return "qubit"
    s = str(t)
    if isinstance(t, ht.Tuple) or s.startswith("Tuple("):
        return "angle" if "float64" in s else "x"
    if "bool" in s and "tket" in repr(t) or s == "bool":
        return "bool"
    return "x"


def _arr_args(op):
    import hugr.tys as ht

    size, el = None, None
    for a in op.args:
        if isinstance(a, ht.BoundedNatArg):
            size = a.n
        elif isinstance(a, ht.TypeTypeArg):
            el = _elem(a.ty)
    return el, size


def read_wiring(g, name):
    """-> (args, outs) as nested lists in the driver's reply syntax"""
    import hugr.ops as ops
    import hugr.val as hv
    import feed

    h = g.hugr
    outer = [n for n in h if isinstance(h[n].op, ops.FuncDefn) and h[n].op.f_name == name]
    if len(outer) != 1:
        raise Unrecognised(f"{len(outer)} functions named {name}")
    kids = list(h.children(outer[0]))
    inp = [k for k in kids if isinstance(h[k].op, ops.Input)][0]
    out = [k for k in kids if isinstance(h[k].op, ops.Output)][0]
    calls = [k for k in kids if isinstance(h[k].op, ops.Call)]
    if len(calls) != 1:
        raise Unrecognised(f"{len(calls)} calls")
    call = calls[0]

    def src_of(node, port):
        l = list(h.linked_ports(node.inp(port)))
        if len(l) != 1:
            return None
        return l[0].node, l[0].offset

    def port_sx(s):
        if s is None:
            return "unlinked"
        n, off = s
        if n == inp:
            return ["in", off]
        nm = feed.op_name(h[n].op)
        if nm.endswith("borrow_arr.unpack") or nm.endswith("array.unpack"):
            s2 = src_of(n, 0)
            if s2 is None or s2[0] != inp:
                raise Unrecognised("unpack not fed by an input")
            el, size = _arr_args(h[n].op)
            return ["unpack", el, size, s2[1], off]
        raise Unrecognised(f"source op {nm}")

    def src_sx(s):
        if s is None:
            return "unlinked"
        n, off = s
        op = h[n].op
        if isinstance(op, ops.LoadConst):
            cn = src_of(n, 0)[0]
            v = h[cn].op.val
            return "false" if v == hv.FALSE else ["const", _atom(v)]
        if isinstance(op, ops.UnpackTuple):
            if len(op.types) != 1 or "float64" not in str(op.types[0]):
                raise Unrecognised("UnpackTuple of " + str(op.types))
            return ["untuple", port_sx(src_of(n, 0))]
        return port_sx(s)

    nin = len(h[call].op.instantiation.input)
    args = [src_sx(src_of(call, p)) for p in range(nin)]

    def leaf_sx(s):
        if s is None:
            return "unlinked"
        n, off = s
        if n == call:
            return ["call", off]
        nm = feed.op_name(h[n].op)
        if nm == "tket.bool.make_opaque":
            s2 = src_of(n, 0)
            if s2 is None or s2[0] != call:
                raise Unrecognised("make_opaque not fed by the call")
            return ["opaque", s2[1]]
        raise Unrecognised(f"output leaf op {nm}")

    def out_sx(s):
        if s is None:
            return "unlinked"
        n, off = s
        nm = feed.op_name(h[n].op)
        if nm.endswith("new_array"):
            el, size = _arr_args(h[n].op)
            k = h.num_in_ports(n)
            return ["new", el, size, *[leaf_sx(src_of(n, i)) for i in range(k)]]
        return leaf_sx(s)

    nout = h.num_in_ports(out)
    outs = [out_sx(src_of(out, p)) for p in range(nout)]
    return ["args", *args], ["outs", *outs]


def convert_info(c):
    """metadata and output port kinds of tket's converted function (None if the conversion fails)"""
    import hugr.tys as ht
    from hugr import envelope
    from hugr.envelope import EnvelopeConfig
    from tket._state import CompilationState

    try:
        p = envelope.read_envelope(CompilationState.from_tket1(c).to_bytes(EnvelopeConfig.TEXT))
        h = p.modules[0]
        md = h[h.entrypoint].metadata
        op = h[h.entrypoint].op
        get = lambda k: md[k] if k in md else None
        kinds = ["q" if t == ht.Qubit else "b" if t == ht.Bool else "x" for t in op.outputs]
        lab = lambda rows: None if rows is None else [(r[0], tuple(r[1])) for r in rows]
        return {
            "params": get("TKET1.input_parameters"),
            "qubits": lab(get("TKET1.qubit_registers")),
            "bits": lab(get("TKET1.bit_registers")),
            "outs": kinds,
            "n_in": len(op.inputs),
            "body": _body_of(h, h.entrypoint),
        }
    except BaseException as e:  # noqa: BLE001
        return {"failed": type(e).__name__}


# ------------------------------------------------------------------ real
def _err_reply(e):
    from guppylang_internals.error import GuppyError, InternalGuppyError

    if isinstance(e, GuppyError):
        cls = type(e.error).__name__
        if cls == "PytketUnitsOutsideRegisters":
            return "(err sig unitsOutsideRegisters)"
        return f"(err user {cls})"
    if isinstance(e, InternalGuppyError) and "Parameter metadata is missing" in str(e):
        return "(err compile missingMetadata)"
    if isinstance(e, ValueError) and "zip()" in str(e):
        return "(err compile zipLength)"
    if isinstance(e, IndexError):
        return "(err compile index)"
    if isinstance(e, KeyError):
        return "(err compile key)"
    return f"(crash {type(e).__name__})"


def real_load(c, ua, name=NAME, defs=None):
    """-> (reply string, structure or None); ids of created definitions are appended to `defs`"""
    import feed
    from guppylang import guppy
    from guppylang_internals.engine import ENGINE

    try:
        d = guppy.load_pytket(name, c, use_arrays=ua)
        if defs is not None:
            defs.append(d.id)
        g = feed.lower(d)
        sig = sig_sx(ENGINE.checked[d.id].ty)
        args, outs = read_wiring(g, name)
        body = inner_body(g, name)
        return sx(["ok", sig, args, outs]), {"sig": sig, "args": args[1:], "outs": outs[1:], "body": body}
    except Unrecognised as e:
        return f"(unrecognised {_atom(e)})", None
    except BaseException as e:  # noqa: BLE001
        return _err_reply(e), None


# ------------------------------------------------------------------ oracle (literal reading, end to end)
def _groups(units):
    """sorted units grouped by register name -> [(name, [indices...])] in name order"""
    out = []
    for n, i in units:
        if out and out[-1][0] == n:
            out[-1][1].append(i)
        else:
            out.append((n, [i]))
    return out


def oracle_load(case, info, real_reply, real):
    """'ok' if the real outcome satisfies the property's literal reading, else a reason."""
    ua = case["ua"]
    SQ = sorted({(n, tuple(i) if isinstance(i, list) else (i,)) for n, i in case["qubits"]})
    SB = sorted({(n, tuple(i) if isinstance(i, list) else (i,)) for n, i in case["bits"]})
    SS = case_symbols(case)
    nq, nb, ns = len(SQ), len(SB), len(SS)
    qg, bg = _groups(SQ), _groups(SB)
    complete = all(idx == [(k,) for k in range(len(idx))] for _n, idx in qg + bg)
    if ua and not complete:
        # no array layout exists for such a circuit: it must be refused with a user error
        return "ok" if real_reply.startswith("(err sig ") or real_reply.startswith("(err user ") else "accepted a circuit with units outside registers: " + real_reply
    if "failed" in info:
        return "n/a"  # tket cannot convert the circuit at all
    if info["params"] is None and ns:
        return "n/a"  # tket did not report the parameters (unmodelled conversion)
    QL, BL, PL = info["qubits"], info["bits"], info["params"] or []
    if sorted(QL) != SQ or sorted(BL) != SB or sorted(PL) != SS or info["outs"] != ["q"] * nq + ["b"] * nb:
        return "n/a"  # conversion interface not as assumed (reported separately)
    if real is None:
        return "not loaded: " + real_reply
    # expected signature
    if ua:
        ins = [[["array", "qubit", len(idx)], "inout"] for _n, idx in qg]
        if ns:
            ins.append([["array", "angle", ns], "noFlags"])
        outs_t = [["array", "bool", len(idx)] for _n, idx in bg]
    else:
        ins = [["qubit", "inout"]] * nq + [["angle", "noFlags"]] * ns
        outs_t = ["bool"] * nb
    out_t = "none" if not outs_t else outs_t[0] if len(outs_t) == 1 else ["tuple", *outs_t]
    if real["sig"] != ["sig", ["ins", *ins], out_t]:
        return f"signature {sx(real['sig'])} is not the circuit's shape"
    args = real["args"]
    if len(args) != nq + nb + ns:
        return f"{len(args)} call arguments for {nq}+{nb}+{ns} circuit inputs"
    # caller positions
    qpos, off = {}, 0
    if ua:
        for r, (_n, idx) in enumerate(qg):
            for e in range(len(idx)):
                qpos[sx(["unpack", "qubit", len(idx), r, e])] = off + e
            off += len(idx)
        ppos = {sx(["untuple", ["unpack", "angle", ns, len(qg), k]]): k for k in range(ns)}
    else:
        qpos = {sx(["in", k]): k for k in range(nq)}
        ppos = {sx(["untuple", ["in", nq + k]]): k for k in range(ns)}
    seen = set()
    for i in range(nq):
        p = qpos.get(sx(args[i]))
        if p is None:
            return f"circuit qubit port {i} fed by {sx(args[i])}"
        if QL[i] != SQ[p]:
            return f"passed qubit {p} (expected {SQ[p]}) feeds circuit qubit {QL[i]}"
        seen.add(p)
    if len(seen) != nq:
        return "a passed qubit is used twice"
    for b in range(nb):
        if args[nq + b] != "false":
            return f"bit input {b} fed by {sx(args[nq + b])}"
    for j in range(ns):
        k = ppos.get(sx(args[nq + nb + j]))
        if k is None:
            return f"parameter port {j} fed by {sx(args[nq + nb + j])}"
        if PL[j] != SS[k]:
            return f"parameter passed in position {k} (symbol {SS[k]} expected) is bound to {PL[j]}"
    # outputs: one bool per bit in bit order, then the qubits in qubit order
    leaves = []
    outs = real["outs"]
    if ua:
        shape = [("bool", len(idx)) for _n, idx in bg] + [("qubit", len(idx)) for _n, idx in qg]
        if len(outs) != len(shape):
            return f"{len(outs)} outputs for {len(shape)} registers"
        for o, (el, size) in zip(outs, shape):
            if not (isinstance(o, list) and o[0] == "new" and o[1] == el and o[2] == size and len(o) - 3 == size):
                return f"output {sx(o)} is not a {el} array of size {size}"
            leaves.extend(o[3:])
    else:
        leaves = outs
    if len(leaves) != nb + nq:
        return f"{len(leaves)} output wires for {nb} bits + {nq} qubits"
    for b in range(nb):
        l = leaves[b]
        if not (isinstance(l, list) and l[0] == "opaque" and nq <= l[1] < nq + nb and BL[l[1] - nq] == SB[b]):
            return f"output {b} is {sx(l)}, expected the bool of bit {SB[b]}"
    for i in range(nq):
        l = leaves[nb + i]
        if not (isinstance(l, list) and l[0] == "call" and l[1] < nq and QL[l[1]] == SQ[i]):
            return f"qubit output {i} is {sx(l)}, expected circuit qubit {SQ[i]}"
    return "ok"


# ------------------------------------------------------------------ stubs
ANN = {
    "qubit": "qubit", "angle": "angle", "bool": "bool", "int": ["other", "int"], "float": ["other", "float"],
    "array[qubit, 1]": ["array", "qubit", 1], "array[qubit, 2]": ["array", "qubit", 2],
    "array[bool, 2]": ["array", "bool", 2], "array[angle, 2]": ["array", "angle", 2],
}
LINEAR = {"qubit", "array[qubit, 1]", "array[qubit, 2]", "array[bool, 2]", "array[angle, 2]"}
BODIES = {
    "ellipsis": ("    ...\n", ["e"]),
    "doc": ('    """doc"""\n', []),
    "doc+ellipsis": ('    """doc"""\n    ...\n', ["e"]),
    "pass": ("    pass\n", ["o"]),
    "return": ("    return None\n", ["o"]),
    "two": ("    ...\n    ...\n", ["e", "e"]),
    "doc+pass": ('    """doc"""\n    pass\n', ["o"]),
}


def ret_leaves(ret):
    """description of a return annotation -> model Ty"""
    if ret == "None":
        return "none"
    if ret.startswith("tuple["):
        inner = ret[len("tuple["):-1]
        parts, depth, cur = [], 0, ""
        for ch in inner:
            if ch == "[":
                depth += 1
            if ch == "]":
                depth -= 1
            if ch == "," and depth == 0:
                parts.append(cur.strip())
                cur = ""
            else:
                cur += ch
        parts.append(cur.strip())
        return ["tuple", *[ANN[p] for p in parts]]
    return ANN[ret]


def stub_source(stub, name=NAME):
    ps = []
    for i, (ann, owned) in enumerate(stub["params"]):
        if ann is None:
            ps.append(f"x{i}")
        else:
            ps.append(f"x{i}: {ann}" + (" @owned" if owned else ""))
    ret = "" if stub["ret"] is None else f" -> {stub['ret']}"
    return f"@guppy.pytket(circ)\ndef {name}({', '.join(ps)}){ret}:\n" + BODIES[stub["body"]][0]


def _sig_error(stub):
    """check_signature raises: missing annotation, or `@owned` on a copyable type (NonLinearOwnedError)"""
    return stub["ret"] is None or any(a is None or (o and a not in LINEAR) for a, o in stub["params"])


def stub_model_sig(stub):
    """what check_signature returns for this stub, described for the model ('none' = it raises)"""
    if _sig_error(stub):
        return "none"
    ins = []
    for ann, owned in stub["params"]:
        fl = "owned" if owned else ("inout" if ann in LINEAR else "noFlags")
        ins.append([ANN[ann], fl])
    return ["sig", ["ins", *ins], ret_leaves(stub["ret"])]


_REG = types.ModuleType("_c26_circs")
sys.modules["_c26_circs"] = _REG


def real_stub(c, stub, name=NAME, defs=None):
    """-> (reply, structure or None)"""
    import feed
    from guppylang_internals.engine import ENGINE
    from guppylang_internals.error import GuppyError

    pre = (
        feed.PRELUDE
        + "from guppylang.std.quantum import qubit\nfrom guppylang.std.angles import angle\n"
        + "import sys\ncirc = sys.modules['_c26_circs'].CURRENT\n"
    )
    _REG.CURRENT = c
    m = None
    try:
        m = feed.load(stub_source(stub, name), prelude=pre)
        d = getattr(m, name)
        if defs is not None:
            defs.append(d.id)
        try:
            ENGINE.check(d.id)
        except GuppyError as e:
            cls = type(e.error).__name__
            if cls == "BodyNotEmptyError":
                return "bodyNotEmpty", None
            if cls == "PytketSignatureMismatch":
                hint = [ch for ch in e.error.children if hasattr(ch, "circ_sig")][0]
                return sx(["mismatch", sig_sx(hint.circ_sig)]), None
            return "signatureError", {"cls": cls}
        sig = sig_sx(ENGINE.checked[d.id].ty)
        st = {"sig": sig}
        try:
            g = feed.lower(d)
            args, outs = read_wiring(g, name)
            st.update(args=args[1:], outs=outs[1:], wiring=sx(["ok", sig, args, outs]), body=inner_body(g, name))
        except Unrecognised as e:
            st["wiring"] = f"(unrecognised {_atom(e)})"
        except BaseException as e:  # noqa: BLE001
            st["wiring"] = _err_reply(e)
        return sx(["accepted", sig]), st
    except BaseException as e:  # noqa: BLE001
        return f"(crash {type(e).__name__})", None
    finally:
        _REG.CURRENT = None
        if m is not None:
            feed.unload(m)


def oracle_stub(case):
    """accepted iff the declared signature is exactly the circuit's shape (literal reading)"""
    stub = case["stub"]
    nq = len({(n, str(i)) for n, i in case["qubits"]})
    nb = len({(n, str(i)) for n, i in case["bits"]})
    ns = len(case_symbols(case))
    if BODIES[stub["body"]][1] not in ([], ["e"]):
        return "bodyNotEmpty"
    if _sig_error(stub):
        return "signatureError"
    want_params = [("qubit", False)] * nq + [("angle", False)] * ns
    want_ret = "None" if nb == 0 else "bool" if nb == 1 else "tuple[" + ", ".join(["bool"] * nb) + "]"
    ok = [tuple(p) for p in stub["params"]] == want_params and stub["ret"].replace(" ", "") == want_ret.replace(" ", "")
    return "accepted" if ok else "mismatch"


# ------------------------------------------------------------------ generators
def gen_circuit(rng, small=False, allow_stray=True, odd_syms=False, degenerate=False):
    nqr = rng.choice([1, 1, 2, 2, 3, 4]) if not small else rng.choice([1, 1, 2])
    nbr = rng.choice([0, 1, 1, 2, 3]) if not small else rng.choice([0, 1, 2])
    sizes = [1, 1, 2, 3]
    if degenerate:
        # boundary shapes: no qubits at all, no bits, only 1-element registers, many registers
        k = rng.randrange(6)
        if k == 0:
            nqr, nbr = 0, rng.choice([1, 2, 3])
        elif k == 1:
            nqr, nbr = 0, rng.choice([0, 1])
        elif k == 2:
            nqr, nbr, sizes = rng.choice([3, 5, 6]), rng.choice([0, 3, 5]), [1]
        elif k == 3:
            nqr, nbr = rng.choice([1, 2]), 0
        elif k == 4:
            nqr, nbr, sizes = 1, 1, [1]
        else:
            nqr, nbr = rng.choice([0, 1]), rng.choice([1, 4])
        allow_stray = allow_stray and nqr > 0 and rng.random() < 0.3
    qn = rng.sample(QNAMES, nqr)
    bn = rng.sample(BNAMES, nbr)
    qubits = [[n, i] for n in qn for i in range(rng.choice(sizes))]
    bits = [[n, i] for n in bn for i in range(rng.choice(sizes))]
    if not qubits:
        # a purely classical circuit: no gates, no symbols; optionally some SetBits
        rng.shuffle(bits)
        ops = []
        for _ in range(rng.randrange(0, 3) if bits else 0):
            idx = rng.sample(range(len(bits)), rng.randrange(1, len(bits) + 1))
            ops.append(["SetBits", [rng.randrange(2) for _ in idx], idx])
        return {"qubits": [], "bits": bits, "ops": ops}
    if allow_stray and rng.random() < 0.15:
        k = rng.random()
        if k < 0.4:
            n = rng.choice(qn)
            mx = max(i for m, i in qubits if m == n)
            qubits.append([n, mx + rng.choice([2, 3])])  # gap in a register
        elif k < 0.6:
            qubits.append([rng.choice([x for x in QNAMES if x not in qn]), rng.choice([1, 3])])  # lone unit
        elif k < 0.8 and bits:
            n = rng.choice(bn)
            mx = max(i for m, i in bits if m == n)
            bits.append([n, mx + 2])
        else:
            bits.append([rng.choice([x for x in BNAMES if x not in bn]), rng.choice([1, 2])])
    rng.shuffle(qubits)
    rng.shuffle(bits)
    ns = rng.choice([0, 0, 1, 2, 2, 3, 4]) if not small else rng.choice([0, 1, 2])
    if degenerate:
        ns = rng.choice([0, 0, 1])
    syms = rng.sample(SYMS, ns)
    if odd_syms:
        syms = syms[:1] + [rng.choice(ODD_SYMS)]
    ops = []
    nq = len(qubits)
    for s in syms:  # every symbol is used at least once, in sample (non-sorted) order
        ops.append([rng.choice(["Rz", "Rx"]), [[rng.choice([1, 2]), s]], rng.randrange(nq)])
    for _ in range(rng.randrange(0, 5)):
        k = rng.random()
        if k < 0.3:
            ops.append(["H", rng.randrange(nq)])
        elif k < 0.55 and nq >= 2:
            a, b = rng.sample(range(nq), 2)
            ops.append(["CX", a, b])
        elif k < 0.8 and bits:
            ops.append(["Measure", rng.randrange(nq), rng.randrange(len(bits))])
        elif syms:
            terms = [[rng.choice([1, 2]), s] for s in rng.sample(syms, rng.choice([1, min(2, len(syms))]))]
            ops.append([rng.choice(["Rz", "Rx"]), terms, rng.randrange(nq)])
    head = ops[: len(syms)]
    rest = ops[len(syms):]
    rng.shuffle(rest)
    return {"qubits": qubits, "bits": bits, "ops": head + rest}


def gen_stub(rng, case):
    nq = len(case["qubits"])
    nb = len(case["bits"])
    ns = len(case_symbols(case))
    params = [["qubit", False] for _ in range(nq)] + [["angle", False] for _ in range(ns)]
    ret = "None" if nb == 0 else "bool" if nb == 1 else "tuple[" + ", ".join(["bool"] * nb) + "]"
    body = rng.choice(["ellipsis", "ellipsis", "ellipsis", "doc", "doc+ellipsis"])
    r = rng.random()
    if r < 0.35:
        pass  # the exact signature
    else:
        for _ in range(rng.choice([1, 1, 1, 2])):
            k = rng.choice([0, 1, 2, 3, 3, 3, 4, 5, 6, 7, 8, 9, 10, 11])
            if k == 0 and params:
                params.pop(rng.randrange(len(params)))
            elif k == 1:
                params.insert(rng.randrange(len(params) + 1), [rng.choice(["qubit", "angle", "int", "bool", "float"]), False])
            elif k == 2 and len(params) >= 2:
                i = rng.randrange(len(params) - 1)
                params[i], params[i + 1] = params[i + 1], params[i]
            elif k == 3 and any(a == "qubit" for a, _o in params):
                rng.choice([p for p in params if p[0] == "qubit"])[1] = True
            elif k == 4 and params:
                params[rng.randrange(len(params))][0] = rng.choice(["float", "int", "array[qubit, 1]", "array[qubit, 2]", "array[angle, 2]", "bool"])
            elif k == 5:
                ret = rng.choice(["None", "bool", "tuple[bool]", "tuple[bool, bool]", "tuple[bool, bool, bool]", "int", "array[bool, 2]", "tuple[bool, int]"])
            elif k == 6:
                ret = None
            elif k == 7 and params:
                params[rng.randrange(len(params))][0] = None
            elif k == 8:
                body = rng.choice(["pass", "return", "two", "doc+pass"])
            elif k == 9 and nq >= 2 and ns == 0:
                params = [["array[qubit, 2]", False]] + params[2:]
            elif k == 10:
                ret = "tuple[" + ", ".join(["bool"] * (nb + 1)) + "]" if nb + 1 > 1 else "bool"
            elif k == 11 and nb >= 1:
                ret = "None" if nb == 1 else "bool" if nb == 2 else "tuple[" + ", ".join(["bool"] * (nb - 1)) + "]"
    return {"params": params, "ret": ret, "body": body}


def boundary_cases():
    """explicit degenerate shapes, every one in both modes (always run, both tiers)"""
    shapes = [
        ([], [["c", 0]], []),                                              # no qubits, one bit
        ([], [["lo", 0], ["hi", 1], ["hi", 0]], []),                       # no qubits, two bit registers
        ([], [["lo", 0], ["hi", 1], ["hi", 0]], [["SetBits", [1, 0], [0, 2]]]),
        ([], [["m", 0], ["c", 0], ["k", 0], ["C", 0]], []),                # no qubits, four 1-bit registers
        ([], [], []),                                                      # nothing at all
        ([["q", 0]], [], []),                                              # one qubit, no bits, no parameters
        ([["z", 0], ["a", 0], ["q", 0], ["Q", 0], ["b", 0]], [], [["CX", 0, 1]]),  # many 1-qubit registers
        ([["z", 0], ["a", 0], ["q", 0]], [["m", 0], ["c", 0], ["C", 0]], [["Measure", 0, 0], ["Measure", 2, 1]]),
        ([["q", 0]], [["c", 0]], [["Rz", [[1, "t"]], 0], ["Measure", 0, 0]]),  # all singletons with a parameter
        ([["q", 1], ["q", 0], ["q", 2]], [], [["Rx", [[1, "b"]], 1], ["Rz", [[1, "a"]], 0]]),  # no bits, two parameters
        ([], [["c", 1]], []),                                              # no qubits, a bit outside a complete register
    ]
    out = []
    for qs, bs, ops in shapes:
        for ua in (False, True):
            out.append({"kind": "load", "ua": ua, "qubits": qs, "bits": bs, "ops": ops})
    return out


def boundary_stubs():
    """explicit single-deviation stubs for one asymmetric circuit (always run, both tiers)"""
    base = {"kind": "stub", "ua": False, "qubits": [["z", 0], ["a", 0]], "bits": [["m", 0], ["c", 0]],
            "ops": [["Rz", [[1, "t"]], 0], ["Rx", [[1, "a"]], 1], ["Measure", 0, 0]]}
    q, qo, an = ["qubit", False], ["qubit", True], ["angle", False]
    ret = "tuple[bool, bool]"
    variants = [
        ([q, q, an, an], ret, "ellipsis"),            # exact
        ([qo, q, an, an], ret, "ellipsis"),           # first qubit owned
        ([q, qo, an, an], ret, "ellipsis"),           # second qubit owned
        ([qo, qo, an, an], ret, "ellipsis"),          # all qubits owned
        ([q, an, q, an], ret, "ellipsis"),            # order
        ([an, an, q, q], ret, "ellipsis"),
        ([q, q, an], ret, "ellipsis"),                # one angle short
        ([q, an, an], ret, "ellipsis"),               # one qubit short
        ([q, q, q, an, an], ret, "ellipsis"),
        ([q, q, ["float", False], an], ret, "ellipsis"),
        ([q, q, an, an], "bool", "ellipsis"),
        ([q, q, an, an], "tuple[bool, bool, bool]", "ellipsis"),
        ([q, q, an, an], "None", "ellipsis"),
        ([q, q, an, an], "array[bool, 2]", "ellipsis"),
        ([["array[qubit, 2]", False], an, an], ret, "ellipsis"),
        ([q, q, ["array[angle, 2]", False]], ret, "ellipsis"),
        ([q, q, an, an], ret, "pass"),
        ([q, q, an, an], None, "ellipsis"),
    ]
    return [{**base, "stub": {"params": [list(p) for p in ps], "ret": r, "body": b}} for ps, r, b in variants]


def gen_extension(rng, desc):
    """additions to a circuit description: always at least one new gate, often new units/symbols"""
    qubits, bits = list(desc["qubits"]), list(desc["bits"])
    add_q, add_b, ops = [], [], []
    kinds = rng.sample(["gates", "measure", "qubit", "qreg", "symbol", "bitreg"], rng.choice([1, 1, 2, 3]))
    for k in kinds:
        if k == "qubit" and qubits:
            n = rng.choice(sorted({m for m, _ in qubits}))
            add_q.append([n, max(i for m, i in qubits + add_q if m == n) + 1])
        elif k == "qreg":
            free = [x for x in QNAMES if x not in {m for m, _ in qubits + add_q}]
            if free:
                add_q.append([rng.choice(free), 0])
        elif k in ("measure", "bitreg"):
            names = sorted({m for m, _ in bits + add_b})
            if k == "measure" and names and rng.random() < 0.5:
                n = rng.choice(names)
                add_b.append([n, max(i for m, i in bits + add_b if m == n) + 1])
            else:
                free = [x for x in BNAMES if x not in names]
                if free:
                    add_b.append([rng.choice(free), 0])
    nq, nb = len(qubits) + len(add_q), len(bits) + len(add_b)
    if nq == 0:
        add_q.append(["q", 0])
        nq = 1
    if "symbol" in kinds:
        used = set(case_symbols(desc))
        free = [x for x in SYMS if x not in used]
        ops.append([rng.choice(["Rz", "Rx"]), [[1, rng.choice(free)]], rng.randrange(nq)])
    if ("measure" in kinds or "bitreg" in kinds) and nb:
        ops.append(["Measure", rng.randrange(nq), nb - 1])
    for q in range(len(qubits), nq):
        ops.append(["H", q])  # touch every new qubit
    for _ in range(rng.choice([1, 1, 2, 3]) if not ops or "gates" in kinds else 0):
        if nq >= 2 and rng.random() < 0.4:
            a, b = rng.sample(range(nq), 2)
            ops.append(["CX", a, b])
        else:
            ops.append(["H", rng.randrange(nq)])
    return add_q, add_b, ops


def gen_history(rng):
    def fresh(min_q=True):
        d = gen_circuit(rng, small=True, allow_stray=False)
        return [d["qubits"], d["bits"], d["ops"]]

    def ld(o, name):
        return ["stub", o, name] if rng.random() < 0.2 else ["load", o, name, rng.random() < 0.5]

    pat = rng.choice(["staged", "staged", "staged", "gc", "gc", "twice", "interleaved"])
    ev = []
    if pat == "staged":
        a = fresh()
        desc = {"qubits": list(a[0]), "bits": list(a[1]), "ops": list(a[2])}
        ev += [["new", "A", *a], ld("A", "f0")]
        for k in range(rng.choice([1, 1, 2])):
            ext = gen_extension(rng, desc)
            desc["qubits"] += ext[0]
            desc["bits"] += ext[1]
            desc["ops"] += ext[2]
            ev += [["extend", "A", *ext], ld("A", rng.choice(["f0", f"f{k + 1}"]))]
    elif pat == "gc":
        ev += [["new", "A", *fresh()], ld("A", "f0"), ["del", "A"], ["new", "B", *fresh()], ld("B", rng.choice(["f0", "g0"]))]
        if rng.random() < 0.5:
            ev += [["del", "B"], ["new", "C", *fresh()], ld("C", "h0")]
    elif pat == "twice":
        ev += [["new", "A", *fresh()], ld("A", "f0"), ld("A", "f1")]
        if rng.random() < 0.5:
            ev.append(ld("A", "f0"))
    else:
        a, b = fresh(), fresh()
        da = {"qubits": list(a[0]), "bits": list(a[1]), "ops": list(a[2])}
        ext = gen_extension(rng, da)
        ev += [["new", "A", *a], ["new", "B", *b], ld("A", "f0"), ld("B", "g0"), ["extend", "A", *ext],
               ld("B", "g1"), ld("A", "f1")]
    return {"kind": "history", "pattern": pat, "events": ev}


def boundary_histories():
    """explicit sessions (always run): staged loading of one object, identity reuse, double loading"""
    q2, b2 = [["q", 0], ["q", 1]], [["c", 0], ["c", 1]]
    H = []
    for ua in (False, True):
        H.append({"kind": "history", "pattern": "staged", "events": [
            ["new", "A", q2, b2, [["H", 0], ["CX", 0, 1]]], ["load", "A", "prep", ua],
            ["extend", "A", [], [], [["H", 1], ["Measure", 0, 0], ["Measure", 1, 1]]], ["load", "A", "full", ua]]})
        H.append({"kind": "history", "pattern": "staged", "events": [
            ["new", "A", [["z", 0]], [], [["H", 0]]], ["load", "A", "f", ua],
            ["extend", "A", [["a", 0], ["z", 1]], [["m", 0]], [["Rz", [[1, "t"]], 1], ["Rx", [[1, "b"]], 2], ["Measure", 1, 0]]],
            ["load", "A", "f", not ua], ["load", "A", "g", ua]]})
    H.append({"kind": "history", "pattern": "staged", "events": [
        ["new", "A", [["q", 0]], [], [["H", 0]]], ["stub", "A", "s1"],
        ["extend", "A", [], [], [["H", 0], ["H", 0]]], ["stub", "A", "s2"],
        ["extend", "A", [], [["c", 0]], [["Measure", 0, 0]]], ["stub", "A", "s3"]]})
    H.append({"kind": "history", "pattern": "gc", "events": [
        ["new", "A", [["q", 0]], [], [["H", 0]]], ["load", "A", "f", False], ["del", "A"],
        ["new", "B", [["q", 0]], [], [["H", 0], ["H", 0], ["H", 0]]], ["load", "B", "f", False], ["del", "B"],
        ["new", "C", [["q", 0], ["q", 1]], [["c", 0]], [["CX", 0, 1], ["Measure", 1, 0]]], ["load", "C", "g", True]]})
    H.append({"kind": "history", "pattern": "twice", "events": [
        ["new", "A", q2, [["c", 0]], [["CX", 1, 0], ["Measure", 0, 0]]], ["load", "A", "f0", False], ["load", "A", "f1", True],
        ["load", "A", "f0", True], ["stub", "A", "f2"]]})
    return H


def _canon(case):
    return json.dumps(case, sort_keys=True, separators=(",", ":"))


def _cases(ctx):
    cases = []
    corpus = os.path.join(vlib.VERIF, "corpus", "c26")
    if os.path.isdir(corpus):
        for fn in sorted(os.listdir(corpus)):
            if fn.endswith(".json"):
                for c in json.load(open(os.path.join(corpus, fn))):
                    cases.append(c)
    if ctx.replay_in and "case" in ctx.replay_in.get("replay", {}):
        cases.append(ctx.replay_in["replay"]["case"])
    cases.extend(boundary_cases())
    cases.extend(boundary_stubs())
    cases.extend(boundary_histories())
    rng = ctx.rng
    for _ in range(ctx.n(20, 500)):
        cases.append(gen_history(rng))
    for _ in range(ctx.n(45, 1000)):
        base = gen_circuit(rng)
        for ua in (False, True):
            cases.append({"kind": "load", "ua": ua, **base})
    for _ in range(ctx.n(12, 300)):
        base = gen_circuit(rng, degenerate=True)
        for ua in (False, True):
            cases.append({"kind": "load", "ua": ua, **base})
    for _ in range(ctx.n(5, 60)):
        base = gen_circuit(rng, odd_syms=True, allow_stray=False)
        cases.append({"kind": "load", "ua": rng.random() < 0.5, **base})
    for _ in range(ctx.n(60, 1200)):
        base = gen_circuit(rng, small=True, allow_stray=rng.random() < 0.3)
        cases.append({"kind": "stub", "ua": False, **base, "stub": gen_stub(rng, base)})
    for _ in range(ctx.n(8, 150)):
        base = gen_circuit(rng, small=True, allow_stray=False, degenerate=True)
        cases.append({"kind": "stub", "ua": False, **base, "stub": gen_stub(rng, base)})
    return cases


# ------------------------------------------------------------------ evaluation of one case
def evaluate(case):
    """-> dict(real, oracle, model_line, expect_model, info, extra checks)"""
    c = build_circuit(case)
    info = convert_info(c)
    res = {"info": info, "view_line": sx(["view", circ_sx(c)])}
    res["n_match"] = c.n_qubits == len(c.qubits) and c.n_bits == len(c.bits)
    md = "none" if info.get("params") is None else ["m", *info["params"]]
    outs = ["o", *info.get("outs", [])]
    if case["kind"] == "load":
        reply, st = real_load(c, case["ua"])
        res["real"] = reply
        res["model_line"] = sx(["load", 1 if case["ua"] else 0, circ_sx(c), md, outs])
        res["oracle"] = _with_body(oracle_load(case, info, reply, st), st, case)
    else:
        stub = case["stub"]
        reply, st = real_stub(c, stub)
        res["real"] = reply
        res["model_line"] = sx(["stub", circ_sx(c), ["body", *BODIES[stub["body"]][1]], stub_model_sig(stub)])
        want = oracle_stub(case)
        got = reply.strip("()").split(" ")[0]
        res["oracle"] = "ok" if got == want else f"stub outcome {got}, the property's reading says {want}"
        if st is not None and "wiring" in st:
            # an accepted stub is lowered as well: compare with the model of the non-array load
            res["real2"] = st["wiring"]
            res["model_line2"] = sx(["load", 0, circ_sx(c), md, outs])
            if res["oracle"] == "ok" and "args" in st:
                res["oracle"] = _with_body(oracle_load({**case, "ua": False}, info, st["wiring"], st), st, case)
            elif res["oracle"] == "ok" and not st["wiring"].startswith("(err compile"):
                res["oracle"] = "accepted stub does not lower: " + st["wiring"]
    return res


def _with_body(verdict, st, desc):
    """besides the wiring, the inserted circuit function must consist of the circuit's current gates"""
    if verdict == "ok" and st is not None and "body" in st and st["body"] != oracle_body(desc):
        return f"the inserted circuit function has gates {st['body']}, the circuit has {oracle_body(desc)}"
    return verdict


def _loaded_sx(reply, st):
    if st is None or "args" not in st:
        return (st or {}).get("wiring", reply)
    return sx(["ok", st["sig"], ["args", *st["args"]], ["outs", *st["outs"]], ["body", *st["body"]]])


ID_REUSE = {"attempts": 0, "hits": 0}


def exact_stub(desc):
    nq, nb, ns = len(desc["qubits"]), len(desc["bits"]), len(case_symbols(desc))
    ret = "None" if nb == 0 else "bool" if nb == 1 else "tuple[" + ", ".join(["bool"] * nb) + "]"
    return {"params": [["qubit", False]] * nq + [["angle", False]] * ns, "ret": ret, "body": "ellipsis"}


def evaluate_history(case):
    """One session: circuit objects are created, loaded+lowered, extended, loaded again, deleted.
    Every load is compared with the circuit object's description AT THAT MOMENT."""
    import gc

    from guppylang_internals.engine import DEF_STORE, ENGINE
    from pytket import Circuit

    objs, descs, defs, freed = {}, {}, {}, []
    real, model, verdicts = [], [], []
    for ev in case["events"]:
        if ev[0] == "new":
            _, o, qubits, bits, ops_ = ev
            c = None
            if freed:
                # try to get an object with the identity of a deleted circuit (full gc only if needed)
                ID_REUSE["attempts"] += 1
                for attempt in range(2):
                    keep = []
                    for _ in range(32):
                        cand = Circuit()
                        if id(cand) in freed:
                            c = cand
                            ID_REUSE["hits"] += 1
                            break
                        keep.append(cand)
                    del keep
                    if c is not None:
                        break
                    gc.collect()
            descs[o] = {"qubits": list(qubits), "bits": list(bits), "ops": list(ops_)}
            objs[o] = build_circuit(descs[o], c)
            defs[o] = []
        elif ev[0] == "extend":
            _, o, qubits, bits, ops_ = ev
            d = descs[o]
            fq, fb, fo = len(d["qubits"]), len(d["bits"]), len(d["ops"])
            d["qubits"] += qubits
            d["bits"] += bits
            d["ops"] += ops_
            apply_desc(objs[o], d, fq, fb, fo)
        elif ev[0] == "del":
            o = ev[1]
            for did in defs.pop(o):
                DEF_STORE.raw_defs.pop(did, None)
                DEF_STORE.frames.pop(did, None)
            ENGINE.reset()
            freed.append(id(objs[o]))
            del objs[o], descs[o]
            gc.collect(0)
        elif ev[0] in ("load", "stub"):
            o, name = ev[1], ev[2]
            c, d = objs[o], descs[o]
            ua = bool(ev[3]) if ev[0] == "load" else False
            info = convert_info(c)  # a fresh conversion of the circuit as it is now
            if ev[0] == "load":
                reply, st = real_load(c, ua, name, defs[o])
                verdict = oracle_load({"ua": ua, **d}, info, reply, st)
            else:
                reply, st = real_stub(c, exact_stub(d), name, defs[o])
                if not reply.startswith("(accepted"):
                    verdict = "the exact stub is not accepted: " + reply
                elif "args" in (st or {}):
                    verdict = oracle_load({"ua": False, **d}, info, st["wiring"], st)
                else:
                    verdict = "n/a" if (st or {}).get("wiring", "").startswith("(err compile") else "accepted stub does not lower"
            verdicts.append(_with_body(verdict, st, d))
            real.append(_loaded_sx(reply, st))
            md = "none" if info.get("params") is None else ["m", *info["params"]]
            model.append(sx(["load", id(c), 1 if ua else 0, circ_sx(c), md, ["o", *info.get("outs", [])],
                             ["body", *info.get("body", [])]]))
        else:
            raise AssertionError(ev)
        if ev[0] not in ("load", "stub"):
            model.append("other")
    for ids in defs.values():  # do not let the session's definitions pile up in the global store
        for did in ids:
            DEF_STORE.raw_defs.pop(did, None)
            DEF_STORE.frames.pop(did, None)
    bad = [f"load #{k}: {v}" for k, v in enumerate(verdicts) if v not in ("ok", "n/a")]
    return {
        "real": "(results " + " ".join(real) + ")" if real else "(results)",
        "model_line": "(session " + " ".join(model) + ")",
        "view_line": "(noop)",
        "oracle": bad[0] if bad else ("n/a" if verdicts and all(v == "n/a" for v in verdicts) else "ok"),
        "info": {},
        "n_match": True,
    }


def _nontrivial(case):
    if case["kind"] == "history":
        return sum(1 for e in case["events"] if e[0] in ("load", "stub")) >= 2
    if case["kind"] == "stub":
        return True
    return len({n for n, _ in case["qubits"]}) >= 2 or len(case_symbols(case)) >= 2 or len(case["bits"]) >= 1


def run_cases(ctx, cases, count=True):
    results = []
    lines = []
    for case in cases:
        try:
            r = evaluate_history(case) if case["kind"] == "history" else evaluate(case)
        except BaseException as e:  # noqa: BLE001
            r = {"real": f"(harness-error {type(e).__name__} {_atom(e)})", "oracle": "n/a", "model_line": "(noop)",
                 "view_line": "(noop)", "info": {}, "n_match": True}
        results.append(r)
        lines.append(r["model_line"])
        lines.append(r["view_line"])
        lines.append(r.get("model_line2", "(noop)"))
    replies = ctx.driver(DRIVER, lines)
    for i, (case, r) in enumerate(zip(cases, results)):
        m, view, m2 = replies[3 * i], replies[3 * i + 1], replies[3 * i + 2]
        key = _canon(case)
        real = r["real"]
        kind = case["kind"] + (":arrays" if case.get("ua") else "") + ":" + real.strip("()").split(" ")[0]
        if real.startswith("(err"):
            kind = case["kind"] + (":arrays" if case.get("ua") else "") + ":" + real.strip("()")
        if case["kind"] == "history":
            kind = "history:" + case.get("pattern", "?")
        if count:
            ctx.count(case, nontrivial=_nontrivial(case), kind=kind)
        if r["oracle"] not in ("ok", "n/a"):
            ctx.violation(
                "input:" + key,
                f"loaded pytket circuit does not act like the circuit: {r['oracle']}",
                {"case": case, "real": real, "oracle": r["oracle"], "model": m, "convert_info": r["info"]},
            )
        if r["oracle"] == "n/a":
            ctx.bump("oracle-n/a")
        if real.startswith("(harness-error"):
            ctx.broke(f"harness could not evaluate case {key}: {real}")
            continue
        if real != m:
            ctx.broke(f"correspondence Model/Pytket.lean vs pytket_circuits.py on {key}: real={real} model={m}")
        if "real2" in r and r["real2"] != m2:
            ctx.broke(f"correspondence (lowered stub) on {key}: real={r['real2']} model={m2}")
        if r["view_line"] != "(noop)" and view != "true":
            ctx.broke(f"assumption about pytket's unit/register order (Circ.viewOk) fails on {key}: {view}")
        if not r["n_match"]:
            ctx.broke(f"assumption n_qubits == len(qubits) fails on {key}")
        info = r["info"]
        if "failed" not in info and info.get("qubits") is not None:
            # the interface assumption about tket's conversion, on the real converted function
            nq, nb = len(info["qubits"]), len(info["bits"] or [])
            if info["outs"] != ["q"] * nq + ["b"] * nb or info["n_in"] != nq + nb + len(info["params"] or []):
                ctx.broke(f"assumption about the converted function's ports fails on {key}: {info}")
    return results


def tie(ctx):
    _install_shims()
    run_cases(ctx, _cases(ctx))
    ctx.extra["id_reuse"] = dict(ID_REUSE, note="history cases: a circuit object allocated after a deleted one; hits = same id() obtained")


def search(ctx, why):
    """something broke without a failing input: look for one among more (asymmetric) circuits, oracle only"""
    _install_shims()
    rng = ctx.rng
    cases = []
    for _ in range(ctx.n(150, 600)):
        base = gen_circuit(rng)
        for ua in (False, True):
            cases.append({"kind": "load", "ua": ua, **base})
    for _ in range(ctx.n(60, 300)):
        base = gen_circuit(rng, degenerate=True)
        for ua in (False, True):
            cases.append({"kind": "load", "ua": ua, **base})
    for _ in range(ctx.n(100, 400)):
        base = gen_circuit(rng, small=True, allow_stray=False)
        cases.append({"kind": "stub", "ua": False, **base, "stub": gen_stub(rng, base)})
    for _ in range(ctx.n(60, 300)):
        cases.append(gen_history(rng))
    run_cases(ctx, cases, count=False)


if __name__ == "__main__":
    vlib.main(sys.modules[__name__])
