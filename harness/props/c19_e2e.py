"""End-to-end execution oracle shared by C19 and C07: a generated Guppy program is lowered by /repo's REAL compiler, the
resulting Hugr is run by the reference interpreter (harness/hugr_interp.py, both schedules) on concrete inputs, and the same
source is run under CPython with a shim (bounds-checked lists for arrays, dataclasses for structs; negative indices panic).
Outcomes must agree: same value, or both panic."""
from __future__ import annotations

import os
import sys

sys.path.insert(0, os.path.dirname(os.path.dirname(os.path.abspath(__file__))))

PRELUDE = ("from guppylang import guppy\nfrom guppylang.std.builtins import *\n"
           "from guppylang.std.mem import with_owned, mem_swap\n")


class Compiled:
    def __init__(self, src, fname="main"):
        import feed
        import hugr_interp as hi
        self.src, self.fname = src, fname
        self.m = feed.load(src, prelude=PRELUDE)
        try:
            self.g = feed.lower(getattr(self.m, fname))
            self.name, self.shape = hi._guppy_sig(getattr(self.m, fname))
        finally:
            feed.unload(self.m)

    def run(self, args, order="default"):
        """('value', v) | ('panic', msg, origin) | ('skip', why) | ('interp-error', msg)"""
        import hugr_interp as hi
        try:
            r = hi.run(self.g.hugr, self.name, list(args), order=order, ret_shape=self.shape)
        except hi.Unsupported as e:
            return ("skip", "unsupported:" + str(e))
        except hi.OutOfFuel:
            return ("skip", "fuel")
        except hi.InterpError as e:
            return ("interp-error", str(e)[:200])
        except Exception as e:  # noqa: BLE001  (e.g. the computed value does not have the shape of the declared result type)
            return ("interp-error", f"{type(e).__name__}: {e}"[:200])
        if r.status == "value":
            return ("value", _norm(r.value))
        if r.status == "panic":
            return ("panic", r.msg, r.origin)
        return ("exit", r.msg)


def _norm(v):
    import dataclasses
    if dataclasses.is_dataclass(v) and not isinstance(v, type):
        return tuple(_norm(getattr(v, f.name)) for f in dataclasses.fields(v))
    if isinstance(v, list | tuple):
        return tuple(_norm(x) for x in v)
    return v


def _assign_in_place(dst, new):
    """`*dst = new` for the CPython mirror of a borrowed place: lists and dataclass objects are updated in place"""
    import dataclasses
    if isinstance(dst, list):
        vals = list(new)
        list.clear(dst)
        list.extend(dst, vals)
    elif dataclasses.is_dataclass(dst):
        for f in dataclasses.fields(dst):
            setattr(dst, f.name, getattr(new, f.name))
    else:
        raise TypeError("cannot mirror a borrowed value of type " + type(dst).__name__)


def _with_owned(val, f):
    """std.mem.with_owned: `(out, *val) = f(*val)`"""
    out, new = f(val)
    if new is not val:
        _assign_in_place(val, new)
    return out


def _mem_swap(x, y):
    import copy
    tx, ty = copy.copy(x), copy.copy(y)
    _assign_in_place(x, ty)
    _assign_in_place(y, tx)


def py_run(src, fname, args):
    """the same source under CPython: ('value', v) | ('panic', msg)"""
    import hugr_interp_validate as hv
    env = hv._py_env([])
    env["with_owned"], env["mem_swap"] = _with_owned, _mem_swap
    code = compile("from __future__ import annotations\n" + src, "<e2e>", "exec")
    exec(code, env)  # noqa: S102
    a2 = [hv._GArr(a) if isinstance(a, list) else a for a in args]
    try:
        v = env[fname](*a2)
    except hv._PyPanic as e:
        return ("panic", str(e))
    except ZeroDivisionError:
        return ("panic", "<op>")
    return ("value", _norm(hv._wrap_val(hv._norm_py(v))))


def agree(g, p):
    """Guppy-side outcome vs CPython outcome"""
    if g[0] == "value" and p[0] == "value":
        return g[1] == p[1]
    if g[0] == "panic" and p[0] == "panic":
        # messages of panics raised inside an op are the interpreter's own: compare panic-ness only
        return g[2] == "op" or p[1] == "<op>" or g[1] == p[1]
    return False


def check_program(ctx, pid_kind, src, inputs, key_prefix, nontrivial=True, fname="main"):
    """lower once, run every input under both schedules and under CPython; report violations; returns #skipped"""
    try:
        c = Compiled(src, fname)
    except Exception as e:  # noqa: BLE001
        ctx.violation(f"{key_prefix} :: compile", f"generated program is not compiled: {type(e).__name__}: {str(e)[:300]}",
                      {"case": {"kind": "e2e", "what": pid_kind}, "source": src, "error": repr(e)[:500]})
        ctx.count({"e2e": pid_kind, "src": src}, nontrivial=nontrivial, kind=f"e2e:{pid_kind}:compile-error")
        return 0
    skipped = 0
    for args in inputs:
        try:
            p = py_run(src, fname, args)
        except Exception as e:  # noqa: BLE001  (a generator bug, not a finding)
            ctx.bump("e2e:cpython-error")
            ctx.extra.setdefault("e2e_cpython_errors", []).append(f"{type(e).__name__}: {e}"[:200])
            continue
        g1 = c.run(args, "default")
        g2 = c.run(args, "adversarial")
        kind = f"e2e:{pid_kind}:" + (g1[0] if g1[0] != "skip" else "skip")
        ctx.count({"e2e": pid_kind, "src": src, "args": list(args)}, nontrivial=nontrivial and g1[0] != "skip", kind=kind)
        if g1[0] == "skip" or g2[0] == "skip":
            skipped += 1
            ctx.bump("e2e:skipped:" + (g1[1] if g1[0] == "skip" else g2[1]))
            continue
        key = f"{key_prefix} :: args={list(args)}"
        for order, g in (("default", g1), ("adversarial", g2)):
            if not agree(g, p):
                ctx.violation(key, f"program run on the lowered Hugr ({order} schedule) gives {g}; CPython gives {p}; "
                              f"args {list(args)}; source:\n{src}",
                              {"case": {"kind": "e2e", "what": pid_kind, "args": list(args)}, "source": src, "order": order,
                               "real": repr(g), "oracle": repr(p)})
                break
        else:
            same = (g1[0] == g2[0]) and (g1[0] != "value" or g1[1] == g2[1])
            if not same:
                ctx.violation("order:" + key, f"the two legal schedules disagree: default {g1}, adversarial {g2}; source:\n{src}",
                              {"case": {"kind": "e2e", "what": pid_kind, "args": list(args)}, "source": src,
                               "default": repr(g1), "adversarial": repr(g2)})
    return skipped


# ------------------------------------------------------------------ C19 program generators
def _lit(vals):
    return "array(" + ", ".join(map(str, vals)) + ")"


def gen_c19_programs(rng, n_each):
    """yield (kind, source, inputs, nontrivial)"""
    def mk_inputs(ni, nj, k_in=4, k_out=3):
        """(i, j) inputs: mostly in range for dimensions ni / nj, plus boundary and negative ones"""
        res = [(0, 0)]
        for _q in range(k_in):
            res.append((rng.randrange(0, max(1, ni)), rng.randrange(0, max(1, nj))))
        outs = [(-1, 0), (0, -1), (ni, 0), (0, nj), (ni + 1, nj + 1), (-ni, 0), (-ni - 1, -1), (1 << 40, 0), (0, -(1 << 62))]
        res += rng.sample(outs, k_out)
        return res

    def idx_expr(n):
        k = rng.random()
        if k < 0.35:
            return "i"
        if k < 0.6:
            return "j"
        if k < 0.9:
            return str(rng.randrange(0, n))
        return rng.choice(["i + 1", "j - 1", "i + j"])

    for _ in range(n_each):  # reads / writes / augmented assignments on a classical array
        n = rng.randrange(1, 6)
        vals = [rng.randrange(1, 50) for _ in range(n)]
        body = [f"    xs = {_lit(vals)}", "    acc = 0"]
        for _k in range(rng.randrange(1, 6)):
            r = rng.random()
            if r < 0.35:
                body.append(f"    xs[{idx_expr(n)}] = xs[{idx_expr(n)}] + {rng.randrange(1, 9)}")
            elif r < 0.55:
                body.append(f"    xs[{idx_expr(n)}] = {rng.randrange(100, 200)}")
            elif r < 0.75:
                body.append(f"    xs[{idx_expr(n)}] += {rng.randrange(1, 9)}")
            else:
                body.append(f"    acc = acc * 7 + xs[{idx_expr(n)}]")
        src = f"@guppy\ndef main(i: int, j: int) -> tuple[int, array[int, {n}]]:\n" + "\n".join(body) + "\n    return acc, xs\n"
        yield "rw", src, mk_inputs(n, n), True
    for _ in range(n_each):  # nested arrays (non-copyable elements: borrow / return at run time)
        rows, cols = rng.randrange(1, 4), rng.randrange(1, 4)
        lit = "array(" + ", ".join(_lit([10 * a + b for b in range(cols)]) for a in range(rows)) + ")"
        body = [f"    ys = {lit}", "    acc = 0"]
        for _k in range(rng.randrange(1, 5)):
            r = rng.random()
            if r < 0.4:
                body.append(f"    ys[{idx_expr(rows)}][{idx_expr(cols)}] = {rng.randrange(100, 200)}")
            elif r < 0.6:
                body.append(f"    ys[{idx_expr(rows)}][{idx_expr(cols)}] += {rng.randrange(1, 9)}")
            elif r < 0.8:
                body.append(f"    ys[{idx_expr(rows)}][{idx_expr(cols)}] = ys[{idx_expr(rows)}][{idx_expr(cols)}] + 1")
            else:
                body.append(f"    acc = acc * 7 + ys[{idx_expr(rows)}][{idx_expr(cols)}]")
        src = (f"@guppy\ndef main(i: int, j: int) -> tuple[int, array[array[int, {cols}], {rows}]]:\n" + "\n".join(body)
               + "\n    return acc, ys\n")
        yield "nested", src, mk_inputs(min(rows, cols), min(rows, cols)), True
    # a non-idempotent index: successive calls return s, s+1, ... modulo 2 (always a valid row / column for s >= 0)
    NXT = ("@guppy\ndef nxt(c: array[int, 1]) -> int:\n    c[0] = c[0] + 1\n    return (c[0] - 1) % 2\n\n"
           "@guppy\ndef bump(a: array[int, 2]) -> None:\n    a[0] = a[0] + 100\n    a[1] = a[1] + 200\n\n")
    for _ in range(n_each):  # index expressions with side effects: each one is evaluated exactly once per occurrence
        rows = rng.randrange(2, 4)
        lit = "array(" + ", ".join(_lit([10 * a, 10 * a + 1]) for a in range(rows)) + ")"
        body = [f"    ys = {lit}", "    c = array(i)", "    acc = 0"]
        for _k in range(rng.randrange(1, 4)):
            r = rng.random()
            col = rng.choice(["j", "0", "1", "nxt(c)"])
            if r < 0.3:
                body.append(f"    ys[nxt(c)][{col}] += {rng.randrange(1, 9)}")
            elif r < 0.5:
                body.append(f"    ys[nxt(c)][{col}] = {rng.randrange(100, 200)}")
            elif r < 0.7:
                body.append("    bump(ys[nxt(c)])")
            elif r < 0.85:
                body.append(f"    acc = acc * 7 + ys[nxt(c)][{col}]")
            else:
                body.append(f"    ys[nxt(c)][{col}] = ys[nxt(c)][{col}] + 1")
        src = (NXT + f"@guppy\ndef main(i: int, j: int) -> tuple[int, int, array[array[int, 2], {rows}]]:\n" + "\n".join(body)
               + "\n    return acc, c[0], ys\n")
        yield "index-effects", src, [(0, 0), (0, 1), (1, 0), (1, 1), (2, 0), (5, 1), (0, 2), (1, -1)], True
    for _ in range(n_each):  # same on a flat array: xs[nxt(c)] op= v, xs[nxt(c)] = xs[nxt(c)] + v
        n = rng.randrange(2, 6)
        body = [f"    xs = {_lit([10 + k for k in range(n)])}", "    c = array(i)"]
        for _k in range(rng.randrange(1, 4)):
            body.append(rng.choice([f"    xs[nxt(c)] += {rng.randrange(1, 9)}", f"    xs[nxt(c)] = xs[nxt(c)] + {rng.randrange(1, 9)}",
                                    f"    xs[nxt(c) + j] = {rng.randrange(100, 200)}"]))
        src = NXT + f"@guppy\ndef main(i: int, j: int) -> tuple[int, array[int, {n}]]:\n" + "\n".join(body) + "\n    return c[0], xs\n"
        yield "index-effects", src, [(0, 0), (1, 0), (0, 1), (3, n - 2), (2, n - 1), (1, -2)], True
    shapes = []
    for n in range(0, 6):
        for l in range(0, n + 1):
            for r in range(0, n - l + 1):
                shapes.append((l, r, True, n))
        if n:
            shapes.append((n, 0, False, n))
    rng.shuffle(shapes)
    must = [(1, 2, True, 5), (0, 3, True, 4), (2, 2, True, 4)]
    for (l, r, starred, n) in must + shapes[: max(0, 2 * n_each - len(must))]:  # unpacking
        src_kind = rng.choice(["array", "array", "range", "nested"])
        names = [f"a{k}" for k in range(l)] + (["*mid"] if starred else []) + [f"b{k}" for k in range(r)]
        if not names:
            continue
        pat = ", ".join(names) + ("," if len(names) == 1 else "")
        rets = [f"a{k}" for k in range(l)] + (["mid"] if starred else []) + [f"b{k}" for k in range(r)]
        if src_kind == "nested":
            ety, rhs = "array[int, 2]", "array(" + ", ".join(_lit([10 * a, 10 * a + 1]) for a in range(n)) + ")"
            if n == 0:
                continue
        elif src_kind == "range":
            ety, rhs = "int", f"range({n})"
        else:
            ety, rhs = "int", _lit([10 + k for k in range(n)]) if n else None
            if rhs is None:
                continue
        rty = [ety] * l + ([f"array[{ety}, {n - l - r}]"] if starred else []) + [ety] * r
        rt = rty[0] if len(rty) == 1 else "tuple[" + ", ".join(rty) + "]"
        src = f"@guppy\ndef main() -> {rt}:\n    {pat} = {rhs}\n    return {', '.join(rets)}\n"
        yield "unpack", src, [()], (l > 0 and r > 0) or r >= 2
    for _ in range(n_each):  # a name on both sides of the star: bound left to right, the rightmost occurrence wins
        l, r = rng.randrange(1, 3), rng.randrange(1, 3)
        n = l + r + rng.randrange(0, 3)
        left = [f"v{k}" for k in range(l)]
        right = [rng.choice(left) if rng.random() < 0.6 else f"w{k}" for k in range(r)]
        right[-1] = left[0]
        distinct = list(dict.fromkeys(left + right))
        src_kind = rng.choice(["array", "range"])
        rhs = _lit([10 + k for k in range(n)]) if src_kind == "array" else f"range({n})"
        rt = "tuple[" + ", ".join(["int"] * len(distinct) + [f"array[int, {n - l - r}]"]) + "]"
        src = (f"@guppy\ndef main() -> {rt}:\n    {', '.join(left)}, *mid, {', '.join(right)} = {rhs}\n"
               f"    return {', '.join(distinct)}, mid\n")
        yield "unpack-dup", src, [()], True
    for _ in range(n_each):  # frozenarrays (comptime lists): FrozenarrayIter yields every element, in order, exactly once
        n = rng.randrange(1, 6)
        vals = [rng.randrange(1, 9) for _ in range(n)]
        v = rng.random()
        if v < 0.35:
            src = (f"@guppy\ndef main(i: int, j: int) -> int:\n    acc = 0\n    for x in comptime({vals}):\n        acc = acc * 10 + x\n"
                   "    return acc + i\n")
        elif v < 0.6:
            src = f"@guppy\ndef main(i: int, j: int) -> array[int, {n}]:\n    return array(x * 2 + i for x in comptime({vals}))\n"
        elif v < 0.8:
            src = (f"@guppy\ndef main(i: int, j: int) -> tuple[int, int]:\n    fs = comptime({vals})\n    acc = 0\n    cnt = 0\n"
                   "    for x in fs:\n        acc = acc * 10 + x\n        cnt += 1\n    return acc, cnt + fs[j]\n")
        else:
            src = (f"@guppy\ndef main(i: int, j: int) -> array[int, {n}]:\n    xs = comptime({vals}).mutable_copy()\n    xs[j] = xs[j] + i\n"
                   "    return xs\n")
        yield "frozen", src, [(0, 0), (3, n - 1), (1, n), (2, -1)], True
    for _ in range(n_each):  # iteration order
        n = rng.randrange(0, 6)
        vals = [rng.randrange(1, 9) for _ in range(n)]
        if rng.random() < 0.5 and n:
            src = (f"@guppy\ndef main() -> int:\n    xs = {_lit(vals)}\n    acc = 0\n    for x in xs:\n        acc = acc * 10 + x\n"
                   "    return acc\n")
        else:
            rows = rng.randrange(1, 4)
            lit = "array(" + ", ".join(_lit([rng.randrange(1, 9) for _ in range(2)]) for _ in range(rows)) + ")"
            src = (f"@guppy\ndef main() -> int:\n    ys = {lit}\n    acc = 0\n    for row in ys:\n        for v in row:\n"
                   "            acc = acc * 10 + v\n    return acc\n")
        yield "iter", src, [()], True
    for _ in range(n_each):  # comprehensions
        n = rng.randrange(1, 6)
        vals = [rng.randrange(1, 50) for _ in range(n)]
        k = rng.randrange(1, 9)
        v = rng.random()
        if v < 0.4:
            src = (f"@guppy\ndef main(i: int, j: int) -> array[int, {n}]:\n    xs = {_lit(vals)}\n"
                   f"    return array(x * 2 + {k} + i for x in xs)\n")
        elif v < 0.7:
            src = f"@guppy\ndef main(i: int, j: int) -> array[int, {n}]:\n    return array(a * a + {k} + j for a in range({n}))\n"
        else:
            src = (f"@guppy\ndef main(i: int, j: int) -> array[array[int, 2], {n}]:\n    xs = {_lit(vals)}\n"
                   f"    return array(array(x, x + {k}) for x in xs)\n")
        yield "comp", src, [(0, 0), (3, -2)], True
    for _ in range(n_each):  # copy() is independent of the original
        n = rng.randrange(1, 6)
        vals = [rng.randrange(1, 50) for _ in range(n)]
        src = (f"@guppy\ndef main(i: int, j: int) -> tuple[array[int, {n}], array[int, {n}]]:\n    xs = {_lit(vals)}\n"
               f"    ys = xs.copy()\n    ys[i] = 99\n    xs[j] = 77\n    return xs, ys\n")
        yield "copy", src, mk_inputs(n, n, 3, 2), True


def c19_e2e(ctx):
    n_each = 6 if ctx.quick else 40
    skipped = 0
    for kind, src, inputs, nontriv in gen_c19_programs(ctx.rng, n_each):
        skipped += check_program(ctx, kind, src, inputs, f"input:e2e {kind} :: {src}", nontrivial=nontriv)
    ctx.extra["e2e_skipped"] = skipped
    copyable_lend(ctx)
    starred_name_reuse(ctx)


# ------------------------------------------------------------------ copyable ELEMENTS lent as borrowed arguments
# A copyable value can only be lent through a parameter whose type is a non-copyable type variable (mem_swap, with_owned, user
# generics): `__getitem__` copies the element out and the write-back stores the callee's value with `set`.  CPython cannot mirror
# that by running the same source (ints are immutable), so the expected result is computed by a reference function here:
# copy the arguments in, apply the callee's permutation/update, write back in argument order (= Python's `a, b = b, a`).
GEN_HDR = ("L = guppy.type_var('L', copyable=False, droppable=False)\n\n"
           "@guppy\ndef rot(a: L, b: L, c: L) -> None:\n    mem_swap(a, b)\n    mem_swap(b, c)\n\n"
           "@guppy\ndef exch(a: L, b: L) -> None:\n    mem_swap(a, b)\n\n"
           "@guppy\ndef inc5(a: int) -> tuple[int, int]:\n    return a, a + 5\n\n"
           "@guppy.struct\nclass P:\n    a: int\n    b: int\n\n")


def check_expected(ctx, kind, src, cases, key_prefix):
    try:
        c = Compiled(src)
    except Exception as e:  # noqa: BLE001
        ctx.violation(f"{key_prefix} :: compile", f"generated program is not compiled: {type(e).__name__}: {str(e)[:300]}",
                      {"case": {"kind": "e2e", "what": kind}, "source": src, "error": repr(e)[:500]})
        return
    for args, want in cases:
        g1, g2 = c.run(args, "default"), c.run(args, "adversarial")
        ctx.count({"e2e": kind, "src": src, "args": list(args)}, nontrivial=True, kind=f"e2e:{kind}:{g1[0]}")
        if g1[0] == "skip" or g2[0] == "skip":
            ctx.bump("e2e:skipped:" + (g1[1] if g1[0] == "skip" else g2[1]))
            continue
        for order, g in (("default", g1), ("adversarial", g2)):
            if not agree(g, want):
                ctx.violation(f"{key_prefix} :: args={list(args)}",
                              f"program run on the lowered Hugr ({order} schedule) gives {g}; reference semantics (the callee's update "
                              f"of a lent array element is visible in the array) gives {want}; args {list(args)}; source:\n{src}",
                              {"case": {"kind": "e2e", "what": kind, "args": list(args)}, "source": src, "order": order,
                               "real": repr(g), "oracle": repr(want)})
                break


def gen_copyable_lend(rng, n_each):
    """yield (kind, source, [(args, expected outcome)])"""
    PANIC = ("panic", "Array index out of bounds")

    def lit(vals):
        return "array(" + ", ".join(repr(v) for v in vals) + ")"

    def idx_cases(n, k, extra=()):
        """k-tuples of indices: mostly in range, some out of range / negative"""
        res = [tuple(rng.randrange(0, n) for _ in range(k)) for _ in range(4)]
        res.append(tuple(range(k)) if k <= n else tuple([0] * k))
        bad = list(res[0])
        bad[rng.randrange(k)] = rng.choice([-1, n, n + 3])
        res.append(tuple(bad))
        return res

    for _ in range(n_each):
        ety, mk = rng.choice([("int", lambda: rng.randrange(1, 90)), ("float", lambda: rng.randrange(1, 90) / 2),
                              ("bool", lambda: rng.random() < 0.5)])
        n = rng.randrange(3, 6)
        vals = [mk() for _ in range(n)]
        # mem_swap / exch of two elements
        fn = rng.choice(["mem_swap", "exch"])
        src = GEN_HDR + f"@guppy\ndef main(i: int, j: int) -> array[{ety}, {n}]:\n    xs = {lit(vals)}\n    {fn}(xs[i], xs[j])\n    return xs\n"
        cases = []
        for (i, j) in idx_cases(n, 2):
            if 0 <= i < n and 0 <= j < n:
                xs = list(vals)
                xs[i], xs[j] = vals[j], vals[i]
                cases.append(((i, j), ("value", tuple(xs))))
            else:
                cases.append(((i, j), PANIC))
        yield "lend-copyable:swap", src, cases
        # element <-> variable
        y = mk()
        src = (GEN_HDR + f"@guppy\ndef main(i: int) -> tuple[array[{ety}, {n}], {ety}]:\n    xs = {lit(vals)}\n    y = {y!r}\n"
               f"    {fn}(xs[i], y)\n    return xs, y\n")
        cases = []
        for (i,) in idx_cases(n, 1):
            if 0 <= i < n:
                xs = list(vals)
                xs[i] = y
                cases.append(((i,), ("value", (tuple(xs), vals[i]))))
            else:
                cases.append(((i,), PANIC))
        yield "lend-copyable:swap-var", src, cases
        # generic three-way rotation
        if n >= 3:
            src = GEN_HDR + f"@guppy\ndef main(i: int, j: int, k: int) -> array[{ety}, {n}]:\n    xs = {lit(vals)}\n    rot(xs[i], xs[j], xs[k])\n    return xs\n"
            cases = []
            for (i, j, k) in idx_cases(n, 3):
                if all(0 <= q < n for q in (i, j, k)):
                    xs = list(vals)
                    xs[i], xs[j], xs[k] = vals[j], vals[k], vals[i]
                    cases.append(((i, j, k), ("value", tuple(xs))))
                else:
                    cases.append(((i, j, k), PANIC))
            yield "lend-copyable:rot", src, cases
    for _ in range(n_each):
        n = rng.randrange(2, 5)
        vals = [rng.randrange(1, 90) for _ in range(n)]
        # with_owned on an int element
        src = GEN_HDR + f"@guppy\ndef main(i: int) -> tuple[int, array[int, {n}]]:\n    xs = {lit(vals)}\n    r = with_owned(xs[i], inc5)\n    return r, xs\n"
        cases = []
        for (i,) in idx_cases(n, 1):
            if 0 <= i < n:
                xs = list(vals)
                xs[i] += 5
                cases.append(((i,), ("value", (vals[i], tuple(xs)))))
            else:
                cases.append(((i,), PANIC))
        yield "lend-copyable:with_owned", src, cases
        # elements of nested arrays, across two rows
        rows = [[rng.randrange(1, 90) for _ in range(2)] for _ in range(n)]
        rl = "array(" + ", ".join(lit(r) for r in rows) + ")"
        src = (GEN_HDR + f"@guppy\ndef main(i: int, j: int, k: int, l: int) -> array[array[int, 2], {n}]:\n    xss = {rl}\n"
               "    mem_swap(xss[i][j], xss[k][l])\n    return xss\n")
        cases = []
        for (i, k) in idx_cases(n, 2):
            for (j, l) in [(0, 1), (1, 1), (rng.choice([0, 1]), rng.choice([-1, 2, 0]))]:
                if 0 <= i < n and 0 <= k < n and 0 <= j < 2 and 0 <= l < 2:
                    if i == k:
                        continue  # both places lie in the same (non-copyable) row: lending it twice is C19's double borrow
                    xx = [list(r) for r in rows]
                    xx[i][j], xx[k][l] = rows[k][l], rows[i][j]
                    cases.append(((i, j, k, l), ("value", tuple(tuple(r) for r in xx))))
                elif not (0 <= i < n and 0 <= k < n and i == k):
                    cases.append(((i, j, k, l), PANIC))
        yield "lend-copyable:nested", src, cases
        # fields of copyable structs in an array, and whole tuples
        ps = [(rng.randrange(1, 90), rng.randrange(1, 90)) for _ in range(n)]
        pl = "array(" + ", ".join(f"P({a}, {b})" for a, b in ps) + ")"
        rt = "tuple[" + ", ".join(["int"] * (2 * n)) + "]"
        rets = ", ".join(f"ps[{q}].a, ps[{q}].b" for q in range(n))
        src = GEN_HDR + f"@guppy\ndef main(i: int, j: int) -> {rt}:\n    ps = {pl}\n    mem_swap(ps[i].a, ps[j].b)\n    return {rets}\n"
        cases = []
        for (i, j) in idx_cases(n, 2):
            if 0 <= i < n and 0 <= j < n:
                if i == j:
                    continue
                pp = [list(x) for x in ps]
                pp[i][0], pp[j][1] = ps[j][1], ps[i][0]
                cases.append(((i, j), ("value", tuple(v for x in pp for v in x))))
            else:
                cases.append(((i, j), PANIC))
        yield "lend-copyable:fields", src, cases
        tl = "array(" + ", ".join(f"({a}, {b})" for a, b in ps) + ")"
        src = (GEN_HDR + f"@guppy\ndef main(i: int) -> tuple[array[tuple[int, int], {n}], tuple[int, int]]:\n    ts = {tl}\n    t = (7, 8)\n"
               "    exch(ts[i], t)\n    return ts, t\n")
        cases = []
        for (i,) in idx_cases(n, 1):
            if 0 <= i < n:
                tt = list(ps)
                tt[i] = (7, 8)
                cases.append(((i,), ("value", (tuple(tt), ps[i]))))
            else:
                cases.append(((i,), PANIC))
        yield "lend-copyable:tuple", src, cases


def copyable_lend(ctx):
    for kind, src, cases in gen_copyable_lend(ctx.rng, 2 if ctx.quick else 12):
        check_expected(ctx, kind, src, cases, f"input:e2e {kind} :: {src}")


def starred_name_reuse(ctx):
    """`*a, a = xs`, `a, *a = xs`, `a, *a, a = xs` for arrays, tuples and sized iterables: Python binds the targets left to right.
    /repo bound the starred target last until 535d821 (repaired: pattern order); kept as regression probes, every probe has its own key `input:starred-name <pattern> = <rhs>` (none is known any more)."""
    progs = []
    for rhs, n in (("array(1, 2, 3)", 3), ("(1, 2, 3)", 3), ("range(3)", 3)):
        progs.append((f"@guppy\ndef main() -> int:\n    *a, a = {rhs}\n    return a\n", f"*a, a = {rhs}"))
        progs.append((f"@guppy\ndef main() -> array[int, {n - 1}]:\n    a, *a = {rhs}\n    return a\n", f"a, *a = {rhs}"))
        progs.append((f"@guppy\ndef main() -> int:\n    a, *a, a = {rhs}\n    return a\n", f"a, *a, a = {rhs}"))
    for src, pat in progs:
        ctx.count({"e2e": "starred-name", "src": src}, nontrivial=True, kind="e2e:starred-name")
        try:
            p = py_run(src, "main", ())
        except Exception:  # noqa: BLE001
            continue
        try:
            c = Compiled(src)
            g = c.run((), "default")
        except Exception as e:  # noqa: BLE001
            g = ("rejected", type(e).__name__)
        if g[0] == "skip":
            continue
        if not (g[0] in ("value", "panic") and agree(g, p)):
            ctx.violation(f"input:starred-name {pat}", f"`{pat}`: the starred name occurs again among the plain targets; Python binds "
                          f"left to right and gives {p}, /repo gives {g}; source:\n{src}",
                          {"case": {"kind": "e2e", "what": "starred-name"}, "source": src, "real": repr(g), "oracle": repr(p)})
