"""C13, program level: generic callers with interleaved kept / monomorphized parameters calling generic
callees, all lowered in ONE CompilerContext.

  * `gen_program(rng)`      abstract program (callee pool is fixed, callers and the entry are random)
  * `render(prog, mode)`    Guppy source of the generic program ('generic'), of its hand-specialised textual
                            copy ('spec': every generic call replaced by a monomorphic copy) or the CPython
                            flavour of the generic source ('py')
  * `check_hugr(hugr)`      independent well-formedness oracle on the lowered Hugr (type-variable scoping and
                            kinds, Call/LoadFunc instantiation = callee signature at the type args, wire types)
  * `lower_with_ctx(defn)`  real lowering, keeping the CompilerContext (-> real mono args per instance)
  * `expected_calls(...)`   what the Lean model (`pma`, `cvi` of Drivers/C13) predicts for the HUGR type
                            arguments of every call site of a lowered caller instance
"""
from __future__ import annotations

import hashlib
import json

import bootstrap

bootstrap.install()

CONC = ["int", "float", "bool"]

CALLEES = '''
from collections.abc import Callable
Q = guppy.type_var("Q")
A = guppy.type_var("A")
B = guppy.type_var("B")
E = guppy.type_var("E")
L = guppy.type_var("L", copyable=False, droppable=False)
C = guppy.type_var("C", copyable=True, droppable=False)
cn = guppy.nat_var("cn")

@guppy
def ident(y: Q) -> Q:
    return y

@guppy
def identl(y: L @owned) -> L:
    return y

@guppy
def identc(y: C) -> C:
    return y

@guppy
def swap(p: A, q: B) -> tuple[B, A]:
    return q, p

@guppy
def head(xs: array[E, cn]) -> E:
    return xs[0]

@guppy
def scale(k: int @comptime, y: Q) -> tuple[int, Q]:
    return k * 2, y

@guppy
def apply(f: Callable[[A], B], x: A) -> B:
    return f(x)
'''

PY_PRELUDE = '''
from __future__ import annotations
class _G:
    def __call__(self, f): return f
    def type_var(self, *a, **k): return None
    def nat_var(self, *a, **k): return None
guppy = _G()
def array(*xs): return list(xs)
owned = None
def comptime(x): return x
nat = int
def _fdiv(a, b):
    """IEEE-754 division (CPython raises on a zero divisor)"""
    import math
    if b != 0:
        return a / b
    if a != a or a == 0:
        return math.nan
    return math.copysign(math.inf, a) * math.copysign(1.0, b)
'''


# ------------------------------------------------------------------------------------ abstract programs
# type descriptors: ("c", "int"|"float"|"bool") | ("tv", name) | ("arr", elem, ("nv", name) | ("lit", k))
#                   | ("tup", [descs])
def d_src(d, sub=None):
    """source text of a descriptor; `sub` maps type / nat variable names to concrete text"""
    sub = sub or {}
    if d[0] == "c":
        return d[1]
    if d[0] == "tv":
        return sub.get(d[1], d[1])
    if d[0] == "arr":
        ln = d[2]
        lt = str(ln[1]) if ln[0] == "lit" else str(sub.get(ln[1], ln[1]))
        return f"array[{d_src(d[1], sub)}, {lt}]"
    if d[0] == "tup":
        return "tuple[" + ", ".join(d_src(x, sub) for x in d[1]) + "]"
    raise ValueError(d)


def d_subst(d, tmap, nmap):
    if d[0] == "tv":
        return tmap.get(d[1], d)
    if d[0] == "arr":
        ln = d[2]
        if ln[0] == "nv" and ln[1] in nmap:
            ln = ("lit", nmap[ln[1]])
        return ("arr", d_subst(d[1], tmap, nmap), ln)
    if d[0] == "tup":
        return ("tup", [d_subst(x, tmap, nmap) for x in d[1]])
    return d


def d_shape(d):
    if d[0] == "c":
        return d[1]
    if d[0] == "arr":
        return ("array", d_shape(d[1]))
    if d[0] == "tup":
        return ("tuple", [d_shape(x) for x in d[1]])
    raise ValueError(d)


def d_tag(d):
    return d_src(d).replace("[", "_").replace("]", "").replace(", ", "_").replace(" ", "")


BOUNDS = {"cd": "", "lin": ", copyable=False, droppable=False", "aff": ", copyable=False, droppable=True",
          "cnd": ", copyable=True, droppable=False"}


# type / nat variables are shared between callers (as `T`, `U`, `n` are in real code): two callers then
# mention the *same* Guppy bound variable (name, index, flags) under different monomorphization layouts
POOL = {"cd": ["T", "U", "V", "W", "X"], "lin": ["L1", "L2"], "aff": ["F1", "F2"], "cnd": ["C1", "C2"]}
NPOOL = ["n", "m", "p"]


def gen_caller(rng, idx):
    """a generic caller: random interleaving of kept / monomorphization-forcing parameters"""
    name = f"c{idx}"
    tvs, nvs, args = {}, [], []

    def new_tv(b):
        free = [t for t in POOL[b] if t not in tvs]
        if not free:
            return rng.choice([t for t, bb in tvs.items() if bb == b])
        t = rng.choice(free) if rng.random() < 0.5 else free[0]
        tvs[t] = b
        return t

    def new_nv():
        free = [n for n in NPOOL if n not in nvs]
        if not free:
            return rng.choice(nvs)
        n = free[0] if rng.random() < 0.6 else rng.choice(free)
        nvs.append(n)
        return n
    n_args = rng.choice([2, 3, 3, 4, 4, 5])
    kinds = ["keep", "keep", "keep", "arr", "ct_t", "ct", "conc", "lin"]
    force = rng.choice(["ct_t", "ct", None, "ct_t"])
    pos_force = rng.randrange(n_args)
    for i in range(n_args):
        k = force if (i == pos_force and force) else rng.choice(kinds)
        an = f"{name}a{i}"
        if k == "keep":
            cd = [t for t, b in tvs.items() if b == "cd"]
            if cd and rng.random() < 0.25:
                t = rng.choice(cd)
            else:
                t = new_tv("cd")
            args.append({"name": an, "ty": ("tv", t), "mode": "plain"})
        elif k == "lin":
            t = new_tv(rng.choice(["lin", "aff", "cnd", "lin"]))
            if any(a["ty"] == ("tv", t) for a in args):
                t = None
            if t is None:
                args.append({"name": an, "ty": ("c", "int"), "mode": "plain"})
            else:
                args.append({"name": an, "ty": ("tv", t), "mode": "nd" if tvs[t] == "cnd" else "owned"})
        elif k == "arr":
            cd = [t for t, b in tvs.items() if b == "cd"]
            r = rng.random()
            if r < 0.4:
                el = ("c", "int")
            elif r < 0.7 and cd:
                el = ("tv", rng.choice(cd))
            else:
                el = ("tv", new_tv("cd"))
            if nvs and rng.random() < 0.2:
                nv = rng.choice(nvs)
            else:
                nv = new_nv()
            args.append({"name": an, "ty": ("arr", el, ("nv", nv)), "mode": "plain"})
        elif k == "ct_t":
            cd = [t for t, b in tvs.items() if b == "cd"]
            if cd and rng.random() < 0.3:
                t = rng.choice(cd)
            else:
                t = new_tv("cd")
            args.append({"name": an, "ty": ("tv", t), "mode": "comptime"})
        elif k == "ct":
            args.append({"name": an, "ty": ("c", rng.choice(["int", "bool", "nat", "int", "float"])), "mode": "comptime"})
        else:
            args.append({"name": an, "ty": ("c", rng.choice(CONC)), "mode": "plain"})
    return build_body(rng, name, tvs, nvs, args)


def build_body(rng, name, tvs, nvs, args):
    stmts, results = [], []
    usable = [a for a in args if a["mode"] in ("plain", "comptime") and a["ty"][0] != "arr"
              and not (a["ty"][0] == "c" and a["ty"][1] == "nat")]
    rn = [0]

    def fresh():
        rn[0] += 1
        return f"{name}r{rn[0]}"

    for a in args:
        if a["mode"] == "owned":
            r = fresh()
            stmts.append({"op": "identl", "v": a, "out": [r]})
            results.append((r, a["ty"]))
        elif a["mode"] == "nd":
            r = fresh()
            stmts.append({"op": "identc", "v": a, "out": [r]})
            results.append((r, a["ty"]))
        elif a["ty"][0] == "arr":
            r = fresh()
            stmts.append({"op": "head", "v": a, "out": [r]})
            results.append((r, a["ty"][1]))
            if a["ty"][2][0] == "nv":
                # the nat variable used as a value and as the size of a comprehension (`range(n)`)
                if rng.random() < 0.7:
                    r = fresh()
                    stmts.append({"op": "nlen", "v": a, "out": [r]})
                    results.append((r, ("c", "int")))
                if rng.random() < 0.5:
                    r = fresh()
                    stmts.append({"op": "ncomp", "v": a, "out": [r]})
                    results.append((r, ("c", "int")))
        elif a["mode"] == "comptime" and a["ty"] == ("c", "nat"):
            r = fresh()
            stmts.append({"op": "natval", "v": a, "out": [r]})
            results.append((r, ("c", "int")))
    for v in usable:
        if v["ty"] == ("c", "float"):
            if rng.random() < 0.7:
                r = fresh()
                stmts.append({"op": "finv", "v": v, "out": [r]})
                results.append((r, ("c", "float")))
            if rng.random() < 0.5:
                r = fresh()
                stmts.append({"op": "fmul", "v": v, "out": [r]})
                results.append((r, ("c", "float")))
    for v in usable:
        if v["ty"][0] == "tv" and rng.random() < 0.6:
            r = fresh()
            stmts.append({"op": "ident", "v": v, "out": [r]})
            results.append((r, v["ty"]))
    for _ in range(rng.choice([0, 1, 2, 2, 3])):
        if not usable:
            break
        op = rng.choice(["ident", "ident", "discard", "swap", "tup", "scale", "apply", "ident"])
        v = rng.choice(usable)
        if op == "ident":
            r = fresh()
            stmts.append({"op": "ident", "v": v, "out": [r]})
            results.append((r, v["ty"]))
        elif op == "discard":
            stmts.append({"op": "discard", "v": v, "out": []})
        elif op == "swap":
            w = rng.choice(usable)
            r1, r2 = fresh(), fresh()
            stmts.append({"op": "swap", "v": v, "w": w, "out": [r1, r2]})
            results.append((r1, w["ty"]))
            results.append((r2, v["ty"]))
        elif op == "tup":
            r = fresh()
            stmts.append({"op": "tup", "v": v, "out": [r]})
            results.append((r, ("tup", [v["ty"], ("c", "int")])))
        elif op == "scale":
            r1, r2 = fresh(), fresh()
            stmts.append({"op": "scale", "k": rng.choice([2, 3, 7]), "v": v, "out": [r1, r2]})
            results.append((r1, ("c", "int")))
            results.append((r2, v["ty"]))
        else:
            r = fresh()
            stmts.append({"op": "apply", "v": v, "out": [r]})
            results.append((r, v["ty"]))
    rng.shuffle(stmts)
    if not results:
        results.append(("0", ("c", "int")))
    return {"name": name, "tvs": tvs, "nvs": nvs, "args": args, "stmts": stmts, "results": results}



def gen_sibling(rng, c, idx):
    """a caller with the same variables at the same Guppy parameter positions as `c` but a different
    monomorphization layout: comptime arguments become kept ones (or a kept one becomes comptime)"""
    name = f"c{idx}"
    tvs, nvs, args = dict(c["tvs"]), list(c["nvs"]), []
    free = [t for t in POOL["cd"] if t not in tvs]
    flipped = False
    intro = set()
    for i, a in enumerate(c["args"]):
        an = f"{name}a{i}"
        ty, mode = a["ty"], a["mode"]
        if mode == "comptime" and rng.random() < 0.7:
            flipped = True
            if ty[0] == "tv":
                args.append({"name": an, "ty": ty, "mode": "plain"})          # T stays where it was, now kept
                if free:                                                      # the const parameter's slot
                    t = free.pop(0)
                    tvs[t] = "cd"
                    args.append({"name": an + "x", "ty": ("tv", t), "mode": "plain"})
            elif free:
                t = free.pop(0)
                tvs[t] = "cd"
                args.append({"name": an, "ty": ("tv", t), "mode": "plain"})
            else:
                args.append({"name": an, "ty": ty, "mode": mode})
        elif (mode == "plain" and ty[0] == "tv" and ty[1] not in intro and tvs.get(ty[1]) == "cd"
              and sum(1 for b in c["args"] if _mentions(b["ty"], ty[1])) == 1 and rng.random() < 0.4):
            flipped = True
            del tvs[ty[1]]
            args.append({"name": an, "ty": ("c", rng.choice(["int", "bool", "float"])), "mode": "comptime"})
        else:
            args.append({"name": an, "ty": ty, "mode": mode})
        if ty[0] == "tv":
            intro.add(ty[1])
    if not flipped:
        args.insert(0, {"name": f"{name}k", "ty": ("c", "int"), "mode": "comptime"})
    return build_body(rng, name, tvs, nvs, args)


def _mentions(ty, t):
    if ty[0] == "tv":
        return ty[1] == t
    if ty[0] == "arr":
        return _mentions(ty[1], t)
    return False


# comptime float literals: signed zeros, ordinary values, infinities (`1e999`), nan; Python-equal but distinct constants
FLOAT_LITS = ["0.0", "-0.0", "0.0", "-0.0", "1.5", "-2.25", "1e20", "0.5", "1e999", "-1e999", "comptime(1e999 - 1e999)"]
FLOAT_TWIN = {"0.0": "-0.0", "-0.0": "0.0", "1e999": "-1e999", "-1e999": "1e999", "1.5": "-0.0", "0.5": "0.0"}
EQ_TWIN = {("int", "1"): ("bool", "True"), ("int", "0"): ("bool", "False"), ("bool", "True"): ("int", "1"),
           ("bool", "False"): ("int", "0")}


def lit_value(v):
    """python value of a generated comptime literal"""
    return eval(v, {"comptime": lambda x: x, "__builtins__": {}})  # noqa: S307 (strings generated here)


def gen_call(rng, c, base=None, force_t=None, force_val=None):
    """a monomorphic instantiation of caller c: concrete types for its variables, literal comptime values.
    With `base`: a twin of that call in which only the forced type variables / comptime literals differ."""
    tmap = dict(base["tmap"]) if base else {t: ("c", rng.choice(CONC)) for t in c["tvs"]}
    tmap.update(force_t or {})
    nmap = dict(base["nmap"]) if base else {n: rng.choice([1, 2, 3]) for n in c["nvs"]}
    vals = []
    for i, a in enumerate(c["args"]):
        ty = d_subst(a["ty"], tmap, nmap)
        if force_val and a["name"] in force_val:
            vals.append(force_val[a["name"]])
        elif base and not (force_t and any(_mentions(a["ty"], t) for t in force_t)):
            vals.append(base["vals"][i])
        else:
            vals.append(_value(rng, ty, literal=a["mode"] == "comptime"))
    return {"caller": c["name"], "tmap": tmap, "nmap": nmap, "vals": vals}


def gen_twins(rng, c, k):
    """calls that differ from `k` only in a constant that Python's == / hash would identify with the original
    (0.0 vs -0.0, 1 vs True, 0 vs False) or in one float comptime value"""
    out = []
    for a, v in zip(c["args"], k["vals"]):
        if a["mode"] != "comptime":
            continue
        ty = d_subst(a["ty"], k["tmap"], k["nmap"])
        if ty == ("c", "float"):
            w = FLOAT_TWIN.get(v) or rng.choice([x for x in FLOAT_LITS if x != v])
            out.append(gen_call(rng, c, base=k, force_val={a["name"]: w}))
        elif a["ty"][0] == "tv" and (ty[1], v) in EQ_TWIN:
            nt, nv = EQ_TWIN[(ty[1], v)]
            out.append(gen_call(rng, c, base=k, force_t={a["ty"][1]: ("c", nt)}, force_val={a["name"]: nv}))
    return out


def _value(rng, ty, literal):
    if ty[0] == "c":
        if ty[1] == "int":
            return str(rng.choice([0, 1, 1, 2, 5, -3])) if literal else rng.choice(["a", "a + 1", "2", "a * 2"])
        if ty[1] == "nat":
            return str(rng.choice([0, 1, 4, 9]))
        if ty[1] == "float":
            return rng.choice(FLOAT_LITS) if literal else rng.choice(["f", "f * 2.0", "1.5", "f + 0.5"])
        return rng.choice(["True", "False"]) if literal else rng.choice(["b", "not b", "True"])
    if ty[0] == "arr":
        return "array(" + ", ".join(_value(rng, ty[1], False) for _ in range(ty[2][1])) + ")"
    raise ValueError(ty)


def gen_ct_nat_pair(rng, idx):
    """`pick(k: int @comptime, [x: T,] xs: array[E, n])` and the mirrored control with the comptime parameter last"""
    out = []
    ct = ("c", rng.choice(["int", "bool", "float"]))
    el = rng.choice([("c", "int"), ("tv", "T"), ("c", "float")])
    with_tv = rng.random() < 0.5
    for j, first in enumerate([True, False]):
        name = f"c{idx + j}"
        tvs, nvs = {}, ["n"]
        mid = []
        if with_tv:
            tvs["U"] = "cd"
            mid.append({"name": f"{name}a1", "ty": ("tv", "U"), "mode": "plain"})
        if el[0] == "tv":
            tvs[el[1]] = "cd"
        arr = {"name": f"{name}a2", "ty": ("arr", el, ("nv", "n")), "mode": "plain"}
        k = {"name": f"{name}a0", "ty": ct, "mode": "comptime"}
        args = [k] + mid + [arr] if first else mid + [arr, k]
        out.append(build_body(rng, name, tvs, nvs, args))
    return out


def gen_program(rng, n_callers=None, ct_nat_pair=None):
    n = n_callers or rng.choice([2, 3, 3, 4, 5])
    callers = []
    if ct_nat_pair if ct_nat_pair is not None else rng.random() < 0.3:
        callers += gen_ct_nat_pair(rng, 0)
        n = max(n, 3)
    for i in range(len(callers), n):
        if callers and rng.random() < 0.5:
            callers.append(gen_sibling(rng, rng.choice(callers), i))
        else:
            callers.append(gen_caller(rng, i))
    calls = []
    for c in callers:
        for _ in range(rng.choice([1, 1, 2, 3])):
            k = gen_call(rng, c)
            calls.append(k)
            if rng.random() < 0.5:
                calls += gen_twins(rng, c, k)[:2]
    rng.shuffle(calls)
    return {"callers": callers, "calls": calls}


def restrict(prog, keep_callers, keep_calls=None):
    cs = [c for c in prog["callers"] if c["name"] in keep_callers]
    calls = [k for i, k in enumerate(prog["calls"]) if k["caller"] in keep_callers and (keep_calls is None or i in keep_calls)]
    return {"callers": cs, "calls": calls}


# ------------------------------------------------------------------------------------ rendering
def _stmt_src(s, mode, sub, spec_use):
    """one statement of a caller body; in 'spec' mode calls go to monomorphic callee copies"""
    v = s["v"]["name"]
    vt = d_subst(s["v"]["ty"], *sub) if sub else s["v"]["ty"]

    def callee(nm, key_tys, extra=""):
        if mode != "spec":
            return nm
        tag = nm + "__" + "__".join([d_tag(t) for t in key_tys] + ([extra] if extra else []))
        spec_use[tag] = (nm, key_tys, extra)
        return tag

    op = s["op"]
    if op == "ident":
        return f"{s['out'][0]} = {callee('ident', [vt])}({v})"
    if op == "discard":
        return f"{callee('ident', [vt])}({v})"
    if op in ("identl", "identc"):
        return f"{s['out'][0]} = {callee(op, [vt])}({v})"
    if op == "swap":
        wt = d_subst(s["w"]["ty"], *sub) if sub else s["w"]["ty"]
        return f"{s['out'][0]}, {s['out'][1]} = {callee('swap', [vt, wt])}({v}, {s['w']['name']})"
    if op == "tup":
        return f"{s['out'][0]} = ({callee('ident', [vt])}({v}), 1)"
    if op == "head":
        return f"{s['out'][0]} = {callee('head', [vt])}({v})"
    if op == "scale":
        if mode == "spec":
            return f"{s['out'][0]}, {s['out'][1]} = {callee('scale', [vt], str(s['k']))}({v})"
        return f"{s['out'][0]}, {s['out'][1]} = scale({s['k']}, {v})"
    if op == "apply":
        if mode == "spec":
            return f"{s['out'][0]} = {callee('apply', [vt])}({callee('ident', [vt])}, {v})"
        if mode == "py":
            return f"{s['out'][0]} = apply(ident, {v})"
        return f"{s['out'][0]} = apply(ident[{d_src(vt)}], {v})"
    if op == "natval":
        return f"{s['out'][0]} = int({v})"
    if op in ("nlen", "ncomp"):
        ln = s["v"]["ty"][2]
        nsrc = f"len({v})" if mode == "py" else (str(sub[1].get(ln[1], ln[1])) if sub else ln[1])
        if op == "nlen":
            return f"{s['out'][0]} = 1 + {nsrc}"
        if mode == "py":
            return f"{s['out'][0]} = [7 for _ in range({nsrc})][0]"
        return f"{s['out'][0]}_ys = array(7 for _ in range({nsrc}))\n    {s['out'][0]} = {s['out'][0]}_ys[0]"
    if op == "finv":
        return f"{s['out'][0]} = _fdiv(1.0, {v})" if mode == "py" else f"{s['out'][0]} = 1.0 / {v}"
    if op == "fmul":
        return f"{s['out'][0]} = {v} * 3.0"
    raise ValueError(op)


def _ann(a, mode, sub):
    ty = d_subst(a["ty"], *sub) if sub else a["ty"]
    t = d_src(ty)
    if a["mode"] == "comptime":
        return f"{a['name']}: {t} @comptime"
    if a["mode"] == "owned" and mode != "spec":   # `@owned` on a copyable concrete type is rejected
        return f"{a['name']}: {t} @owned"
    return f"{a['name']}: {t}"


def _ret(c, sub):
    tys = [d_subst(t, *sub) if sub else t for _, t in c["results"]]
    return "tuple[" + ", ".join(d_src(t) for t in tys) + "]", "(" + ", ".join(r for r, _ in c["results"]) + ",)"


def _spec_callee(tag, nm, tys, extra):
    t = [d_src(x) for x in tys]
    if nm == "ident":
        return f"@guppy\ndef {tag}(y: {t[0]}) -> {t[0]}:\n    return y\n"
    if nm in ("identl", "identc"):
        return f"@guppy\ndef {tag}(y: {t[0]}) -> {t[0]}:\n    return y\n"
    if nm == "swap":
        return f"@guppy\ndef {tag}(p: {t[0]}, q: {t[1]}) -> tuple[{t[1]}, {t[0]}]:\n    return q, p\n"
    if nm == "head":
        return f"@guppy\ndef {tag}(xs: {t[0]}) -> {d_src(tys[0][1])}:\n    return xs[0]\n"
    if nm == "scale":
        return f"@guppy\ndef {tag}(y: {t[0]}) -> tuple[int, {t[0]}]:\n    k = {extra}\n    return k * 2, y\n"
    if nm == "apply":
        return f"@guppy\ndef {tag}(f: Callable[[{t[0]}], {t[0]}], x: {t[0]}) -> {t[0]}:\n    return f(x)\n"
    raise ValueError(nm)


def entry_ret(prog):
    by = {c["name"]: c for c in prog["callers"]}
    tys = []
    for k in prog["calls"]:
        c = by[k["caller"]]
        tys.append(("tup", [d_subst(t, k["tmap"], k["nmap"]) for _, t in c["results"]]))
    return tys


def render(prog, mode="generic"):
    """source text (without the feed prelude); mode: 'generic' | 'spec' | 'py'"""
    by = {c["name"]: c for c in prog["callers"]}
    out = []
    if mode in ("generic", "py"):
        out.append(CALLEES)
        for b, names in POOL.items():
            for t in names:
                out.append(f'{t} = guppy.type_var("{t}"{BOUNDS[b]})')
        for n in NPOOL:
            out.append(f'{n} = guppy.nat_var("{n}")')
        for c in prog["callers"]:
            rt, rv = _ret(c, None)
            out.append("@guppy")
            out.append(f"def {c['name']}(" + ", ".join(_ann(a, mode, None) for a in c["args"]) + f") -> {rt}:")
            for s in c["stmts"]:
                out.append("    " + _stmt_src(s, mode, None, None))
            out.append(f"    return {rv}")
            out.append("")
    spec_use, spec_defs, spec_names = {}, [], []
    if mode == "spec":
        out.append("from collections.abc import Callable")
        for i, k in enumerate(prog["calls"]):
            c = by[k["caller"]]
            sub = (k["tmap"], k["nmap"])
            nm = f"{c['name']}__i{i}"
            spec_names.append(nm)
            rt, rv = _ret(c, sub)
            kept = [a for a in c["args"] if a["mode"] != "comptime"]
            body = [f"def {nm}(" + ", ".join(_ann(a, mode, sub) for a in kept) + f") -> {rt}:"]
            for a, v in zip(c["args"], k["vals"]):
                if a["mode"] == "comptime":
                    body.append(f"    {a['name']} = {v}")
            for s in c["stmts"]:
                body.append("    " + _stmt_src(s, mode, sub, spec_use))
            body.append(f"    return {rv}")
            spec_defs.append("@guppy\n" + "\n".join(body) + "\n")
        for tag, (nm, tys, extra) in sorted(spec_use.items()):
            out.append(_spec_callee(tag, nm, tys, extra))
        out += spec_defs
    rts = entry_ret(prog)
    out.append("@guppy")
    out.append("def entry(a: int, f: float, b: bool) -> tuple[" + ", ".join(d_src(t) for t in rts) + "]:")
    names = []
    for i, k in enumerate(prog["calls"]):
        c = by[k["caller"]]
        if mode == "spec":
            vals = [v for a, v in zip(c["args"], k["vals"]) if a["mode"] != "comptime"]
            out.append(f"    e{i} = {spec_names[i]}(" + ", ".join(vals) + ")")
        else:
            out.append(f"    e{i} = {c['name']}(" + ", ".join(k["vals"]) + ")")
        names.append(f"e{i}")
    out.append("    return (" + ", ".join(names) + ("," if names else "") + ")")
    return "\n".join(out) + "\n"


def ret_shape(prog):
    return ("tuple", [d_shape(t) for t in entry_ret(prog)])


def run_python(prog, args):
    """CPython evaluation of the generic source (Python is untyped: the generic program runs as it is)"""
    env: dict = {}
    exec(compile(PY_PRELUDE + render(prog, "py"), "<c13-py>", "exec"), env)  # noqa: S102
    return _norm(env["entry"](*args))


def _norm(v):
    if isinstance(v, tuple):
        return tuple(_norm(x) for x in v)
    if isinstance(v, list):
        return [_norm(x) for x in v]
    return v


# ------------------------------------------------------------------------------------ lowering
def lower_with_ctx(defn):
    import hugr.build.function as hf
    from guppylang_internals.compiler.core import CompilerContext
    from guppylang_internals.engine import ENGINE

    ENGINE.check(defn.id)
    g = hf.Module()
    ctx = CompilerContext(g)
    ctx.compile(ENGINE.checked[defn.id])
    return g, ctx


# ------------------------------------------------------------------------------------ Hugr oracle
def J(x):
    return x._to_serial_root().model_dump(mode="json")


def strip(j):
    """canonical form for equality: bounds and cached declarations dropped"""
    if isinstance(j, dict):
        return {k: strip(v) for k, v in j.items() if k not in ("b", "bound", "cached_decl", "extension_version")}
    if isinstance(j, list):
        return [strip(x) for x in j]
    return j


def canon(j):
    return json.dumps(strip(j), sort_keys=True)


def subst_json(j, targs):
    if isinstance(j, dict):
        if j.get("t") == "V":
            a = targs[j["i"]]
            if a.get("tya") != "Type":
                raise KeyError("type variable instantiated with a non-type argument")
            return a["ty"]
        if j.get("tya") == "Variable":
            return targs[j["idx"]]
        return {k: subst_json(v, targs) for k, v in j.items()}
    if isinstance(j, list):
        return [subst_json(x, targs) for x in j]
    return j


def vars_of(j, acc):
    """(kind, idx) of the variables of a serialised type / type arg: kind 'T' (type) or 'N' (bounded nat / other)"""
    if isinstance(j, dict):
        if j.get("t") == "V":
            acc.add(("T", j["i"]))
        elif j.get("t") == "R":
            acc.add(("R", j["i"]))
        elif j.get("tya") == "Variable":
            d = j.get("cached_decl") or {}
            acc.add(("T" if d.get("tp") == "Type" else "N", j["idx"]))
        for v in j.values():
            vars_of(v, acc)
    elif isinstance(j, list):
        for x in j:
            vars_of(x, acc)
    return acc


def copyable(j, fparams):
    t = j.get("t")
    if t == "V":
        return j["i"] < len(fparams) and fparams[j["i"]].get("b") == "C"
    if t == "Opaque":
        return j.get("bound") == "C"
    if t == "Sum":
        rows = j.get("rows")
        if rows is None:
            return True
        return all(copyable(x, fparams) for r in rows for x in r)
    return True


def check_hugr(h):
    """list of problems (strings) of the lowered Hugr; empty = well-formed as far as C13 is concerned"""
    import hugr.ops as ops
    import hugr.tys as ht

    problems = []

    def add(p):
        if p not in problems:
            problems.append(p)

    def func_of(n):
        while n is not None and not isinstance(h[n].op, ops.FuncDefn):
            n = h[n].parent
        return n

    for n in h:
        op = h[n].op
        if isinstance(op, ops.FuncDefn | ops.FuncDecl | ops.Module):
            continue
        fn = func_of(n)
        if fn is None:
            continue
        fname = h[fn].op.f_name
        fparams = [J(p) for p in h[fn].op.params]
        k = len(fparams)

        def scoped(j, what):
            for kind, i in sorted(vars_of(j, set())):
                if i >= k:
                    add(f"{fname}: {what} mentions variable {i}, but the function has only {k} type parameter(s)")
                elif kind == "T" and fparams[i].get("tp") != "Type":
                    add(f"{fname}: {what} uses parameter {i} as a type, it is declared {fparams[i].get('tp')}")
                elif kind == "N" and fparams[i].get("tp") == "Type":
                    add(f"{fname}: {what} uses type parameter {i} as a non-type argument")

        for i in range(h.num_out_ports(n)):
            p = n.out(i)
            try:
                kind = h.port_kind(p)
            except Exception:  # noqa: BLE001
                continue
            if not isinstance(kind, ht.ValueKind):
                continue
            jt = J(kind.ty)
            scoped(jt, f"a value of type {kind.ty}")
            for q in h.linked_ports(p):
                try:
                    kq = h.port_kind(q)
                except Exception:  # noqa: BLE001
                    continue
                if isinstance(kq, ht.ValueKind) and canon(J(kq.ty)) != canon(jt):
                    add(f"{fname}: a wire of type {kind.ty} feeds input {q.offset} of "
                        f"{type(h[q.node].op).__name__} that expects {kq.ty}")
        if not isinstance(op, ops.Call | ops.LoadFunc | ops.CallIndirect):
            # type arguments of extension ops (load_nat<n>, array ops, ...) and their cached concrete signature
            oargs = []
            if isinstance(op, ops.Custom | ops.ExtOp):
                oargs = list(op.args)
            elif callable(getattr(op, "type_args", None)):
                try:
                    oargs = list(op.type_args())
                except Exception:  # noqa: BLE001
                    oargs = []
            if oargs or isinstance(op, ops.Custom | ops.ExtOp):
                try:
                    oname = op.op_name if isinstance(op, ops.Custom) else op.op_def().name
                except Exception:  # noqa: BLE001
                    oname = type(op).__name__
                for a in oargs:
                    scoped(J(a), f"a type argument of the op {oname}")
                sig = getattr(op, "signature", None)
                if sig is not None and hasattr(sig, "_to_serial_root"):
                    scoped(J(sig), f"the signature of the op {oname}")
        if isinstance(op, ops.Call | ops.LoadFunc):
            callee = [src[0].node for _ip, src in h.incoming_links(n) if isinstance(h[src[0].node].op, ops.FuncDefn)]
            targs = [J(a) for a in op.type_args]
            for a in targs:
                scoped(a, f"a type argument of a {type(op).__name__}")
            scoped(J(op.instantiation), f"the instantiation of a {type(op).__name__}")
            if callee:
                cop = h[callee[0]].op
                cparams = [J(p) for p in cop.params]
                cname = cop.f_name
                if len(cparams) != len(targs):
                    add(f"{fname}: {type(op).__name__} of {cname} has {len(targs)} type args for {len(cparams)} parameters")
                    continue
                ok = True
                for idx, (cp, a) in enumerate(zip(cparams, targs)):
                    akind = a.get("tya")
                    if akind == "Variable":
                        i = a["idx"]
                        akind = None if i >= k else ("Type" if fparams[i].get("tp") == "Type" else "BoundedNat")
                        if akind is None:
                            ok = False
                            continue
                    if cp.get("tp") == "Type":
                        if akind != "Type":
                            add(f"{fname}: type arg {idx} of {cname} should be a type, got {a.get('tya')}")
                            ok = False
                        elif cp.get("b") == "C" and not copyable(a["ty"], fparams):
                            add(f"{fname}: type arg {idx} of {cname} must be copyable, got {a['ty']}")
                    elif cp.get("tp") == "BoundedNat":
                        if akind != "BoundedNat":
                            add(f"{fname}: type arg {idx} of {cname} should be a bounded nat, got {a.get('tya')}")
                            ok = False
                if not ok:
                    continue
                try:
                    want = subst_json(J(cop.signature.body), targs)
                except (KeyError, IndexError) as e:
                    add(f"{fname}: cannot instantiate the signature of {cname} with its type args ({e})")
                    continue
                if canon(want) != canon(J(op.instantiation)):
                    add(f"{fname}: {type(op).__name__} of {cname} is instantiated at {op.instantiation}, "
                        f"its type arguments {op.type_args} give a different signature")
    return problems


# ------------------------------------------------------------------------------------ model tie helpers
def hugr_arg_canon(j):
    """short canonical name of a serialised HUGR type argument (limited type family of the generator)"""
    if j.get("tya") == "Variable":
        return f"var{j['idx']}"
    if j.get("tya") == "BoundedNat":
        return f"nat{j['n']}"
    if j.get("tya") == "Type":
        return "ty:" + hugr_ty_canon(j["ty"])
    return "?" + json.dumps(strip(j), sort_keys=True)


def hugr_ty_canon(t):
    k = t.get("t")
    if k == "V":
        return f"var{t['i']}"
    if k == "Opaque":
        if t["id"] == "int":
            return "int"
        if t["id"] == "float64":
            return "float"
        if t["id"] == "bool":
            return "bool"
        if t["id"] in ("borrow_array", "array"):
            return "array(" + ",".join(hugr_arg_canon(a) for a in t["args"]) + ")"
    if k == "Sum" and t.get("rows") is not None and len(t["rows"]) == 1:
        return "tuple(" + ",".join(hugr_ty_canon(x) for x in t["rows"][0]) + ")"
    return "?" + json.dumps(strip(t), sort_keys=True)


def model_arg_canon(tree, cvi, cvn=None):
    """the same canonical name computed from a Guppy-level argument tree (output of the Lean model);
    `cvi(i)` = compile_variable_idx of the caller's bound variable i under the caller's mono args"""
    if tree[0] == "ty":
        return _model_ty_canon(tree[1], cvi, top=True, cvn=cvn)
    c = tree[1]
    if c[0] == "cbvar":
        # a nat const variable: the model's `const_var_to_hugr` (driver op `cv`), else compile_variable_idx
        return cvn(int(c[3])) if cvn else f"var{cvi(int(c[3]))}"
    if c[0] == "val" and c[2][0] == "int":
        return f"nat{c[2][1]}"
    return "?" + repr(tree)


def _model_ty_canon(t, cvi, top=False, cvn=None):
    pre = "ty:" if top else ""
    if t[0] == "bvar":
        return pre + f"var{cvi(int(t[2]))}"
    if t[0] == "num":
        return pre + ("float" if t[1] == "float" else "int")
    if t[0] == "opaque" and t[1] == "bool":
        return pre + "bool"
    if t[0] == "opaque" and t[1] == "array":
        el, ln = t[2], t[3]
        return pre + "array(" + model_arg_canon(ln, cvi, cvn) + "," + model_arg_canon(el, cvi, cvn) + ")"
    if t[0] == "tuple":
        return pre + "tuple(" + ",".join(_model_ty_canon(x, cvi, cvn=cvn) for x in t[2:]) + ")"
    return "?" + repr(t)


def src_hash(src: str) -> str:
    return hashlib.sha1(src.encode()).hexdigest()[:16]
