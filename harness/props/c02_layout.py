"""C02: the same program at different places / in different encodings of its source file.

A diagnostic is rendered from the lines around its span, so where the program sits in its file matters: error on the
very first line(s) (notebook cell: the imports ran earlier), on the last line without trailing newline, after many blank
lines, with CRLF line endings, tab indentation, non-ASCII text before the error column.  `layouts(src)` splits a module
into (pre, middle, post) = (leading imports/stubs, definitions, trailing top-level calls) and returns variants
(name, pre, source text, post) for `c02_run.evaluate(text, pre=pre, post=post)`."""
from __future__ import annotations

import ast
import re


def split(src: str):
    try:
        tree = ast.parse(src)
    except (SyntaxError, ValueError, RecursionError):
        return None
    body = tree.body
    defs = [i for i, n in enumerate(body) if isinstance(n, (ast.FunctionDef, ast.ClassDef)) and n.decorator_list]
    if not defs:
        return None
    last = defs[-1]
    # `pre` = the leading imports (and the no-op fixture stubs of harvested integration tests) only: everything else that runs
    # before the definitions (type variables, constants whose type strings are parsed with source locations) stays in the file
    first = 0
    while first < len(body) and (
        isinstance(body[first], (ast.Import, ast.ImportFrom))
        or (isinstance(body[first], ast.FunctionDef) and body[first].name == "_noop")
        or (isinstance(body[first], ast.Assign) and isinstance(body[first].value, ast.Name) and body[first].value.id == "_noop")
        or (isinstance(body[first], ast.Expr) and isinstance(body[first].value, ast.Constant))
    ):
        first += 1
    if first > last:
        return None
    # everything before the first decorated definition that is an import / plain helper goes to `pre`; module-level
    # assignments that the definitions need (type variables ...) stay with them unless they come before every definition
    # `post` = the trailing statements that define nothing (anything containing a def / class / lambda needs its source file)
    def defines(n):
        return any(isinstance(x, (ast.FunctionDef, ast.AsyncFunctionDef, ast.ClassDef, ast.Lambda)) for x in ast.walk(n))
    cut = len(body)
    while cut > last + 1 and not defines(body[cut - 1]):
        cut -= 1
    pre, mid, post = body[:first], body[first:cut], body[cut:]
    if not post:
        return None
    return pre, mid, post


def _unparse(nodes) -> str:
    return "\n".join(ast.unparse(n) for n in nodes)


def _no_deco(mid):
    """`@d def f` -> `def f` followed by `f = d(f)`: the definition starts on its `def` line"""
    import copy
    out = []
    for n in mid:
        n = copy.deepcopy(n)
        if isinstance(n, (ast.FunctionDef, ast.ClassDef)) and n.decorator_list:
            decos, n.decorator_list = n.decorator_list, []
            out.append(n)
            call: ast.expr = ast.Name(n.name, ast.Load())
            for d in reversed(decos):
                call = ast.Call(func=d, args=[call], keywords=[])
            out.append(ast.Assign(targets=[ast.Name(n.name, ast.Store())], value=call, lineno=0))
        else:
            out.append(n)
    return [ast.fix_missing_locations(x) for x in out]


def _tabify(text: str) -> str:
    def rep(m):
        return "\t" * (len(m.group(0)) // 4)
    return re.sub(r"(?m)^(?:    )+", rep, text)


def _unicode(text: str) -> str:
    """non-ASCII text in front of and on the lines of the program: a unicode comment line first, a unicode string statement
    in front of every simple statement line (so byte columns and character columns differ on those lines)"""
    out = ["# ✅ ünïcödé — cell"]
    for line in text.split("\n"):
        st = line.strip()
        if st and not st.startswith(("@", "def ", "class ", "if ", "elif ", "else", "for ", "while ", "with ", "try", "except", "finally",
                                     "return", "#", ")", "]", "}", "'", '"', "case ", "match ", "async ", "global ", "nonlocal ",
                                     "import ", "from ", "break", "continue", "pass", "raise", "assert", "del ", "lambda", "yield",
                                     "await")) and not st.endswith((":", ",", "(", "[", "{", "\\")):
            ind = line[: len(line) - len(line.lstrip())]
            out.append(f"{ind}'✅é'; {st}")
        else:
            out.append(line)
    return "\n".join(out)


NAMES = ["top", "top-nodeco", "last-no-newline", "blank-1", "blank-2", "blank-40", "blank-1500", "crlf", "crlf-no-newline", "tabs", "unicode",
         "top-nodeco-no-newline", "cr-tail"]


def layouts(src: str, only: list[str] | None = None):
    sp = split(src)
    if sp is None:
        return []
    pre_n, mid_n, post_n = sp
    pre, post = _unparse(pre_n) + "\n", _unparse(post_n) + "\n"
    m = _unparse(mid_n)
    out = []

    def add(name, text):
        if only is None or name in only:
            out.append((name, pre, text, post))

    add("top", m + "\n")
    try:
        nd = _unparse(_no_deco(mid_n))
        add("top-nodeco", nd + "\n")
        add("top-nodeco-no-newline", nd)
    except Exception:  # noqa: BLE001
        pass
    add("last-no-newline", m)
    for k in (1, 2, 40, 1500):
        add(f"blank-{k}", "\n" * k + m + "\n")
    add("crlf", (m + "\n").replace("\n", "\r\n"))
    add("crlf-no-newline", m.replace("\n", "\r\n"))
    add("tabs", _tabify(m) + "\n")
    add("unicode", _unicode(m) + "\n")
    add("cr-tail", m + "\n\n\n   \n")
    return out
