"""C22 — Comptime tracing enforces ownership."""
from __future__ import annotations

import ast
import json
import os
import sys

sys.path.insert(0, os.path.dirname(os.path.dirname(os.path.abspath(__file__))))
sys.path.insert(0, os.path.dirname(os.path.abspath(__file__)))
import vlib

PID = "C22"
THEOREM_MODULES = ["GuppyVerif.Props.C22"]
DRIVER = "C22"
RULE = (
    "random comptime bodies over qubits (non-copyable, non-droppable), ints (copyable) and containers of qubits: local allocation, "
    "owned / borrowed qubit, array and struct arguments; statements use (consume), borrow (gate call), reuse, return, leak, and "
    "in-place mutation of lists / structs derived from owned vs borrowed arguments. Each body is traced by the real compiler "
    "(check + lowering) and abstracted to the model's op sequence; the model's verdict (ok | alreadyUsed | leaked | frozen) is compared "
    "with the class of the real error. Non-trivial = the body contains at least one qubit that is used or leaked; distinct by source text. "
    "frozenlist: every attribute of CPython's `list` is called on a frozenlist and on a list (oracle for 'mutating')."
)
ASSUMPTIONS = [
    "the abstraction of a generated body to ops (allocation = create, owned consumption / return = use, gate call = borrow) is part of the harness; "
    "it is validated by the same-input comparison of verdicts",
    "error classes are recognised by their message ('was already used', 'is leaked', 'owned function argument')",
    "CPython 3.12 `list` mutators are found by calling each attribute on a sample list with canonical arguments and comparing contents before/after",
]
UNMODELLED = [
    "HUGR validation of successful traces (no validator for /repo output)",
    "which wire ends up where (C21/C07); only the ownership verdict is modelled",
    "deliberate circumvention through unbound base-class methods (`list.append(xs, 1)`, `list.__init__(xs, …)`) on a frozenlist",
    "nested containers deeper than one level in generated bodies",
]
MANIFEST = {
    "level_text": "Lean theorems for all traces (induction over the op list of Model/TraceOwn.lean): `noncopyable_used_at_most_once` (in every state "
    "reached by a successful trace a non-copyable object has been used at most once since its creation or last borrow-reset), "
    "`undroppable_leak_rejected` (a trace ending with an unused non-droppable object is rejected with `leaked`; the dict "
    "`unused_undroppable_objs` is exactly the set of such objects), `frozen_mutation_rejected`, `no_internal_error_partial`; "
    "`frozen_rejects_all` (decide over the regenerated table of frozenlist overrides against CPython 3.12's 12 mutating list methods). "
    "Tie: generated comptime bodies through the real tracer, verdict vs model verdict (quick 150 / thorough 3000), plus every `list` attribute "
    "exercised on a real frozenlist.",
    "level_note": "Trusted: the hand-written model of _use_wire / __init__ / update_packed_value / trace_function's leak check (mirrors the code incl. the "
    "KeyError path), the body→ops abstraction, message-based error classification. The correspondence is sampling.",
    "technique": "Lean 4 proof by induction over traces + regenerated table (T-src) + same-input correspondence with the real tracer (T-run)",
    "design_ref": "DESIGN.md §5 C22",
    "ready": False,
}

GEN = os.path.join(vlib.LEAN, "GuppyVerif", "Gen", "C22FrozenList.lean")


def extract_frozenlist(repo):
    """[(method, raises)] for every method defined in class frozenlist; raises = body is `raise GuppyComptimeError(...)`"""
    p = os.path.join(repo, "guppylang-internals", "src", "guppylang_internals", "tracing", "frozenlist.py")
    rows, bases = [], []
    for n in ast.parse(open(p).read()).body:
        if isinstance(n, ast.ClassDef) and n.name == "frozenlist":
            bases = [ast.unparse(b) for b in n.bases]
            for m in n.body:
                if isinstance(m, ast.FunctionDef):
                    body = [s for s in m.body if not (isinstance(s, ast.Expr) and isinstance(s.value, ast.Constant))]
                    raises = (len(body) == 1 and isinstance(body[0], ast.Raise) and isinstance(body[0].exc, ast.Call)
                              and ast.unparse(body[0].exc.func) == "GuppyComptimeError")
                    rows.append((m.name, raises))
    return sorted(rows), bases


def translate(ctx):
    import bootstrap

    rows, bases = extract_frozenlist(bootstrap.REPO)
    txt = "\n".join([
        "/-! GENERATED on every run by harness/props/c22.py (translate) from tracing/frozenlist.py. Do not edit. -/",
        "namespace GuppyVerif.TraceOwn",
        "",
        "/-- base classes of `frozenlist` -/",
        "def frozenBases : List String := [" + ", ".join(f'"{b}"' for b in bases) + "]",
        "",
        "/-- methods defined by `frozenlist`: (name, body is exactly `raise GuppyComptimeError(...)`) -/",
        "def frozenOverrides : List (String × Bool) := [",
        ",\n".join(f'  ("{n}", {"true" if r else "false"})' for n, r in rows),
        "]",
        "",
        "end GuppyVerif.TraceOwn",
        "",
    ])
    old = open(GEN).read() if os.path.exists(GEN) else None
    if old != txt:
        open(GEN, "w").write(txt)
    ctx.extra["frozenlist_overrides"] = len(rows)


if __name__ == "__main__":
    vlib.main(sys.modules[__name__])
