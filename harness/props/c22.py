"""C22 — Comptime tracing enforces ownership."""
from __future__ import annotations

import ast
import json
import os
import sys

sys.path.insert(0, os.path.dirname(os.path.dirname(os.path.abspath(__file__))))
sys.path.insert(0, os.path.dirname(os.path.abspath(__file__)))
import vlib

PID = "C22"
THEOREM_MODULES = ["GuppyVerif.Props.C22"]
DRIVER = "C22"
RULE = (
    "random comptime bodies over qubits (non-copyable, non-droppable), ints (copyable) and containers of qubits: local allocation, "
    "owned / borrowed qubit, array and struct arguments; statements use (consume), borrow (gate call), reuse, return, leak, and "
    "in-place mutation of lists / structs derived from owned vs borrowed arguments. Each body is traced by the real compiler "
    "(check + lowering) and abstracted to the model's op sequence; the model's verdict (ok | alreadyUsed | leaked | frozen) is compared "
    "with the class of the real error. Non-trivial = the body contains at least one qubit that is used or leaked; distinct by source text. "
    "frozenlist: every attribute of CPython's `list` is called on a frozenlist and on a list (oracle for 'mutating'). "
    "Nested frozen-ness: every argument shape up to depth 3 (arrays / structs / tuples of ints) x every path to a mutable container x owned / "
    "borrowed x mutation; owned => must be rejected as frozen, borrowed => accepted (thorough: whole grid; quick: sample biased to nesting >= 1)."
)
ASSUMPTIONS = [
    "the abstraction of a generated body to ops (allocation = create, owned consumption / return = use, gate call = borrow) is part of the harness; "
    "it is validated by the same-input comparison of verdicts",
    "error classes are recognised by their message ('was already used', 'is leaked', 'owned function argument')",
    "CPython 3.12 `list` mutators are found by calling each attribute on a sample list with canonical arguments and comparing contents before/after",
]
UNMODELLED = [
    "HUGR validation of successful traces (no validator for /repo output)",
    "which wire ends up where (C21/C07); only the ownership verdict is modelled",
    "unbound base-class calls on a frozenlist (`[].__class__.append(xs, v)`, `super(type(xs), xs).__init__(…)`) cannot be intercepted by a list "
    "subclass: probed on every run and carried as known findings (exact keys), not modelled",
    "nested containers deeper than one level in generated bodies",
]
MANIFEST = {
    "level_text": "Lean theorems for all traces (induction over the op list of Model/TraceOwn.lean): `noncopyable_used_at_most_once` (in every state "
    "reached by a successful trace a non-copyable object has been used at most once since its creation or last borrow-reset), "
    "`frozen_inherited_at_any_depth` (every mutable container reachable at any depth inside an unpacked argument carries the argument's frozen flag; "
    "so every nested mutation of an owned argument is rejected), `undroppable_leak_rejected` (a trace ending with an unused non-droppable object is rejected with `leaked`; the dict "
    "`unused_undroppable_objs` is exactly the set of such objects), `frozen_mutation_rejected`, `no_internal_error_partial`; "
    "`frozen_rejects_all` (decide over the regenerated table of frozenlist overrides against CPython 3.12's 12 mutating list methods). "
    "Tie: generated comptime bodies through the real tracer, verdict vs model verdict (quick 150 / thorough 2000), plus every `list` attribute "
    "exercised on a real frozenlist.",
    "level_note": "Trusted: the hand-written model of _use_wire / __init__ / update_packed_value / trace_function's leak check (mirrors the code incl. the "
    "KeyError path), the body→ops abstraction, message-based error classification. The correspondence is sampling.",
    "technique": "Lean 4 proof by induction over traces + regenerated table (T-src) + same-input correspondence with the real tracer (T-run)",
    "design_ref": "DESIGN.md §5 C22",
    "ready": True,
}

GEN = os.path.join(vlib.LEAN, "GuppyVerif", "Gen", "C22FrozenList.lean")


MUTATOR_ARGS = {"__init__": ([9],), "append": (9,), "extend": ([9],), "insert": (0, 9), "pop": (), "remove": (1,), "__setitem__": (0, 9),
                "__delitem__": (0,), "__iadd__": ([9],), "__imul__": (2,), "clear": (), "reverse": (), "sort": ()}


def extract_frozenlist(repo):
    """[(method, rejects)] for every `list` method the class `frozenlist` overrides (its own namespace at run time;
    the AST only gives the base classes); `rejects` is BEHAVIOUR: calling it on a real frozenlist instance of the tree under check
    raises GuppyComptimeError and leaves the contents unchanged."""
    from guppylang_internals.error import GuppyComptimeError
    from guppylang_internals.tracing.frozenlist import frozenlist

    p = os.path.join(repo, "guppylang-internals", "src", "guppylang_internals", "tracing", "frozenlist.py")
    bases = []
    for n in ast.parse(open(p).read()).body:
        if isinstance(n, ast.ClassDef) and n.name == "frozenlist":
            bases = [ast.unparse(b) for b in n.bases]
    # the names the class overrides, however they were installed (method definitions, `setattr` from a table, …):
    # the class's own namespace, restricted to attributes `list` has too
    names = [k for k, v in vars(frozenlist).items() if callable(v) and hasattr(list, k) and k not in ("__new__", "__class_getitem__")]
    rows = []
    for name in sorted(set(names)):
        xs = frozenlist([3, 1, 2])
        try:
            getattr(xs, name)(*MUTATOR_ARGS.get(name, ()))
            rejects = False
        except GuppyComptimeError:
            rejects = list(xs) == [3, 1, 2]
        except Exception:  # noqa: BLE001
            rejects = False
        rows.append((name, rejects))
    return rows, bases


def extract_frozen_rule(repo):
    """trace_function: the `frozen=` argument of the `unpack_guppy_object` call on the function inputs (AST), evaluated
    for the three ways an argument can be passed: owned (`@owned`), borrowed (inout), by value (copyable: no flag).
    -> {mode: bool} ; unrecognised -> None"""
    from guppylang_internals.tys.ty import InputFlags

    p = os.path.join(repo, "guppylang-internals", "src", "guppylang_internals", "tracing", "function.py")
    tree = ast.parse(open(p).read())
    expr = None
    for n in ast.walk(tree):
        if isinstance(n, ast.FunctionDef) and n.name == "trace_function":
            for c in ast.walk(n):
                if isinstance(c, ast.Call) and ast.unparse(c.func) == "unpack_guppy_object":
                    for kw in c.keywords:
                        if kw.arg == "frozen":
                            expr = kw.value
    if expr is None:
        return None

    class Inp:
        def __init__(self, flags):
            self.flags = flags

    out = {}
    for mode, flags in (("owned", InputFlags.Owned), ("borrowed", InputFlags.Inout), ("byValue", InputFlags.NoFlags)):
        try:
            out[mode] = bool(eval(compile(ast.Expression(expr), "<frozen-rule>", "eval"), {"InputFlags": InputFlags, "inp": Inp(flags)}))
        except Exception:  # noqa: BLE001
            return None
    return out


def translate(ctx):
    import bootstrap

    rows, bases = extract_frozenlist(bootstrap.REPO)
    rule = extract_frozen_rule(bootstrap.REPO)
    txt = "\n".join([
        "/-! GENERATED on every run by harness/props/c22.py (translate) from tracing/frozenlist.py. Do not edit. -/",
        "namespace GuppyVerif.TraceOwn",
        "",
        "/-- base classes of `frozenlist` -/",
        "def frozenBases : List String := [" + ", ".join(f'"{b}"' for b in bases) + "]",
        "",
        "/-- methods overridden by `frozenlist`: (name, calling it on a real instance raises GuppyComptimeError and leaves it unchanged) -/",
        "def frozenOverrides : List (String × Bool) := [",
        ",\n".join(f'  ("{n}", {"true" if r else "false"})' for n, r in rows),
        "]",
        "",
        "/-- how an argument is passed to a comptime function -/",
        "inductive ArgMode where | owned | borrowed | byValue deriving DecidableEq, Repr",
        "",
        "/-- `trace_function`: the `frozen=` expression of the inputs' `unpack_guppy_object` call, evaluated per mode;",
        "    `none`: the expression was not found / could not be evaluated -/",
        "def frozenRule : ArgMode → Option Bool",
        *([f"  | .{m} => some {'true' if v else 'false'}" for m, v in rule.items()] if rule else ["  | _ => none"]),
        "",
        "end GuppyVerif.TraceOwn",
        "",
    ])
    old = open(GEN).read() if os.path.exists(GEN) else None
    if old != txt:
        open(GEN, "w").write(txt)
    ctx.extra["frozenlist_overrides"] = len(rows)



# ====================================================================== tie (T-run)
PRELUDE = (
    "from guppylang.std.quantum import qubit, h, measure, discard, discard_array\n"
    "@guppy.struct\nclass SQ:\n    q: qubit\n    n: int\n"
    "@guppy\ndef happly(qs: array[qubit, 2]) -> None:\n    h(qs[0])\n"
    "@guppy\ndef eat2(qs: array[qubit, 2] @owned) -> None:\n    discard_array(qs)\n"
)


class Gen:
    """Generates a comptime body together with its abstraction to model ops."""

    def __init__(self, rng):
        self.rng = rng
        self.ops = []       # model ops
        self.n = 0          # next model id
        self.env = {}       # qubit-valued Python expression -> model id
        self.lists = {}     # list name -> frozen?
        self.structs = {}   # struct name -> frozen?
        self.params = []
        self.body = []
        self.end = []       # closures run at the end (borrowed inputs), in parameter order
        self.fresh = 0
        self.touched = False
        self.used = set()   # generator-side guess of consumed ids (only steers the distribution)

    def create(self, c, d):
        self.ops.append(f"c{int(c)}{int(d)}")
        self.n += 1
        return self.n - 1

    def use(self, i):
        self.ops.append(f"u{i}")
        self.used.add(i)

    # ---- parameters
    def add_param(self, kind):
        if kind == "qo":
            nm = f"qo{len(self.params)}"
            self.params.append(f"{nm}: qubit @owned")
            self.env[nm] = self.create(0, 0)
        elif kind == "qb":
            nm = f"qb{len(self.params)}"
            self.params.append(f"{nm}: qubit")
            i = self.create(0, 0)
            self.env[nm] = i
            self.end.append(lambda nm=nm: self.use(self.env[nm]))
        elif kind in ("ao", "ab"):
            nm = f"{kind}{len(self.params)}"
            self.params.append(f"{nm}: array[qubit, 2]" + (" @owned" if kind == "ao" else ""))
            a = self.create(0, 0)
            self.use(a)
            for k in range(2):
                self.env[f"{nm}[{k}]"] = self.create(0, 0)
            self.lists[nm] = kind == "ao"
            if kind == "ab":
                def fin(nm=nm):
                    for k in range(2):
                        self.use(self.env[f"{nm}[{k}]"])
                    self.use(self.create(0, 0))
                self.end.append(fin)
        elif kind in ("so", "sb"):
            nm = f"{kind}{len(self.params)}"
            self.params.append(f"{nm}: SQ" + (" @owned" if kind == "so" else ""))
            a = self.create(0, 0)
            self.use(a)
            self.env[f"{nm}.q"] = self.create(0, 0)
            self.create(1, 1)
            self.structs[nm] = kind == "so"
            if kind == "sb":
                def fin(nm=nm):
                    self.use(self.env[f"{nm}.q"])
                    self.use(self.create(0, 0))
                self.end.append(fin)
        elif kind == "x":
            self.params.append(f"x{len(self.params)}: int")
            self.create(1, 1)

    # ---- statements
    def pick(self):
        """a qubit-valued expression: mostly one that is still live"""
        if not self.env:
            return None
        live = sorted(e for e in self.env if self.env[e] not in self.used)
        if live and self.rng.random() < 0.85:
            return self.rng.choice(live)
        return self.rng.choice(sorted(self.env))

    def stmt(self):
        r = self.rng
        k = r.choice(["alloc", "gate", "gate", "consume", "measure", "setitem", "append", "setfield", "happly", "eat2"])
        if k == "alloc":
            nm = f"q{self.fresh}"
            self.fresh += 1
            self.body.append(f"{nm} = qubit()")
            self.env[nm] = self.create(0, 0)
            self.touched = True
        elif k in ("gate", "consume", "measure"):
            e = self.pick()
            if e is None:
                return
            self.touched = True
            if k == "gate":
                self.body.append(f"h({e})")
                self.ops.append(f"b{self.env[e]}")
                self.n += 1      # the model's borrow allocates the object of the returned wire
            elif k == "consume":
                self.body.append(f"discard({e})")
                self.use(self.env[e])
            else:
                self.body.append(f"m{self.fresh} = measure({e})")
                self.fresh += 1
                self.use(self.env[e])
                self.create(1, 1)
        elif k == "setitem" and self.lists:
            nm = r.choice(sorted(self.lists))
            idx = r.randrange(2)
            self.body.append(f"{nm}[{idx}] = qubit()")
            new = self.create(0, 0)
            self.ops.append(f"m{int(self.lists[nm])}")
            self.env[f"{nm}[{idx}]"] = new    # the previous element object is no longer reachable by name
            self.touched = True
        elif k == "append" and any(self.lists.values()):
            nm = r.choice(sorted(n for n, f in self.lists.items() if f))
            self.body.append(f"{nm}.append(qubit())")
            self.create(0, 0)
            self.ops.append("m1")
            self.touched = True
        elif k == "setfield" and self.structs:
            nm = r.choice(sorted(self.structs))
            self.body.append(f"{nm}.q = qubit()")
            new = self.create(0, 0)
            self.ops.append(f"m{int(self.structs[nm])}")
            self.env[f"{nm}.q"] = new
            self.touched = True
        elif k in ("happly", "eat2") and self.lists:
            nm = r.choice(sorted(self.lists))
            es = [self.env[f"{nm}[{j}]"] for j in range(2)]
            self.body.append(f"{k}({nm})")
            for e in es:
                self.use(e)
            self.use(self.create(0, 0))
            if k == "happly":
                self.use(self.create(0, 0))
                for e in es:
                    self.use(self.create(0, 0))
                    self.ops.append(f"r{e}")
                    self.used.discard(e)
            self.touched = True

    def finish(self):
        r = self.rng
        kind = r.choice(["none", "none", "none", "q", "tuple"])
        names = sorted(e for e in self.env if "[" not in e and "." not in e) or sorted(self.env)
        if r.random() < 0.85:
            names = [e for e in names if self.env[e] not in self.used and not e.startswith("qb")]
        rets = []
        if kind == "q" and names:
            rets = [r.choice(names)]
        elif kind == "tuple" and names:
            a = r.choice(names)
            rest = [e for e in names if self.env[e] != self.env[a]]
            rets = [a, r.choice(rest) if rest and r.random() < 0.85 else r.choice(names)]
        if r.random() < 0.7:
            # mostly-valid bias: consume what this function owns, has not used yet and does not return
            keep = {self.env[e] for e in rets}
            for e in sorted(self.env):
                borrowed = e.startswith("qb") or e.startswith("ab") or e.startswith("sb")
                if not borrowed and self.env[e] not in self.used and self.env[e] not in keep and r.random() < 0.9:
                    self.body.append(f"discard({e})")
                    self.use(self.env[e])
        if len(rets) == 1:
            self.body.append(f"return {rets[0]}")
            self.use(self.env[rets[0]])
            ret = "qubit"
        elif len(rets) == 2:
            self.body.append(f"return {rets[0]}, {rets[1]}")
            self.use(self.env[rets[0]])
            self.use(self.env[rets[1]])
            self.use(self.create(0, 0))
            ret = "tuple[qubit, qubit]"
        else:
            if not self.body:
                self.body.append("pass")
            ret = "None"
        for f in self.end:
            f()
        src = PRELUDE + "@guppy.comptime\ndef f(" + ", ".join(self.params) + f") -> {ret}:\n" + "".join("    " + l + "\n" for l in self.body)
        return src, "trace " + " ".join(self.ops)


def gen_case(rng):
    g = Gen(rng)
    for _ in range(rng.choice([0, 1, 1, 2, 2, 3])):
        g.add_param(rng.choice(["qo", "qb", "qb", "ao", "ab", "so", "sb", "x"]))
    for _ in range(rng.randrange(0, 6)):
        g.stmt()
    # mostly-valid bias: with probability 2/3 consume every still-unused owned local before returning
    return g.finish() + (g.touched or bool(g.env),)


def real_verdict(src):
    import feed
    from guppylang_internals.error import GuppyComptimeError, GuppyError

    m = None
    try:
        m = feed.load(src)
        try:
            m.f.check()
            feed.lower(m.f)
            return "ok", ""
        except (GuppyError, GuppyComptimeError) as e:
            msg = str(getattr(e, "error", None).msg) if isinstance(e, GuppyError) and hasattr(getattr(e, "error", None), "msg") else str(e)
            for pat, cls in (("was already used", "alreadyUsed"), ("is leaked", "leaked"), ("owned function argument", "frozen")):
                if pat in msg:
                    return cls, msg[:120]
            return "other:" + feed.err_class(e), msg[:160]
        except BaseException as e:  # noqa: BLE001
            return "crash:" + type(e).__name__, str(e)[:160]
    except BaseException as e:  # noqa: BLE001
        return "loadfail:" + type(e).__name__, str(e)[:160]
    finally:
        if m is not None:
            feed.unload(m)


def list_mutators():
    """independent oracle for 'mutating list method of this CPython': call every attribute of `list` on a
    sample list with canonical arguments; mutating = the contents differ afterwards"""
    args = {"append": (9,), "extend": ([9],), "insert": (0, 9), "pop": (), "remove": (1,), "__setitem__": (0, 9),
            "__delitem__": (0,), "__iadd__": ([9],), "__imul__": (2,), "__init__": ([9],), "index": (1,), "count": (1,),
            "__getitem__": (0,), "__contains__": (1,), "__add__": ([9],), "__mul__": (2,), "__rmul__": (2,),
            "__eq__": ([1],), "__ne__": ([1],), "__lt__": ([1],), "__le__": ([1],), "__gt__": ([1],), "__ge__": ([1],),
            "__getattribute__": ("append",), "__format__": ("",), "__class_getitem__": (int,), "__setattr__": None,
            "__delattr__": None, "__reduce_ex__": (2,), "__new__": None, "__init_subclass__": None, "__subclasshook__": None}
    out = []
    for name in dir(list):
        a = args.get(name, ())
        if a is None:
            continue
        xs = [3, 1, 2]
        try:
            getattr(xs, name)(*a)
        except Exception:  # noqa: BLE001
            pass
        if xs != [3, 1, 2]:
            out.append(name)
    return sorted(out)


def frozen_behaviour():
    """call each mutator on a real frozenlist: must raise GuppyComptimeError and leave it unchanged"""
    from guppylang_internals.error import GuppyComptimeError
    from guppylang_internals.tracing.frozenlist import frozenlist

    res = {}
    for name, a in MUTATOR_ARGS.items():
        xs = frozenlist([3, 1, 2])
        try:
            getattr(xs, name)(*a)
            r = "no-error"
        except GuppyComptimeError:
            r = "rejected"
        except Exception as e:  # noqa: BLE001
            r = "other:" + type(e).__name__
        if list(xs) != [3, 1, 2]:
            r += "+mutated"
        res[name] = r
    return res


# Mutations that go around the instance's methods (unbound base-class calls).  Python offers no way for a `list`
# subclass to intercept `list.append(xs, v)`, so these are expected KNOWN FINDINGS (exact keys), not silently skipped.
BYPASS = [
    ("unbound list.append", "[].__class__.append(xs, xs[0])"),
    ("unbound list.__init__", "[].__class__.__init__(xs, [xs[1], xs[0]])"),
    ("bound __init__", "xs.__init__([xs[1], xs[0]])"),
    ("bound __init__ via super", "super(type(xs), xs).__init__([xs[1], xs[0]])"),
]


def tie_bypass(ctx):
    for name, stmt in BYPASS:
        src = f"@guppy.comptime\ndef f(xs: array[int, 2] @owned) -> None:\n    {stmt}\n"
        rv, detail = real_verdict(src)
        ctx.count(["bypass", name, stmt], nontrivial=True, kind=f"bypass:{rv.split(':')[0]}")
        if rv == "ok":
            ctx.violation(f"bypass:{stmt}", f"in-place mutation of a value derived from an owned argument is accepted: `{stmt}` ({name})",
                          {"src": src, "stmt": stmt, "real": rv, "detail": detail})
        elif rv.startswith("crash"):
            ctx.violation(f"bypass:{stmt}", f"the tracer crashes on `{stmt}`: {rv} {detail}", {"src": src, "stmt": stmt, "real": rv, "detail": detail})


SPEC_MUTATORS = sorted(["__init__", "append", "clear", "extend", "insert", "pop", "remove", "reverse", "sort",
                        "__setitem__", "__delitem__", "__iadd__", "__imul__"])


# ---------------------------------------------------------------------- nested frozen-ness (unpack_guppy_object)
# Shapes: ("L",) | ("A", e) | ("S", a, b) | ("T", a, b); leaves are ints.  Paths: "e" (element), "0"/"1" (field / item).
LIST_MUTATORS = ["{x}[0] = {x}[1]", "{x}.append({x}[0])", "{x}.pop()", "{x}.clear()", "{x}.extend([])", "{x}.insert(0, {x}[0])",
                 "{x}.remove({x}[0])", "{x}.reverse()", "{x}.sort()", "del {x}[0]", "{x} += []", "{x} *= 1"]
SAFE_LIST_MUTATORS = ["{x}[0] = {x}[1]", "{x}.reverse()"]       # keep the type of a borrowed argument intact
STRUCT_MUTATORS = ["{x}.a = {x}.a", "{x}.b = {x}.b"]


def all_shapes(depth):
    if depth == 0:
        return [("L",)]
    sub = all_shapes(depth - 1)
    small = [("L",)] + [s for s in sub if s != ("L",)][:3]
    out = [("L",)] + [("A", e) for e in sub]
    for k in ("S", "T"):
        out += [(k, a, b) for a in small for b in small]
    seen, res = set(), []
    for x in out:
        if x not in seen:
            seen.add(x)
            res.append(x)
    return res


def has_array(sh):
    return sh[0] == "A" or any(has_array(c) for c in sh[1:])


def container_paths(sh, prefix=()):
    """paths to every mutable container (list / struct object) inside the unpacked value"""
    out = []
    if sh[0] in ("A", "S"):
        out.append(prefix)
    if sh[0] == "A":
        out += container_paths(sh[1], prefix + ("e",))
    elif sh[0] in ("S", "T"):
        out += container_paths(sh[1], prefix + ("0",))
        out += container_paths(sh[2], prefix + ("1",))
    return out


def shape_tokens(sh):
    return sh[0] + "".join(" " + shape_tokens(c) for c in sh[1:])


class TyGen:
    def __init__(self):
        self.classes, self.names = [], {}

    def ty(self, sh):
        if sh[0] == "L":
            return "int"
        if sh[0] == "A":
            return f"array[{self.ty(sh[1])}, 2]"
        if sh[0] == "T":
            return f"tuple[{self.ty(sh[1])}, {self.ty(sh[2])}]"
        if sh not in self.names:
            a, b = self.ty(sh[1]), self.ty(sh[2])
            nm = f"St{len(self.names)}"
            self.names[sh] = nm
            self.classes.append(f"@guppy.struct\nclass {nm}:\n    a: {a}\n    b: {b}\n")
        return self.names[sh]


def path_expr(sh, path, rng):
    x = "v"
    for st in path:
        if st == "e":
            x += f"[{rng.randrange(2)}]"
            sh = sh[1]
        else:
            i = int(st)
            x += (".a" if i == 0 else ".b") if sh[0] == "S" else f"[{i}]"
            sh = sh[1 + i]
    return x, sh


def nested_cases(ctx):
    rng = ctx.rng
    grid = []
    for sh in all_shapes(3):
        for path in container_paths(sh):
            grid.append((sh, path))
    grid = [g for g in grid if len(g[1]) <= 4]
    if ctx.quick:
        deep = [g for g in grid if len(g[1]) >= 1]
        grid = rng.sample(deep, min(45, len(deep))) + rng.sample(grid, 10)
    # arguments passed BY VALUE (every field copyable: neither `@owned` nor borrowed): structs / tuples of ints to
    # depth 3, every struct object inside; always all of them (also in the quick tier)
    byval = []
    sub = [("L",), ("S", ("L",), ("L",)), ("T", ("L",), ("L",)), ("T", ("S", ("L",), ("L",)), ("L",))]
    for k in ("S", "T"):
        for a in sub:
            for b in sub[:3]:
                sh = (k, a, b)
                byval += [(sh, path) for path in container_paths(sh)]
    byval += [(("S", ("L",), ("L",)), ())]
    grid = grid + [g for g in byval if g not in grid]
    cases = []
    for sh, path in grid:
        for owned in (True, False):
            if not owned and not has_array(sh):
                continue          # a copyable argument cannot be borrowed: it is always "owned"
            tg = TyGen()
            T = tg.ty(sh)
            x, target = path_expr(sh, path, rng)
            if target[0] == "A":
                muts = LIST_MUTATORS if owned else SAFE_LIST_MUTATORS
            else:
                muts = STRUCT_MUTATORS + (["{x}.a = 7", "{x}.a += 1"] if target[1] == ("L",) else [])
            mut = rng.choice(muts) if ctx.quick or not owned else None
            for mtxt in ([mut] if mut else muts[:4] + [rng.choice(muts[4:])] if target[0] == "A" else muts):
                ann = T + (" @owned" if owned and has_array(sh) else "")
                src = ("".join(tg.classes) + f"@guppy.comptime\ndef f(v: {ann}) -> None:\n    " + mtxt.format(x=x) + "\n")
                cases.append((src, f"unpack {int(owned)} {shape_tokens(sh)} {' '.join(path)}".strip(), len(path)))
    return cases


def tie_nested(ctx):
    cases = nested_cases(ctx)
    corpus = os.path.join(vlib.VERIF, "corpus", "c22_nested")
    if os.path.isdir(corpus):
        for fn in sorted(os.listdir(corpus)):
            for r in json.load(open(os.path.join(corpus, fn))):
                cases.insert(0, (r["src"], r["req"], r.get("depth", 1)))
    if ctx.replay_in and "req" in ctx.replay_in.get("replay", {}):
        r = ctx.replay_in["replay"]
        cases.insert(0, (r["src"], r["req"], r.get("depth", 1)))
    model = ctx.driver(DRIVER, [c[1] for c in cases])
    for (src, req, depth), mv in zip(cases, model):
        rv, detail = real_verdict(src)
        owned = req.split()[1] == "1"
        orc = "frozen" if owned else "ok"      # the property's literal reading: derived from an owned argument => rejected
        ctx.count(["nested", src], nontrivial=depth >= 1, kind=f"nested:d{depth}:{mv}/{rv.split(':')[0]}")
        rep = {"src": src, "req": req, "depth": depth, "model": mv, "real": rv, "detail": detail, "oracle": orc}
        if rv.startswith("crash") or rv.startswith("loadfail"):
            ctx.violation("nested:" + src, f"the tracer crashes ({rv}: {detail}) on\n{src}", rep)
        elif rv != orc:
            what = ("an in-place mutation of a value derived from an OWNED argument is accepted" if owned
                    else "a mutation of a value derived from a BORROWED argument is rejected")
            ctx.violation("nested:" + src, f"{what} (nesting depth {depth}): real `{rv}` ({detail}), required `{orc}`:\n{src}", rep)
        if rv != mv:
            ctx.broke(f"correspondence unpack/mutateAt vs unpack_guppy_object: model {mv}, real {rv} on `{req}`")


# ---------------------------------------------------------------------- linear leaves at every nesting position
# Leaves: I int, Q qubit, Z array[qubit, 0] (zero-length: `unpack_guppy_object` hands the array object itself out),
# Y array[int, 0] (droppable, not copyable), M empty struct.  Containers: A (array of 2), S (struct), T (tuple).
# A value of such a type arrives as an owned parameter, a borrowed parameter or the result of a call; every linear
# leaf is then consumed, borrowed, leaked, consumed twice or returned.  (Generic-size arrays cannot reach a comptime
# function: "Generic comptime functions" are rejected; noted in notes/C22.md.)
LEAF_TY = {"I": "int", "Q": "qubit", "Z": "array[qubit, 0]", "Y": "array[int, 0]", "M": "Emp"}
LEAF_FLAGS = {"I": (1, 1), "Q": (0, 0), "Z": (0, 0), "Y": (0, 1), "M": (1, 1)}
LIN_PRELUDE = (
    "from guppylang.std.quantum import qubit, h, discard\n"
    "@guppy.struct\nclass Emp:\n    pass\n"
    "@guppy.declare\ndef consume(qs: array[qubit, 0] @owned) -> None: ...\n"
    "@guppy.declare\ndef peek(qs: array[qubit, 0]) -> None: ...\n"
    "@guppy.declare\ndef consume_y(ys: array[int, 0] @owned) -> None: ...\n"
)


class LinTy(TyGen):
    def ty(self, sh):
        if sh[0] in LEAF_TY:
            return LEAF_TY[sh[0]]
        return super().ty(sh)


def lin_shapes(rng, depth):
    if depth == 0 or rng.random() < 0.25:
        return (rng.choice(["Q", "Z", "Z", "I", "Y", "M"]),)
    k = rng.choice(["A", "S", "T", "S", "T"])
    if k == "A":
        return ("A", lin_shapes(rng, depth - 1))
    return (k, lin_shapes(rng, depth - 1), lin_shapes(rng, depth - 1))


def lin_leaves(sh, expr):
    """[(leaf kind, access expression)] in unpacking order"""
    if sh[0] in LEAF_TY:
        return [(sh[0], expr)]
    if sh[0] == "A":
        return lin_leaves(sh[1], expr + "[0]") + lin_leaves(sh[1], expr + "[1]")
    sub = (".a", ".b") if sh[0] == "S" else ("[0]", "[1]")
    return lin_leaves(sh[1], expr + sub[0]) + lin_leaves(sh[2], expr + sub[1])


def lin_copyable(sh):
    if sh[0] in LEAF_TY:
        return LEAF_FLAGS[sh[0]][0] == 1
    return sh[0] != "A" and all(lin_copyable(c) for c in sh[1:])


def gen_linear_case(rng):
    sh = lin_shapes(rng, rng.choice([0, 1, 1, 2, 2, 3]))
    tg = LinTy()
    T = tg.ty(sh)
    source = rng.choice(["owned", "owned", "borrowed", "call"])
    if lin_copyable(sh) and source != "call":
        source = "owned"            # a copyable argument is never borrowed
    ops, body, n = [], [], 0
    leaves = []
    for kind, expr in lin_leaves(sh, "v"):
        c, d = LEAF_FLAGS[kind]
        ops.append(f"c{c}{d}")
        leaves.append((kind, expr, n))
        n += 1
    decl = ""
    if source == "call":
        decl = f"@guppy.declare\ndef mk() -> {T}: ...\n"
        body.append("v = mk()")
        params = ""
    else:
        params = f"v: {T}" + (" @owned" if source == "owned" and not lin_copyable(sh) else "")
    ret, ret_leaf = "None", None
    lin = [l for l in leaves if l[0] in ("Q", "Z", "Y")]
    if lin and source != "borrowed" and rng.random() < 0.25:
        ret_leaf = rng.choice(lin)
    for kind, expr, i in leaves:
        if kind not in ("Q", "Z", "Y") or (ret_leaf and i == ret_leaf[2]):
            continue
        act = rng.choice(["consume", "consume", "consume", "consume", "borrow+consume", "borrow+consume", "leak", "leak", "borrow+leak", "twice"] if source != "borrowed"
                         else ["none", "none", "borrow", "consume"])
        use_fn = {"Q": "discard", "Z": "consume", "Y": "consume_y"}[kind]
        if kind == "Y" and "borrow" in act:
            act = "consume"
        if "borrow" in act:
            body.append(f"{'h' if kind == 'Q' else 'peek'}({expr})")
            ops.append(f"b{i}")
            n += 1
        if "consume" in act or act == "twice":  # "borrow+leak": borrowed, then never consumed
            body.append(f"{use_fn}({expr})")
            ops.append(f"u{i}")
        if act == "twice":
            body.append(f"{use_fn}({expr})")
            ops.append(f"u{i}")
    if ret_leaf:
        body.append(f"return {ret_leaf[1]}")
        ops.append(f"u{ret_leaf[2]}")
        ret = LEAF_TY[ret_leaf[0]]
    if source == "borrowed":
        for kind, expr, i in leaves:        # the argument is rebuilt and handed back: every leaf is used
            ops.append(f"u{i}")
    if not body:
        body.append("pass")
    src = (LIN_PRELUDE + "".join(tg.classes) + decl + f"@guppy.comptime\ndef f({params}) -> {ret}:\n"
           + "".join("    " + l + "\n" for l in body))
    return src, "trace " + " ".join(ops), bool(lin)


def tie_nested_linear(ctx):
    cases = []
    corpus = os.path.join(vlib.VERIF, "corpus", "c22_linear")
    if os.path.isdir(corpus):
        for fn in sorted(os.listdir(corpus)):
            for r in json.load(open(os.path.join(corpus, fn))):
                cases.append((r["src"], r["ops"], True))
    if ctx.replay_in and ctx.replay_in.get("replay", {}).get("family") == "linear":
        cases.append((ctx.replay_in["replay"]["src"], ctx.replay_in["replay"]["ops"], True))
    for _ in range(ctx.n(120, 1500)):
        cases.append(gen_linear_case(ctx.rng))
    seen, uniq = set(), []
    for c in cases:
        if c[0] not in seen:
            seen.add(c[0])
            uniq.append(c)
    model = ctx.driver(DRIVER, [c[1] for c in uniq])
    for (src, ops, nt), mv in zip(uniq, model):
        rv, detail = real_verdict(src)
        body = src[len(LIN_PRELUDE):]
        zero = "array[qubit, 0]" in body
        ctx.count(["linear", body], nontrivial=nt, kind=f"linear{'0' if zero else ''}:{mv}/{rv.split(':')[0]}")
        rep = {"family": "linear", "src": src, "ops": ops, "model": mv, "real": rv, "detail": detail}
        if rv.startswith("crash") or rv.startswith("loadfail"):
            ctx.violation("linear:" + body, f"the tracer crashes ({rv}: {detail}) on\n{body}", rep)
        elif rv != mv:
            orc = oracle(ops)
            if rv != orc:
                ctx.violation("linear:" + body, f"ownership verdict of the real tracer is `{rv}` ({detail}) but the property requires `{orc}` for\n{body}", rep)
            ctx.broke(f"correspondence Model/TraceOwn.lean vs tracer (nested linear leaves): model {mv}, real {rv} on ops `{ops}`")


def tie(ctx):
    # ---- frozenlist: oracle for the fixed list of Spec/C22.lean, and the real class's behaviour
    muts = list_mutators()      # every attribute of `list` that can change the list, `__init__` (re-initialisation) included
    ctx.extra["cpython_list_mutators"] = muts
    if muts != SPEC_MUTATORS:
        ctx.broke(f"Spec/C22.lean mutatingListMethods {SPEC_MUTATORS} is not this CPython's set of mutating list methods {muts}")
    for name, r in frozen_behaviour().items():
        ctx.count(["frozenlist", name], nontrivial=True, kind="frozenlist:" + r)
        if r != "rejected":
            ctx.violation(f"frozenlist:{name}", f"frozenlist.{name} on a value derived from an owned argument: {r} (expected GuppyComptimeError, unchanged)",
                          {"method": name, "result": r})
    # ---- traces
    cases = []
    corpus = os.path.join(vlib.VERIF, "corpus", "c22")
    if os.path.isdir(corpus):
        for fn in sorted(os.listdir(corpus)):
            for r in json.load(open(os.path.join(corpus, fn))):
                cases.append((r["src"], r["ops"], True))
    if ctx.replay_in and "src" in ctx.replay_in.get("replay", {}):
        cases.append((ctx.replay_in["replay"]["src"], ctx.replay_in["replay"]["ops"], True))
    for _ in range(ctx.n(150, 2000)):
        cases.append(gen_case(ctx.rng))
    seen, uniq = set(), []
    for c in cases:
        if c[0] not in seen:
            seen.add(c[0])
            uniq.append(c)
    model = ctx.driver(DRIVER, [c[1] for c in uniq])
    for (src, ops, nt), mv in zip(uniq, model):
        rv, detail = real_verdict(src)
        body = src[len(PRELUDE):] if src.startswith(PRELUDE) else src
        ctx.count(body, nontrivial=nt, kind=f"{mv}/{rv.split(':')[0]}")
        rep = {"src": src, "ops": ops, "model": mv, "real": rv, "detail": detail}
        if rv.startswith("crash") or rv.startswith("loadfail"):
            ctx.violation("trace:" + body, f"the tracer crashes ({rv}: {detail}) on\n{body}", rep)
        elif rv != mv:
            # oracle: the property's literal reading, independent of the model: recomputed from the ops
            orc = oracle(ops)
            if rv != orc:
                ctx.violation("trace:" + body, f"ownership verdict of the real tracer is `{rv}` ({detail}) but the property requires `{orc}` for\n{body}", rep)
            ctx.broke(f"correspondence Model/TraceOwn.lean vs tracer: model {mv}, real {rv} on ops `{ops}`")
    tie_nested(ctx)
    tie_bypass(ctx)
    tie_nested_linear(ctx)


def oracle(line):
    """Literal reading of the property on the abstract trace, written independently of the Lean model:
    first event wins — second use of a non-copyable value since it was created / handed back; an in-place
    mutation of a frozen value; at the end a non-droppable value that was created / handed back and not used."""
    objs = []   # [copyable, droppable, uses]
    for t in line.split()[1:]:
        k, a = t[0], t[1:]
        if k == "c":
            objs.append([a[0] == "1", a[1] == "1", 0])
        elif k in "ub":
            o = objs[int(a)]
            if o[2] >= 1 and not o[0]:
                return "alreadyUsed"
            o[2] += 1
            if k == "b":
                o[2] = 0
                objs.append([o[0], o[1], 1])
        elif k == "r":
            objs[int(a)][2] = 0
        elif k == "m" and a == "1":
            return "frozen"
    return "leaked" if any(not o[1] and o[2] == 0 for o in objs) else "ok"


if __name__ == "__main__":
    vlib.main(sys.modules[__name__])
