"""C05 — Side effects happen once each, in Python's evaluation order.

Reuses the machinery of c03.py (real CFGBuilder driven directly, interpreter for the real CFG, CPython oracle with
instrumented external functions, Lean driver C03).  What is specific here:

  * generator profile "c05": mostly straight-line statements whose expressions interleave several external calls with
    operators, and/or, conditional expressions, chained comparisons and walrus (few loops, deeper expressions);
  * the oracle compares the CALL SEQUENCE only: the list of (function, argument values, result) the real CFG performs
    against the list CPython performs for the same source and arguments -- every call exactly as often and in the same
    order (the result of the i-th call depends on i, so a reordering also shows in the recorded results).

Every disagreement is a VIOLATION keyed by the input: defect D9 (lifted sub-expressions hoisted before side-effecting left
siblings, /repo fix f9e33c1; middle operand of a chained comparison evaluated twice, /repo fix 7c8aeda) is repaired, its
witnesses are regression inputs (corpus/c05/d9_fixed.json, call_counts.json) and ~20% of the generated programs have its shapes.
"""
from __future__ import annotations

import os
import sys

sys.path.insert(0, os.path.dirname(os.path.dirname(os.path.abspath(__file__))))
sys.path.insert(0, os.path.dirname(os.path.abspath(__file__)))
import vlib
import c03 as base

PID = "C05"
THEOREM_MODULES = ["GuppyVerif.Props.C05"]
DRIVER = "C03"
RULE = (
    "case = (generated program `def main(x, y, z)`, returns_none flag, argument store); generator biased to expressions with "
    "calls: 1-7 statements (assignments, augmented assignments, expression statements, returns, a few if/while/for) whose "
    "expressions have depth 2-4 and interleave external calls f,g,h,k (int) / c,p,q (bool) with + - *, comparisons, "
    "and/or (2-3 operands), not, conditional expressions, chained comparisons, walrus and nested call arguments; ~20% of the "
    "programs deliberately have the shapes of the former defect D9 (repaired by /repo f9e33c1, 7c8aeda; extended by 7121677: operands that read mutable state or use operators, 6f37109: old value of `xs[i] op= <lifted rhs>`, 2bb14bb: operands left of a stored operand): a lifted operand right of "
    "a sibling that calls or reads a variable it assigns (binary operators, comparisons, both call arguments, `x += (x := e)`, "
    "lifted operands inside both operands) and chained comparisons whose middle operand is a call / conditional expression / "
    "and-or / walrus / (doubly) negated literal or is re-assigned by the right operand (`f() < g() < h()`, `x < (x := y) < 3`, "
    "`x < y < (y := 5)`); the other programs avoid these shapes. 3 argument stores per program. Per case: call trace (name, arguments, "
    "result; results depend on the call index) of the interpreted REAL CFG vs the call trace of CPython on the same source; "
    "real CFG vs Lean `build`; Lean `run` vs CPython and vs the real-CFG interpretation. non-trivial = at least 2 external "
    "calls and at least one lifted sub-expression (and/or, conditional expression, chained comparison, walrus); distinct "
    "by (source, rn, arguments). Order-edge phase (tie_order): typed programs (1-4 helper functions + main calling each "
    "other, result / panic / exit / qubit allocation and measurement, array indexing and assignment, Option.unwrap, qubit-array "
    "comprehensions, comptime helpers, a higher-order helper; nested if/while/for) are checked and lowered by the real compiler "
    "with Hugr.add_node / Hugr.add_order_link / core.track_hugr_side_effects recorded; case = one track_hugr_side_effects "
    "context: recorded add_order_link calls vs Lean `order` (Model/OrderEdges.lean) on the recorded node insertions, and vs "
    "the oracle (per region exactly one path Input -> side-effecting children by first effect -> Output; effects decided "
    "independently of may_have_side_effect); non-trivial = at least 2 side-effecting nodes and a linked container. End-to-end "
    "phase (tie_hugr_exec, c03_hugr.py, generator biased to call-order shapes; corpus/c05/hugr_exec.json first): every helper "
    "function reports its call with result(), the lowered HUGR of each typed program is interpreted under two schedules per "
    "dataflow region (first / last ready node, so a missing order edge reorders the reports) and the sequence of reports and the "
    "returned value must equal CPython's on the same source; besides plain reporting calls the generator places operands whose "
    "evaluation is observable otherwise -- operands that can panic (int(inf), nat(-1), // by zero, out-of-range subscripts; a CPython "
    "exception is the expected panic after the same reports), reporting user functions named round / abs / len / pow / divmod, reads "
    "of arrays / array-holding structs that a later borrowing call mutates, indices of (augmented) subscript assignments that read "
    "what the right-hand side mutates -- left of and inside lifted operands, as chain middles, arguments and indices; "
    "case = (function, argument tuple, schedule)"
)
ASSUMPTIONS = list(base.ASSUMPTIONS) + [
    "side effects are represented by calls to external functions; result reports, panics, qubit allocation and measurement are "
    "calls as far as the CFG builder is concerned (the order-edge insertion of the HUGR lowering is tied separately: "
    "base.tie_order)",
    "end-to-end phase: result() reports stand for side effects; a HUGR runtime may run the nodes of a dataflow region in any order "
    "compatible with value and order edges (the interpreter of c03_hugr.py tries the two extreme ones)",
]
UNMODELLED = list(base.UNMODELLED) + [
    "tuple and array construction, subscripts, panics in the CFG-builder tie (they occur in the typed programs of the "
    "order-edge phase tie_order, which ties core.track_hugr_side_effects to Model/OrderEdges.lean); the execution order "
    "a HUGR runtime derives from order edges (sampled only: the end-to-end phase executes lowered HUGRs under two schedules; "
    "qubit operations and ops outside its interpreter are not executed; panics of ops without order edges may overtake or be "
    "overtaken by results under the adversarial schedule: counted as `panic_overtakes`, not reported)",
]
MANIFEST = {
    "level_text": "Lean theorems over the hand-written model of the expression/branch builders of cfg/builder.py (incl. "
    "ExprBuilder.build_operands, which stores earlier operands in temporaries before a lifted operand is built, and the chained "
    "comparison that keeps its middle operand in a temporary): for EVERY program of the modelled fragment (no hoist-safety "
    "hypothesis: defect D9 was repaired in /repo by f9e33c1 and 7c8aeda (extended by 7121677, 6f37109 and 2bb14bb) and the model follows the repaired builder) and every "
    "argument store the sequence of external calls performed by the built CFG equals the sequence "
    "performed by Python's evaluation of the source (each call exactly once, left to right, arguments before the call, "
    "short-circuit operands only when Python evaluates them); "
    "track_hugr_side_effects: for every sequence of node insertions the state-order edges form one repetition-free chain "
    "Input -> linked nodes -> Output per region, a side-effecting node is linked last at once, edges are append-only "
    "(order_edges_total_partial under the recorded no-double-link condition). Model tied to "
    "/repo on every run as in C03 (structure of the real CFG, interpretation of the real CFG against CPython call traces); typed "
    "programs are lowered by the real compiler, every node insertion and add_order_link call is recorded per definition and "
    "compared with the order-edge model and with an independent per-region path oracle; Call-count probes on the lowered Hugr "
    "(one Call node per call expression, e.g. `a < idx() < b` -> 1). End to end (sampling, no theorem): typed programs whose "
    "helpers report every call are lowered by the real compiler and the lowered HUGR, interpreted under two schedules, must report "
    "the same result sequence as CPython running the same source.",
    "level_note": "Trusted: Lean kernel + propext/Classical.choice/Quot.sound; the reading of a CFG (exec of the real block "
    "statements); correspondence is sampling. D9 (middle operand of a chained comparison evaluated twice; lifted "
    "sub-expressions hoisted before left siblings) is fixed in /repo (7c8aeda, f9e33c1, 7121677, 6f37109, 2bb14bb); its witnesses are regression inputs "
    "(corpus/c05/d9_fixed.json) and any call-sequence disagreement is a VIOLATION keyed by the input. KNOWN FINDING (not fixed, "
    "maintainers' design decision, upstream 1.0.4 alike): ops that panic inside the operation (idiv/imod by zero, nat(-1), borrow out of "
    "range) get no state-order edge, so a legal schedule loses an earlier result (class:implicit-op-panic-overtakes-result; Lean witness "
    "implicit_panic_op_unordered; the lowered-HUGR oracle prints KNOWN-FINDING only for exactly this class).",
    "technique": "Lean 4 proof over a hand-written builder model + differential correspondence with cfg/builder.py and CPython call traces",
    "design_ref": "DESIGN.md §5 C05",
    "ready": True,
}


class Profile5(base.Profile):
    pid = "C05"
    corpus = "c05"
    gen = "c05"
    n_quick, n_thorough = 500, 15000
    what = "call sequence"

    @staticmethod
    def project(o):
        kind, value, trace = o
        return (kind, trace) if kind == "res" else o

    @staticmethod
    def nontrivial(feat):
        return feat["ncalls"] >= 2 and bool(feat["set"] & {"ifexp", "boolop", "chain", "walrus"})


def tie(ctx):
    base.tie(ctx, Profile5)
    base.tie_call_probes(ctx)  # T-obj: Call nodes of a side-effecting helper in the lowered Hugr (corpus/c05/call_counts.json)
    # T-obj: core.track_hugr_side_effects on really lowered typed programs vs Model/OrderEdges.lean and vs the literal
    # reading of `one Input -> effects in program order -> Output path per region` (corpus/c05/order_edges.json + generator)
    base.tie_order(ctx)
    # end to end: typed programs with reporting helpers through check + lowering, the lowered HUGR interpreted under two
    # schedules vs CPython on the same source (corpus/c05/hugr_exec.json + generator biased to call-order shapes)
    base.tie_hugr_exec(ctx, "C05")


def search(ctx, why):
    base.search(ctx, why, Profile5)


if __name__ == "__main__":
    vlib.main(sys.modules[__name__])
