"""C09 — Dataflow analyses equal the path-based solution in any visit order."""
from __future__ import annotations

import ast
import itertools
import json
import os
import sys

sys.path.insert(0, os.path.dirname(os.path.dirname(os.path.abspath(__file__))))
import vlib

PID = "C09"
THEOREM_MODULES = ["GuppyVerif.Props.C09"]
DRIVER = "C09"
RULE = (
    "random CFGs built as REAL BB/CFG objects (2-12 blocks; real + dummy edges; unreachable components; loops; "
    "random use/assign sets over <=6 variables; random pre-entry def/maybe sets and initially-live variables), each run "
    "under several worklist schedules through the guarded scheduler hook; thorough additionally enumerates ALL "
    "schedules of small CFGs. A case = (cfg, analysis, schedule). Non-trivial = the CFG has a cycle or a dummy "
    "edge, >=2 variables, and the schedule is not index order; distinct by canonical request line"
)
ASSUMPTIONS = [
    "CFGs are built through CFG.new_bb/link/dummy_link, which record every edge at both ends (Cfg.WF.conv) and keep all blocks in cfg.bbs (closedness)",
    "Python set semantics: pop() may return any element; the hook makes the real worklist pop the block the harness names, so every order is reachable",
    "termination of both worklists is proved (liveRun_terminates / assRun_terminates: explicit fuel bounds, every scheduler)",
]
UNMODELLED = [
    "VariableVisitor (how used/assigned sets are computed from statements) is covered under C08",
    "ForwardAnalysis with include_unreachable=False (unused in the repository)",
]
MANIFEST = {
    "level_text": "Lean theorems for ALL well-formed CFGs (no size bound; arbitrary use/assign sets, dummy edges, unreachable blocks, cycles) "
    "and ALL visiting orders (relation LReach/AReach lets any queued block be popped): live_before = 'read on some path before "
    "reassignment' (plus the documented never-terminating-path rule for initially-live borrowed variables); ass_before = assigned on all "
    "paths from a root; maybe_ass_before = assigned on some path; schedule independence as a corollary; the executable worklist under an "
    "arbitrary scheduler function is an instance. The model mirrors analysis.py line by line and is tied to it on every run: the real "
    "worklists are driven through the scheduler hook, their actual pop sequence is replayed in the Lean model and the results diffed; an "
    "independent reachability oracle checks the real results against the path semantics directly.",
    "level_note": "Trusted: Lean kernel + propext/Classical.choice/Quot.sound; the reading of 'paths' as paths over real+dummy edges when "
    "include_unreachable is set; correspondence is sampling (exhaustive over all schedules for small CFGs in the thorough tier); "
    "termination of both worklists is proved with explicit bounds.",
    "technique": "Lean 4 proof (worklist invariants, induction over runs, coinductive path construction) + replay correspondence through a scheduler hook",
    "design_ref": "DESIGN.md §5 C09",
    "ready": True,
}

# ------------------------------------------------------------------ scheduling


class NonTermination(Exception):
    pass


class Sched:
    limit = 20000  # replaced per CFG by the proven bound (see _bound)

    """policy: ('min'|'max'|'rand', seed) or ('seq', [idx...]) explicit (falls back to min)"""

    def __init__(self, policy, rng=None):
        self.policy = policy
        self.rng = rng
        self.log: list[int] = []
        self.pos = 0

    def choose(self, idxs: list[int]) -> int:
        k = self.policy[0]
        if k == "min":
            return min(idxs)
        if k == "max":
            return max(idxs)
        if k == "rand":
            return self.rng.choice(sorted(idxs))
        if k == "seq":
            seq = self.policy[1]
            while self.pos < len(seq):
                c = seq[self.pos]
                self.pos += 1
                if c in idxs:
                    return c
            return min(idxs)
        if k == "stale":  # adversarial: prefer blocks popped least recently / most often deferred
            cnt = {}
            for j in self.log[-200:]:
                cnt[j] = cnt.get(j, 0) + 1
            return max(idxs, key=lambda i: (-cnt.get(i, 0), i))
        raise AssertionError(k)


def _install(sched: Sched):
    import guppylang_internals.cfg.analysis as an

    class SchedSet(set):
        def pop(self):  # noqa: D102
            if len(sched.log) > sched.limit:
                # liveRun_terminates / assRun_terminates bound every run by (2*pairs+1)*(blocks+1) pops
                raise NonTermination(f"worklist popped more than {sched.limit} blocks")
            idxs = [bb.idx for bb in self]
            i = sched.choose(idxs)
            sched.log.append(i)
            bb = next(b for b in self if b.idx == i)
            self.discard(bb)
            return bb

    if hasattr(an, "_verif_queue") and os.environ.get("CQCL_GUPPYLANG_VERIF") == "1":
        an._VERIF_SCHED = lambda q: SchedSet(q)
        return lambda: setattr(an, "_VERIF_SCHED", None)
    # fallback when the hook is absent: shadow the builtin inside the module
    an.set = SchedSet
    return lambda: an.__dict__.pop("set", None)


# ------------------------------------------------------------------ CFG generation (abstract)


def gen_cfg(rng, nmax=8, nvars=5):
    n = rng.randint(2, nmax)
    vs = list(range(1, rng.randint(1, nvars) + 1))
    succ = {b: [] for b in range(n)}
    dsucc = {b: [] for b in range(n)}
    # block 0 = entry, block 1 = exit (as CFG() creates them)
    # a spine so that most blocks are reachable, then random extra edges
    order = [0] + rng.sample(range(2, n), n - 2) + [1]
    cut = rng.random() < 0.35 and n > 3
    cutpos = rng.randint(1, len(order) - 2) if cut else None
    for i in range(len(order) - 1):
        a, b = order[i], order[i + 1]
        if cutpos is not None and i == cutpos:
            if rng.random() < 0.7:
                dsucc[a].append(b)  # constant-false branch: only a dummy edge
            continue
        succ[a].append(b)
    extra = rng.randint(0, n + 1)
    for _ in range(extra):
        a, b = rng.randrange(n), rng.randrange(n)
        if a == 1:
            continue  # exit has no successors
        if rng.random() < 0.25:
            if b not in dsucc[a]:
                dsucc[a].append(b)
        elif len(succ[a]) < 2 and b not in succ[a]:
            succ[a].append(b)
    used = {b: sorted(rng.sample(vs, rng.randint(0, min(2, len(vs))))) for b in range(n)}
    assigned = {b: sorted(rng.sample(vs, rng.randint(0, min(2, len(vs))))) for b in range(n)}
    k = rng.random()
    edef = sorted(rng.sample(vs, rng.randint(0, len(vs)))) if k < 0.6 else []
    emaybe = sorted(set(edef) | set(rng.sample(vs, rng.randint(0, len(vs))))) if rng.random() < 0.5 else list(edef)
    init = sorted(rng.sample(vs, rng.randint(0, min(2, len(vs))))) if rng.random() < 0.5 else []
    return {"n": n, "succ": succ, "dsucc": dsucc, "used": used, "assigned": assigned,
            "edef": edef, "emaybe": emaybe, "init": init}


def _bound(c):
    """assBound / liveBound of Props/C09.lean, over-approximated: (2*blocks*vars + 1) * (blocks + 1)"""
    n = c["n"]
    vs = set(c["edef"]) | set(c["emaybe"]) | set(c["init"])
    for b in range(n):
        vs |= set(c["used"][b]) | set(c["assigned"][b])
    return (2 * n * (2 * len(vs) + 1) + 1) * (n + 1)


def build_real(c):
    """abstract cfg -> real CFG/BB objects + stats"""
    from guppylang_internals.cfg.bb import VariableStats
    from guppylang_internals.cfg.cfg import CFG

    cfg = CFG()
    while len(cfg.bbs) < c["n"]:
        cfg.new_bb()
    for a in range(c["n"]):
        for b in c["succ"][a]:
            cfg.link(cfg.bbs[a], cfg.bbs[b])
        for b in c["dsucc"][a]:
            cfg.dummy_link(cfg.bbs[a], cfg.bbs[b])
    stats = {
        cfg.bbs[b]: VariableStats(
            assigned={f"v{x}": None for x in c["assigned"][b]}, used={f"v{x}": None for x in c["used"][b]}
        )
        for b in range(c["n"])
    }
    return cfg, stats


def vname(x):
    return f"v{x}"


def vnum(s):
    return int(s[1:])


# ------------------------------------------------------------------ real runs


def real_live(c, inc, sched):
    sched.limit = _bound(c)
    from guppylang_internals.cfg.analysis import LivenessAnalysis

    cfg, stats = build_real(c)
    undo = _install(sched)
    try:
        res = LivenessAnalysis(
            stats, initial={vname(x): cfg.exit_bb for x in c["init"]}, include_unreachable=inc
        ).run(cfg.bbs)
        return {bb.idx: sorted(vnum(x) for x in res[bb]) for bb in cfg.bbs}
    except Exception as e:  # noqa: BLE001
        return "exception:" + type(e).__name__
    finally:
        undo()


def real_ass(c, sched):
    sched.limit = _bound(c)
    from guppylang_internals.cfg.analysis import AssignmentAnalysis

    cfg, stats = build_real(c)
    undo = _install(sched)
    try:
        d, m = AssignmentAnalysis(
            stats, {vname(x) for x in c["edef"]}, {vname(x) for x in c["emaybe"]}, include_unreachable=True
        ).run_unpacked(cfg.bbs)
        return (
            {bb.idx: sorted(vnum(x) for x in d[bb]) for bb in cfg.bbs},
            {bb.idx: sorted(vnum(x) for x in m[bb]) for bb in cfg.bbs},
        )
    except Exception as e:  # noqa: BLE001
        return "exception:" + type(e).__name__
    finally:
        undo()


def real_analyze(c, sched):
    sched.limit = _bound(c)
    """CFG.analyze on blocks with real AST statements producing the wanted use/assign sets."""
    cfg, _ = build_real(c)
    for b in range(c["n"]):
        src = ""
        if c["used"][b]:
            src += "(" + ", ".join(vname(x) for x in c["used"][b]) + ",)\n"
        for x in c["assigned"][b]:
            src += f"{vname(x)} = 0\n"
        cfg.bbs[b].statements = ast.parse(src).body
    undo = _install(sched)
    try:
        cfg.analyze({vname(x) for x in c["edef"]}, {vname(x) for x in c["emaybe"]}, [vname(x) for x in c["init"]])
        return (
            {bb.idx: sorted(vnum(x) for x in cfg.live_before[bb]) for bb in cfg.bbs},
            {bb.idx: sorted(vnum(x) for x in cfg.ass_before[bb]) for bb in cfg.bbs},
            {bb.idx: sorted(vnum(x) for x in cfg.maybe_ass_before[bb]) for bb in cfg.bbs},
        )
    except Exception as e:  # noqa: BLE001
        return "exception:" + type(e).__name__
    finally:
        undo()


# ------------------------------------------------------------------ independent oracle (reachability)


def eff(c, inc):
    n = c["n"]
    succ = {b: list(c["succ"][b]) + (list(c["dsucc"][b]) if inc else []) for b in range(n)}
    pred = {b: [] for b in range(n)}
    for a in range(n):
        for b in succ[a]:
            pred[b].append(a)
    return succ, pred


def oracle_live(c, inc, init=None, extra_exit_use=()):
    n = c["n"]
    succ, _ = eff(c, inc)
    init = c["init"] if init is None else init
    used = {b: set(c["used"][b]) for b in range(n)}
    used[1] |= set(extra_exit_use)
    out = {b: set() for b in range(n)}
    allv = set().union(*used.values(), *(set(c["assigned"][b]) for b in range(n)), set(init))
    for x in allv:
        live = {b for b in range(n) if x in used[b]}
        ch = True
        while ch:
            ch = False
            for b in range(n):
                if b not in live and x not in c["assigned"][b] and any(s in live for s in succ[b]):
                    live.add(b)
                    ch = True
        if x in init:
            inf = {b for b in range(n) if x not in c["assigned"][b]}
            ch = True
            while ch:
                ch = False
                for b in list(inf):
                    if not any(s in inf for s in succ[b]):
                        inf.discard(b)
                        ch = True
            live |= inf
        for b in live:
            out[b].add(x)
    return {b: sorted(out[b]) for b in range(n)}


def oracle_ass(c, fixed_join=True):
    n = c["n"]
    _, pred = eff(c, True)
    allv = set(c["edef"]).union(*(set(c["assigned"][b]) for b in range(n)))
    D = {b: set() for b in range(n)}
    M = {b: set() for b in range(n)}
    universe = allv | set(c["emaybe"])
    for x in universe:
        notdef = {b for b in range(n) if not pred[b] and x not in c["edef"]}
        ch = True
        while ch:
            ch = False
            for b in range(n):
                if b not in notdef and any(p in notdef and x not in c["assigned"][p] for p in pred[b]):
                    notdef.add(b)
                    ch = True
        if x in allv:
            for b in range(n):
                if b not in notdef:
                    D[b].add(x)
        may = {b for b in range(n) if (not pred[b] and x in c["emaybe"]) or any(x in c["assigned"][p] for p in pred[b])}
        ch = True
        while ch:
            ch = False
            for b in range(n):
                if b not in may and any(p in may for p in pred[b]):
                    may.add(b)
                    ch = True
        if x in c["emaybe"]:
            inf = set(range(n))
            ch = True
            while ch:
                ch = False
                for b in list(inf):
                    if not any(p in inf for p in pred[b]):
                        inf.discard(b)
                        ch = True
            may |= inf
        for b in may:
            M[b].add(x)
    return {b: sorted(D[b]) for b in range(n)}, {b: sorted(M[b]) for b in range(n)}


# ------------------------------------------------------------------ protocol


def sx_tbl(tag, d):
    return "(" + tag + "".join(" (" + " ".join(map(str, [b, *v])) + ")" for b, v in sorted(d.items()) if v) + ")"


def sx_cfg(c, inc, exit_use=()):
    n = c["n"]
    succ = c["succ"]
    dsucc = c["dsucc"] if inc else {b: [] for b in range(n)}
    pred = {b: [] for b in range(n)}
    dpred = {b: [] for b in range(n)}
    for a in range(n):
        for b in succ[a]:
            pred[b].append(a)
        for b in dsucc[a]:
            dpred[b].append(a)
    used = dict(c["used"])
    if exit_use:
        used[1] = sorted(set(used[1]) | set(exit_use))
    return "(cfg (blocks " + " ".join(map(str, range(n))) + ") " + " ".join(
        [sx_tbl("succ", succ), sx_tbl("dsucc", dsucc), sx_tbl("pred", pred), sx_tbl("dpred", dpred),
         sx_tbl("used", used), sx_tbl("assigned", c["assigned"])]) + ")"


def sx_list(tag, xs):
    return "(" + " ".join([tag, *map(str, xs)]) + ")"


def fmt_rows(d):
    return " ".join("(" + " ".join(map(str, [b, *d[b]])) + ")" for b in sorted(d))


# ------------------------------------------------------------------ the tie


def _policies(ctx, c, exhaustive):
    pols = [("min",), ("max",), ("stale",)]
    for _ in range(ctx.n(2, 3)):
        pols.append(("rand", ctx.rng.randrange(1 << 30)))
    return pols


def _is_nontrivial(c, pol):
    n = c["n"]
    has_dummy = any(c["dsucc"][b] for b in range(n))
    # cycle detection
    succ, _ = eff(c, True)
    color = {}

    def dfs(u):
        color[u] = 1
        for v in succ[u]:
            if color.get(v) == 1 or (v not in color and dfs(v)):
                return True
        color[u] = 2
        return False

    cyc = any(dfs(u) for u in range(n) if u not in color)
    nv = len(set().union(*(set(c["used"][b]) | set(c["assigned"][b]) for b in range(n))))
    return (has_dummy or cyc) and nv >= 2 and pol[0] != "min"


def _all_schedules(c, kind, inc, limit):
    """Enumerate every pop order of the REAL worklist by DFS over explicit prefixes."""
    import random as _r

    done, stack = [], [[]]
    while stack and len(done) < limit:
        prefix = stack.pop()
        s = Sched(("seq", prefix))
        # run real with prefix then min; discover branching points from the log by re-running
        res = real_live(c, inc, s) if kind == "live" else real_ass(c, s)
        log = s.log
        done.append((log, res))
        # branch: at each position >= len(prefix), other choices were possible; we need the queue
        # contents at that point -> recompute by replaying with a recording scheduler
        qs = _queues(c, kind, inc, log)
        for i in range(len(prefix), len(log)):
            for alt in qs[i]:
                if alt != log[i]:
                    stack.append(log[:i] + [alt])
    return done, not stack


def _queues(c, kind, inc, log):
    """queue contents (idx lists) before each pop of the real run following `log`"""
    qs = []

    class Rec(Sched):
        def choose(self, idxs):
            qs.append(sorted(idxs))
            return super().choose(idxs)

    s = Rec(("seq", list(log)))
    (real_live(c, inc, s) if kind == "live" else real_ass(c, s))
    return qs


def tie(ctx):
    rng = ctx.rng
    cases = []
    corpus = os.path.join(vlib.VERIF, "corpus", "c09")
    if os.path.isdir(corpus):
        for fn in sorted(os.listdir(corpus)):
            cases.append(("corpus:" + fn, _intkeys(json.load(open(os.path.join(corpus, fn))))))
    if ctx.replay_in and "cfg" in ctx.replay_in.get("replay", {}):
        cases.append(("replay", _intkeys(ctx.replay_in["replay"]["cfg"])))
    for i in range(ctx.n(250, 6000)):
        cases.append((f"gen{i}", gen_cfg(rng, nmax=ctx.n(8, 12) if i % 3 else 5, nvars=5)))

    lines, meta = [], []
    for name, c in cases:
        if len(ctx.violations) >= 5:
            break  # enough concrete failing inputs; keep the run short
        for pol in _policies(ctx, c, False):
            for kind in ("live1", "live0", "ass", "analyze"):
                s = Sched(pol, rng=__import__("random").Random(pol[1]) if pol[0] == "rand" else None)
                if kind in ("live1", "live0"):
                    inc = kind == "live1"
                    real = real_live(c, inc, s)
                    orc = oracle_live(c, inc)
                    line = f"(live {sx_cfg(c, inc)} {sx_list('init', c['init'])} {sx_list('seq', s.log)})"
                    realtxt = real if isinstance(real, str) else "ok " + fmt_rows(real)
                    orctxt = "ok " + fmt_rows(orc)
                elif kind == "ass":
                    real = real_ass(c, s)
                    od, om = oracle_ass(c)
                    line = f"(ass {sx_cfg(c, True)} {sx_list('edef', c['edef'])} {sx_list('emaybe', c['emaybe'])} {sx_list('seq', s.log)})"
                    realtxt = real if isinstance(real, str) else "ok " + fmt_rows(real[0]) + " | " + fmt_rows(real[1])
                    orctxt = "ok " + fmt_rows(od) + " | " + fmt_rows(om)
                else:
                    # CFG.analyze: both analyses in sequence; the hook logs both pop sequences back to back
                    if not set(c["edef"]) <= set(c["emaybe"]):
                        continue
                    real = real_analyze(c, s)
                    ol = oracle_live(c, True, init=c["init"], extra_exit_use=c["init"])
                    od, om = oracle_ass(c)
                    line = None
                    realtxt = real if isinstance(real, str) else "ok " + " | ".join(fmt_rows(r) for r in real)
                    orctxt = "ok " + " | ".join(fmt_rows(r) for r in (ol, od, om))
                case = {"cfg": c, "analysis": kind, "policy": list(pol), "pops": s.log}
                ctx.count(line or json.dumps(case, sort_keys=True), _is_nontrivial(c, pol), kind=kind + ":" + pol[0])
                if realtxt != orctxt:
                    ctx.violation(
                        "input:" + json.dumps({"cfg": c, "analysis": kind, "pops": s.log}, sort_keys=True),
                        f"{kind} result differs from the path-based solution under pop order {s.log}: real={realtxt} expected={orctxt}",
                        {"cfg": c, "analysis": kind, "policy": list(pol), "pops": s.log, "real": realtxt, "oracle": orctxt, "source": name},
                    )
                if line is not None:
                    lines.append(line)
                    meta.append((case, realtxt))
    model = ctx.driver(DRIVER, lines)
    for (case, realtxt), m, line in zip(meta, model, lines):
        if m != realtxt:
            ctx.broke(f"correspondence Model/Dataflow.lean vs analysis.py ({case['analysis']}, pops={case['pops']}): real={realtxt[:200]} model={m[:200]} line={line[:400]}")
            break

    # thorough: every schedule of small CFGs on the real code (exhaustive over orders)
    if not ctx.quick:
        tot, complete = 0, 0
        for i in range(60):
            c = gen_cfg(rng, nmax=4, nvars=3)
            for kind, inc in (("live", True), ("ass", True)):
                runs, full = _all_schedules(c, kind, inc, limit=400)
                tot += len(runs)
                complete += bool(full)
                orc = oracle_live(c, inc) if kind == "live" else oracle_ass(c)
                for log, res in runs:
                    ctx.count({"cfg": c, "kind": kind, "pops": log}, _is_nontrivial(c, ("seq",)), kind="allsched:" + kind)
                    got = res if isinstance(res, str) else res
                    exp = orc
                    if kind == "ass" and not isinstance(res, str):
                        got = (res[0], res[1])
                        exp = (orc[0], orc[1])
                    if got != exp:
                        ctx.violation(
                            "input:" + json.dumps({"cfg": c, "analysis": kind, "pops": log}, sort_keys=True),
                            f"{kind} result under pop order {log} differs from the path-based solution",
                            {"cfg": c, "analysis": kind, "pops": log, "real": got, "oracle": exp},
                        )
        ctx.extra["all_schedules_runs"] = tot
        ctx.extra["all_schedules_cfgs_fully_enumerated"] = complete


def _intkeys(c):
    out = dict(c)
    for k in ("succ", "dsucc", "used", "assigned"):
        out[k] = {int(a): list(b) for a, b in c[k].items()}
    return out


if __name__ == "__main__":
    vlib.main(sys.modules[__name__])
