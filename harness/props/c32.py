"""C32 — Accepted syntax is never silently ignored."""
from __future__ import annotations

import json
import os
import sys

sys.path.insert(0, os.path.dirname(os.path.dirname(os.path.abspath(__file__))))
sys.path.insert(0, os.path.dirname(os.path.abspath(__file__)))
import vlib

PID = "C32"
THEOREM_MODULES = ["GuppyVerif.Props.C32"]
RULE = (
    "one probe per (node kind, clause/field) of Python 3.12's abstract grammar placed in an otherwise valid @guppy function: "
    "`with` = clause populated, `base` = same function minus the clause (or with the alternative value). The real compiler "
    "checks and lowers both; a case is non-trivial when the probe is accepted (then the canonicalised lowered Hugr must differ "
    "from the base) — rejected probes only confirm the rejection. Static table rows (visitor x kind x field) are all enumerated. "
    "Must-reject probes: 42 statement/expression positions x ill-formed operands (undefined, defined-later, maybe-undefined name, consumed qubit); "
    "the position with a well-formed operand must be accepted (non-vacuous), with the ill-formed one `accepted` is the failing input."
)
ASSUMPTIONS = [
    "CPython 3.12 `ast` class docstrings give the ASDL (kinds, fields, field types); `ast.parse` produces exactly those nodes",
    "the static extractor (harness/props/c32_extract.py) is a flow-insensitive type inference over the visitor sources: an "
    "attribute load `x.f` with x known to hold node kind K is a read of (K, f); same-name keyword copies into a subclass "
    "constructor and `**dict(ast.iter_fields(node))` are not reads; reads only inside a raising `if` are guards (rejections)",
    "a read is taken as 'the field takes effect'; that reading is cross-checked dynamically (accepted probe must lower to a different Hugr)",
    "type annotations (tys/parsing.py type expressions) are a separate sub-language and not covered by the table",
]
UNMODELLED = [
    "whether a *read* field is given Python's meaning (that is C03/C05); only 'looked at or rejected' is proved here",
    "type-expression sub-language inside annotations; top-level decorator list (executed by CPython itself)",
    "comptime (traced) functions: their bodies are executed by CPython, not by these visitors",
    "path sensitivity inside one visitor (e.g. ExprBuilder.visit_Call's comptime(...) path) — covered only by the dynamic probes",
]
MANIFEST = {
    "level_text": "Lean theorem `no_semantic_field_ignored` (decide over the whole table): for every semantics-bearing (node kind, field) of "
    "Python 3.12's abstract grammar (fixed list in Spec/C32.lean, proved exhaustive w.r.t. the regenerated grammar by "
    "`grammar_classified`), the disposition computed from the per-visitor read/guard/visit tables that are re-extracted from "
    "/repo's CFGBuilder/ExprBuilder/BranchBuilder/StmtChecker/ExprSynthesizer/ExprChecker sources on every run is not `ignored`; "
    "`generic_visit_rejects` ties the nodeRejected disposition to the two generic_visit methods; `value_statements_recorded`: every value-bearing "
    "statement is appended to its basic block, an expression statement being dropped only when its value is a %tmp variable. The extractor is cross-checked on every "
    "run by ~90 probe programs compiled and lowered by the real compiler (accepted probe with Hugr identical to the clause-free base = failing input).",
    "level_note": "PARTIAL w.r.t. the sentence: proves 'looked at by every consumer or rejected', not 'takes effect as in Python' (only sampled by the "
    "clause-vs-base Hugr comparison); granularity (kind, field). The quantifier is finite (grammar table), so `decide` is a complete proof about the extracted table; trusted: the extractor's "
    "notion of 'read' (syntactic attribute load on a variable typed by annotations/visit_K naming/ASDL chains), the pipeline shape in "
    "Model/C32Coverage.lean (CFGBuilder then StmtChecker; ExprBuilder/BranchBuilder then ExprSynthesizer | ExprChecker), CPython's ast docstrings.",
    "technique": "Lean 4 decide over tables regenerated from source (T-src) + dynamic probe cross-check through the real check+lowering",
    "design_ref": "DESIGN.md §5 C32",
    "ready": True,
}

GEN = os.path.join(vlib.LEAN, "GuppyVerif", "Gen", "C32SyntaxCoverage.lean")
CATS = ["stmt", "expr", "prod", "pattern", "excepthandler", "type_param"]
VIS = ["CFGBuilder", "ExprBuilder", "BranchBuilder", "StmtChecker", "ExprSynthesizer", "ExprChecker", "AssignTarget", "ModifierItem", "aux"]


def _cat(c, kind):
    return c if c in CATS else ("prod" if c == kind else None)


def render(tab) -> str:
    gram = [r for r in tab["grammar"] if _cat(r[1], r[0])]
    kinds = sorted({r[0] for r in gram})
    kcat = {r[0]: _cat(r[1], r[0]) for r in gram}
    fields = sorted({r[2] for r in gram if r[2]})
    prods = {k for k in kinds if kcat[k] == "prod"}

    def ftype(t):
        if t in prods:
            return f".prod .{t}"
        if t in CATS:
            return f".sum .{t}"
        return ".prim"

    out = [
        "/-! GENERATED on every run by harness/props/c32.py (translate) from CPython's `ast` grammar and from",
        "    guppylang_internals/{cfg/builder,checker/func_checker,checker/stmt_checker,checker/expr_checker,tys/parsing}.py",
        "    of the tree under check.  Do not edit. -/",
        "namespace GuppyVerif.C32",
        "",
        "inductive Kind where",
        *[f"  | {k}" for k in kinds],
        "  deriving DecidableEq, Repr",
        "",
        "inductive Field where",
        *[f"  | f_{f}" for f in fields],
        "  deriving DecidableEq, Repr",
        "",
        "inductive Cat where",
        *[f"  | {c}" for c in CATS],
        "  deriving DecidableEq, Repr",
        "",
        "inductive FType where",
        "  | sum (c : Cat) | prod (k : Kind) | prim",
        "  deriving DecidableEq, Repr",
        "",
        "inductive Visitor where",
        *[f"  | {v}" for v in VIS],
        "  deriving DecidableEq, Repr",
        "",
        "inductive VisitHow where | explicit | identity | raisesInternal | raisesUser deriving DecidableEq, Repr",
        "inductive ReadHow where | read | guard deriving DecidableEq, Repr",
        "inductive GenericHow where | rejects | forwards | fallback | other deriving DecidableEq, Repr",
        "",
        "structure GRow where",
        "  kind : Kind",
        "  cat : Cat",
        "  field : Field",
        "  ftype : FType",
        "  deriving DecidableEq, Repr",
        "",
        "structure Tables where",
        "  grammar : List GRow",
        "  kindCat : List (Kind × Cat)",
        "  visits : List (Visitor × Kind × VisitHow)",
        "  reads : List (Visitor × Kind × Field × ReadHow)",
        "  generic : List (Visitor × GenericHow)",
        "",
        "/-- Python 3.12 abstract grammar: (kind, category, field, field type) -/",
        "def grammar : List GRow := [",
        ",\n".join(f"  ⟨.{k}, .{kcat[k]}, .f_{f}, {ftype(t)}⟩" for k, _c, f, t, _q in gram if f),
        "]",
        "",
        "def kindCat : List (Kind × Cat) := [",
        ",\n".join(f"  (.{k}, .{kcat[k]})" for k in kinds),
        "]",
        "",
        "/-- `visit_K` methods of the six visitors: explicit body, or unconditional raise -/",
        "def visits : List (Visitor × Kind × VisitHow) := [",
        ",\n".join(f"  (.{v}, .{k}, .{h})" for v, k, h in tab["visits"] if k in kcat),
        "]",
        "",
        "/-- attribute loads of grammar fields inside the visitors (`aux`: non stmt/expr kinds, any function) -/",
        "def reads : List (Visitor × Kind × Field × ReadHow) := [",
        ",\n".join(f"  (.{v}, .{k}, .f_{f}, .{h})" for v, k, f, h in tab["reads"] if v in VIS and k in kcat),
        "]",
        "",
        "def generic : List (Visitor × GenericHow) := [",
        ",\n".join(f"  (.{v}, .{h})" for v, h in tab["generic"]),
        "]",
        "",
        "def tables : Tables := ⟨grammar, kindCat, visits, reads, generic⟩",
        "",
        "inductive Stage where | builder | checker | compiler | parsing | other deriving DecidableEq, Repr",
        "inductive ListRead where | whole | index | test deriving DecidableEq, Repr",
        "",
        "/-- how each stage (by source file) consumes the list-typed grammar fields it looks at outside rejections:",
        "    `whole` (iterated / unpacked / handed on), `index` (one element by constant subscript), `test` (truth value / length) -/",
        "def listReads : List (Stage × Kind × Field × ListRead) := [",
        ",\n".join(f"  (.{st if st in ('builder', 'checker', 'compiler', 'parsing') else 'other'}, .{k}, .f_{f}, .{h})"
                    for st, k, f, h in tab.get("list_reads", []) if k in kcat),
        "]",
        "",
        "inductive SkipAtom where | tmpVar | isinstance | other | unanalysable deriving DecidableEq, Repr",
        "inductive RecordHow where | always | never | guarded (skipWhen : List SkipAtom) deriving DecidableEq, Repr",
        "",
        "/-- `CFGBuilder.visit_K`: is the statement appended to a basic block (`bb.statements.append`), and if only under",
        "    a condition, the literals of the conjunction under which it is NOT (classified) -/",
        "def records : List (Kind × RecordHow) := [",
        ",\n".join(f"  (.{k}, " + (f".{h}" if h != "guarded" else ".guarded [" + ", ".join("." + a for a in at) + "]") + ")"
                    for k, h, at in tab["records"] if k in kcat),
        "]",
        "",
        "def kindNames : List (String × Kind) := [",
        ",\n".join(f'  ("{k}", .{k})' for k in kinds),
        "]",
        "",
        "def fieldNames : List (String × Field) := [",
        ",\n".join(f'  ("{f}", .f_{f})' for f in fields),
        "]",
        "",
        "end GuppyVerif.C32",
        "",
    ]
    return "\n".join(out)


def translate(ctx):
    import bootstrap
    import c32_extract

    tab = c32_extract.extract(bootstrap.REPO)
    ctx.extra["table_rows"] = {k: len(v) for k, v in tab.items()}
    txt = render(tab)
    old = open(GEN).read() if os.path.exists(GEN) else None
    if old != txt:
        with open(GEN, "w") as f:
            f.write(txt)
    ctx._c32_tab = tab
    ctx._c32_txt = txt


def _ensure_gen(ctx):
    """another process may have restored the committed baseline of Gen/ (`git checkout`) since translate ran"""
    txt = getattr(ctx, "_c32_txt", None)
    if txt is not None and (not os.path.exists(GEN) or open(GEN).read() != txt):
        with open(GEN, "w") as f:
            f.write(txt)



# ====================================================================== dynamic probes (tie)
# (kind, field, body with the clause, base body (clause removed / alternative value) or None)
# Every body is the body of `def f(x: int, b: bool) -> int`.  `deco` is an identity decorator and
# `g0` a module-level @guppy function (prelude).  `None` base: only accept/reject is observed.
PROBES = [
    ("While", "orelse", "while b:\n    b = False\nelse:\n    x = x + 1\nreturn x", "while b:\n    b = False\nreturn x"),
    ("While", "orelse", "while x < 10:\n    x += 1\n    if b:\n        break\nelse:\n    x = 0\nreturn x", "while x < 10:\n    x += 1\n    if b:\n        break\nreturn x"),
    ("While", "test", "while b:\n    b = False\nreturn x", "while not b:\n    b = True\nreturn x"),
    ("While", "body", "while b:\n    b = False\n    x += 1\nreturn x", "while b:\n    b = False\nreturn x"),
    ("For", "orelse", "for i in range(3):\n    x += i\nelse:\n    x = x * 7\nreturn x", "for i in range(3):\n    x += i\nreturn x"),
    ("For", "iter", "for i in range(3):\n    x += i\nreturn x", "for i in range(x):\n    x += i\nreturn x"),
    ("For", "target", "for i, j in array((1, 2), (3, 4)):\n    x += i\nreturn x", "for j, i in array((1, 2), (3, 4)):\n    x += i\nreturn x"),
    ("For", "body", "for i in range(3):\n    x += i\n    x += 1\nreturn x", "for i in range(3):\n    x += i\nreturn x"),
    ("If", "orelse", "if b:\n    x = 1\nelse:\n    x = 2\nreturn x", "if b:\n    x = 1\nreturn x"),
    ("If", "test", "if b:\n    x = 1\nreturn x", "if x > 2:\n    x = 1\nreturn x"),
    ("If", "body", "if b:\n    x = 1\n    x += 1\nreturn x", "if b:\n    x = 1\nreturn x"),
    ("FunctionDef", "decorator_list", "@deco\ndef g(y: int) -> int:\n    return y\nreturn g(x)", "def g(y: int) -> int:\n    return y\nreturn g(x)"),
    ("FunctionDef", "decorator_list", "@guppy\ndef g(y: int) -> int:\n    return y\nreturn g(x)", "def g(y: int) -> int:\n    return y\nreturn g(x)"),
    ("FunctionDef", "returns", "def g(y: int) -> int:\n    return y\nreturn g(x)", "def g(y: int) -> float:\n    return 1.0\nreturn x"),
    ("FunctionDef", "returns", "def g(y: int):\n    return y\nreturn g(x)", None),
    ("FunctionDef", "type_params", "def g[T](y: T) -> T:\n    return y\nreturn g(x)", "def g(y: int) -> int:\n    return y\nreturn g(x)"),
    ("FunctionDef", "body", "def g(y: int) -> int:\n    y += 1\n    return y\nreturn g(x)", "def g(y: int) -> int:\n    return y\nreturn g(x)"),
    ("FunctionDef", "args", "def g(y: int, z: int) -> int:\n    return y\nreturn g(x, x)", "def g(y: int) -> int:\n    return y\nreturn g(x)"),
    ("FunctionDef", "name", "def g(y: int) -> int:\n    return y\ndef h(y: int) -> int:\n    return y + 1\nreturn g(x)", "def g(y: int) -> int:\n    return y\ndef h(y: int) -> int:\n    return y + 1\nreturn h(x)"),
    ("arguments", "defaults", "def g(y: int = 1) -> int:\n    return y\nreturn g(x)", "def g(y: int) -> int:\n    return y\nreturn g(x)"),
    ("arguments", "kwonlyargs", "def g(*, y: int) -> int:\n    return y\nreturn x", "def g() -> int:\n    return 1\nreturn x"),
    ("arguments", "kw_defaults", "def g(z: int, *, y: int = 3) -> int:\n    return y\nreturn x", "def g(z: int) -> int:\n    return z\nreturn x"),
    ("arguments", "vararg", "def g(*y: int) -> int:\n    return 1\nreturn x", "def g() -> int:\n    return 1\nreturn x"),
    ("arguments", "kwarg", "def g(**y: int) -> int:\n    return 1\nreturn x", "def g() -> int:\n    return 1\nreturn x"),
    ("arguments", "posonlyargs", "def g(y: int, /) -> int:\n    return y\nreturn g(x)", "def g(y: int) -> int:\n    return y\nreturn g(x)"),
    ("arg", "annotation", "def g(y) -> int:\n    return 1\nreturn g(x)", None),
    ("arg", "annotation", "def g(y: int) -> int:\n    return 1\nreturn g(x)", "def g(y: float) -> int:\n    return 1\nreturn g(1.0)"),
    ("arg", "arg", "def g(y: int, z: int) -> int:\n    return y\nreturn g(x, 1)", "def g(z: int, y: int) -> int:\n    return y\nreturn g(x, 1)"),
    ("Call", "keywords", "return g0(y=x)", "return g0(x)"),
    ("Call", "keywords", "return g0(x, y=x)", "return g0(x)"),
    ("Call", "keywords", "return g0(x, **x)", "return g0(x)"),
    ("Call", "keywords", "y = comptime(1, k=2)\nreturn x", "y = comptime(1)\nreturn x"),
    ("Call", "keywords", "return int(x, base=3)", "return int(x)"),
    ("Call", "keywords", "a = array(1, 2, foo=3)\nreturn x", "a = array(1, 2)\nreturn x"),
    ("Call", "keywords", "def g(y: int) -> int:\n    return y\nreturn g(x, z=2)", "def g(y: int) -> int:\n    return y\nreturn g(x)"),
    ("Call", "args", "return g0(x)", "return g0(1)"),
    ("Call", "func", "return g0(x)", "return g1(x)"),
    ("Starred", "value", "t = (x,)\nreturn g0(*t)", "return g0(x)"),
    ("Starred", "value", "a, *c = (1, 2, 3)\nreturn a", "a, c, d = (1, 2, 3)\nreturn a"),
    ("AnnAssign", "annotation", "y: bool = x\nreturn x", "y = x\nreturn x"),
    ("AnnAssign", "annotation", "y: float = 1.0\nreturn x", "y: int = 1\nreturn x"),
    ("AnnAssign", "value", "y: int\nreturn x", "return x"),
    ("AnnAssign", "value", "y: int = 1\nreturn y", "y: int = 2\nreturn y"),
    ("AnnAssign", "target", "y: int = 1\nz = 2\nreturn y", "z: int = 1\ny = 2\nreturn y"),
    ("Assign", "targets", "a = c = x\nreturn a", "a = x\nreturn a"),
    ("Assign", "targets", "a, c = x, 1\nreturn a", "c, a = x, 1\nreturn a"),
    ("Assign", "value", "a = x\nreturn a", "a = 1\nreturn a"),
    ("AugAssign", "op", "x += 2\nreturn x", "x -= 2\nreturn x"),
    ("AugAssign", "value", "x += 2\nreturn x", "x += 3\nreturn x"),
    ("AugAssign", "target", "y = 1\nx += 2\nreturn x", "y = 1\ny += 2\nreturn x"),
    ("Return", "value", "return x", "return 0"),
    ("Expr", "value", "g0(x)\nreturn x", "return x"),
    ("With", "items", "with dagger:\n    pass\nreturn x", "return x"),
    ("withitem", "optional_vars", "with dagger as d:\n    pass\nreturn x", "return x"),
    ("Slice", "lower", "xs = array(1, 2, 3)\nys = xs[0:2]\nreturn x", "xs = array(1, 2, 3)\nreturn x"),
    ("Slice", "step", "xs = array(1, 2, 3)\nys = xs[::2]\nreturn x", "xs = array(1, 2, 3)\nreturn x"),
    ("Try", "handlers", "try:\n    x = 1\nexcept:\n    x = 2\nreturn x", "x = 1\nreturn x"),
    ("Try", "finalbody", "try:\n    x = 1\nfinally:\n    x = 2\nreturn x", "x = 1\nreturn x"),
    ("Try", "orelse", "try:\n    x = 1\nexcept:\n    x = 2\nelse:\n    x = 3\nreturn x", "x = 1\nreturn x"),
    ("TryStar", "handlers", "try:\n    x = 1\nexcept* ValueError:\n    x = 2\nreturn x", "x = 1\nreturn x"),
    ("Raise", "exc", "if b:\n    raise ValueError\nreturn x", "return x"),
    ("Assert", "test", "assert b\nreturn x", "return x"),
    ("Assert", "msg", "assert b, 'm'\nreturn x", "return x"),
    ("Delete", "targets", "y = x\ndel y\nreturn x", "y = x\nreturn x"),
    ("Global", "names", "global zz\nreturn x", "return x"),
    ("Nonlocal", "names", "def g() -> int:\n    nonlocal x\n    return 1\nreturn x", "def g() -> int:\n    return 1\nreturn x"),
    ("Import", "names", "import os\nreturn x", "return x"),
    ("ImportFrom", "names", "from os import path\nreturn x", "return x"),
    ("ClassDef", "body", "class A:\n    pass\nreturn x", "return x"),
    ("AsyncFunctionDef", "body", "async def g(y: int) -> int:\n    return y\nreturn x", "return x"),
    ("Match", "cases", "match x:\n    case 1:\n        x = 2\nreturn x", "return x"),
    ("TypeAlias", "value", "type T = int\nreturn x", "return x"),
    ("Yield", "value", "yield x\nreturn x", "return x"),
    ("YieldFrom", "value", "yield from x\nreturn x", "return x"),
    ("Lambda", "body", "g = lambda y: y\nreturn x", "return x"),
    ("Dict", "keys", "d = {1: 2}\nreturn x", "return x"),
    ("Set", "elts", "d = {1, 2}\nreturn x", "return x"),
    ("JoinedStr", "values", "d = f'{x}'\nreturn x", "return x"),
    ("FormattedValue", "format_spec", "d = f'{x!r:>3}'\nreturn x", "return x"),
    ("DictComp", "generators", "d = {i: i for i in range(3)}\nreturn x", "return x"),
    ("SetComp", "generators", "d = {i for i in range(3)}\nreturn x", "return x"),
    ("GeneratorExp", "generators", "d = (i for i in range(3))\nreturn x", "return x"),
    ("GeneratorExp", "elt", "d = array(i for i in range(3))\nreturn d[0]", "d = array(i + 1 for i in range(3))\nreturn d[0]"),
    ("comprehension", "iter", "d = array(i for i in range(3))\nreturn d[0]", "d = array(i for i in range(4))\nreturn d[0]"),
    ("comprehension", "ifs", "d = array(i for i in range(5) if i > 2)\nreturn x", "d = array(i for i in range(5))\nreturn x"),
    ("comprehension", "target", "d = array(i for i, j in array((1, 2), (3, 4)))\nreturn d[0]", "d = array(i for j, i in array((1, 2), (3, 4)))\nreturn d[0]"),
    ("ListComp", "generators", "d = [i for i in range(3)]\nreturn x", "return x"),
    ("List", "elts", "d = [1, 2]\nreturn x", "return x"),
    ("NamedExpr", "value", "y = (z := x) + 1\nreturn y + z", "y = (z := 2) + 1\nreturn y + z"),
    ("NamedExpr", "target", "z = 5\nw = 6\ny = (z := x) + 1\nreturn z", "z = 5\nw = 6\ny = (w := x) + 1\nreturn z"),
    ("Compare", "comparators", "if 1 < x < 5:\n    return 1\nreturn 0", "if 1 < x:\n    return 1\nreturn 0"),
    ("Compare", "ops", "return 1 if x < 3 else 0", "return 1 if x > 3 else 0"),
    ("Compare", "ops", "return 1 if 1 < x <= 3 else 0", "return 1 if 1 < x < 3 else 0"),
    ("Compare", "left", "return 1 if x < 3 else 0", "return 1 if 2 < 3 else 0"),
    ("BoolOp", "op", "return 1 if b and x > 1 else 0", "return 1 if b or x > 1 else 0"),
    ("BoolOp", "values", "return 1 if b and x > 1 and x < 5 else 0", "return 1 if b and x > 1 else 0"),
    ("BinOp", "op", "return x + 2", "return x - 2"),
    ("BinOp", "left", "return x + 2", "return 1 + 2"),
    ("BinOp", "right", "return x + 2", "return x + 3"),
    ("UnaryOp", "op", "return -x", "return +x"),
    ("UnaryOp", "op", "return 1 if not b else 0", "return 1 if b else 0"),
    ("UnaryOp", "operand", "return -x", "return -(x + 1)"),
    ("IfExp", "test", "return 1 if b else 2", "return 1 if x > 1 else 2"),
    ("IfExp", "body", "return 1 if b else 2", "return 3 if b else 2"),
    ("IfExp", "orelse", "return 1 if b else 2", "return 1 if b else 3"),
    ("Constant", "value", "return 1", "return 2"),
    ("Constant", "value", "y = ...\nreturn x", "return x"),
    ("Constant", "value", "y = b'a'\nreturn x", "return x"),
    ("Constant", "value", "y = 1j\nreturn x", "return x"),
    ("Attribute", "attr", "s = S0(1, 2)\nreturn s.a", "s = S0(1, 2)\nreturn s.c"),
    ("Attribute", "value", "s = S0(1, 2)\nt = S0(3, 4)\nreturn s.a", "s = S0(1, 2)\nt = S0(3, 4)\nreturn t.a"),
    ("Subscript", "slice", "t = (1, 2)\nreturn t[0]", "t = (1, 2)\nreturn t[1]"),
    ("Subscript", "slice", "t = array(1, 2)\nreturn t[0]", "t = array(1, 2)\nreturn t[1]"),
    ("Subscript", "value", "t = (1, 2)\nu = (3, 4)\nreturn t[0]", "t = (1, 2)\nu = (3, 4)\nreturn u[0]"),
    ("Tuple", "elts", "t = (1, x)\nreturn t[0]", "t = (1, x, 2)\nreturn t[0]"),
    ("Name", "id", "y = 1\nreturn x", "y = 1\nreturn y"),
    # `ifs` lists of length >= 2 on one generator, several generators (every guard must reach the lowered program)
    ("comprehension", "ifs", "d = [i for i in range(5) if i > 1 if i < 4]\nreturn x", "d = [i for i in range(5) if i > 1]\nreturn x"),
    ("comprehension", "ifs", "d = [i for i in range(5) if i > 1 if g0(i) < 4]\nreturn x", "d = [i for i in range(5) if i > 1]\nreturn x"),
    ("comprehension", "ifs", "d = [i for i in range(5) if i > 1 if i < 4 if i != 3]\nreturn x", "d = [i for i in range(5) if i > 1 if i < 4]\nreturn x"),
    ("comprehension", "ifs", "d = [i for i in range(5) if i > 1 if i < 4]\nreturn x", "d = [i for i in range(5) if i > 1 if i < 3]\nreturn x"),
    ("comprehension", "ifs", "d = [i for i in range(5) if i > 1 if i < 4]\nreturn x", "d = [i for i in range(5) if i > 2 if i < 4]\nreturn x"),
    ("comprehension", "ifs", "d = [i + j for i in range(3) if i > 0 for j in range(3) if j > 0 if j < 2]\nreturn x", "d = [i + j for i in range(3) if i > 0 for j in range(3) if j > 0]\nreturn x"),
    ("comprehension", "ifs", "d = [i + j for i in range(3) if i > 0 if i < 2 for j in range(3) if j > 0]\nreturn x", "d = [i + j for i in range(3) if i > 0 for j in range(3) if j > 0]\nreturn x"),
    ("comprehension", "ifs", "d = [i + j for i in range(3) for j in range(3) if j > 0 if i < j]\nreturn x", "d = [i + j for i in range(3) for j in range(3) if j > 0]\nreturn x"),
    ("comprehension", "ifs", "d = [i + j for i in range(3) if i > 0 for j in range(3)]\nreturn x", "d = [i + j for i in range(3) for j in range(3)]\nreturn x"),
    ("comprehension", "ifs", "d = [[j for j in range(i) if j > 0 if j < 3] for i in range(4) if i > 1 if i < 3]\nreturn x", "d = [[j for j in range(i) if j > 0] for i in range(4) if i > 1 if i < 3]\nreturn x"),
    ("comprehension", "ifs", "d = [i for i in range(5) if x > 1 if b]\nreturn x", "d = [i for i in range(5) if x > 1]\nreturn x"),
    ("ListComp", "generators", "d = [i + j for i in range(3) for j in range(2)]\nreturn x", "d = [i + j for i in range(3)  for j in range(3)]\nreturn x"),
    # modifier items (`with <modifier call>:`): the call is consumed by CFGBuilder._handle_withitem
    ("Call", "keywords", "q0 = qubit()\nc0 = qubit()\nc1 = qubit()\nwith control(c0, extra=1):\n    h(q0)\ndiscard(q0)\ndiscard(c0)\ndiscard(c1)\nreturn x", "q0 = qubit()\nc0 = qubit()\nc1 = qubit()\nwith control(c0):\n    h(q0)\ndiscard(q0)\ndiscard(c0)\ndiscard(c1)\nreturn x"),
    ("Call", "keywords", "q0 = qubit()\nc0 = qubit()\nc1 = qubit()\nwith dagger(k=1):\n    h(q0)\ndiscard(q0)\ndiscard(c0)\ndiscard(c1)\nreturn x", "q0 = qubit()\nc0 = qubit()\nc1 = qubit()\nwith dagger():\n    h(q0)\ndiscard(q0)\ndiscard(c0)\ndiscard(c1)\nreturn x"),
    ("Call", "keywords", "q0 = qubit()\nc0 = qubit()\nc1 = qubit()\nwith power(2, k=1):\n    h(q0)\ndiscard(q0)\ndiscard(c0)\ndiscard(c1)\nreturn x", "q0 = qubit()\nc0 = qubit()\nc1 = qubit()\nwith power(2):\n    h(q0)\ndiscard(q0)\ndiscard(c0)\ndiscard(c1)\nreturn x"),
    ("Call", "keywords", "q0 = qubit()\nc0 = qubit()\nc1 = qubit()\nwith control(c0, **x):\n    h(q0)\ndiscard(q0)\ndiscard(c0)\ndiscard(c1)\nreturn x", "q0 = qubit()\nc0 = qubit()\nc1 = qubit()\nwith control(c0):\n    h(q0)\ndiscard(q0)\ndiscard(c0)\ndiscard(c1)\nreturn x"),
    ("Call", "args", "q0 = qubit()\nc0 = qubit()\nc1 = qubit()\nwith control(c0, c1):\n    h(q0)\ndiscard(q0)\ndiscard(c0)\ndiscard(c1)\nreturn x", "q0 = qubit()\nc0 = qubit()\nc1 = qubit()\nwith control(c0):\n    h(q0)\ndiscard(q0)\ndiscard(c0)\ndiscard(c1)\nreturn x"),
    ("Call", "args", "q0 = qubit()\nc0 = qubit()\nc1 = qubit()\nwith control(c0):\n    h(q0)\ndiscard(q0)\ndiscard(c0)\ndiscard(c1)\nreturn x", "q0 = qubit()\nc0 = qubit()\nc1 = qubit()\nwith control(c1):\n    h(q0)\ndiscard(q0)\ndiscard(c0)\ndiscard(c1)\nreturn x"),
    ("Call", "args", "q0 = qubit()\nc0 = qubit()\nc1 = qubit()\nwith power(2):\n    h(q0)\ndiscard(q0)\ndiscard(c0)\ndiscard(c1)\nreturn x", "q0 = qubit()\nc0 = qubit()\nc1 = qubit()\nwith power(3):\n    h(q0)\ndiscard(q0)\ndiscard(c0)\ndiscard(c1)\nreturn x"),
    ("Call", "args", "q0 = qubit()\nc0 = qubit()\nc1 = qubit()\nwith dagger(1):\n    h(q0)\ndiscard(q0)\ndiscard(c0)\ndiscard(c1)\nreturn x", "q0 = qubit()\nc0 = qubit()\nc1 = qubit()\nwith dagger():\n    h(q0)\ndiscard(q0)\ndiscard(c0)\ndiscard(c1)\nreturn x"),
    ("Call", "func", "q0 = qubit()\nc0 = qubit()\nc1 = qubit()\nwith dagger():\n    h(q0)\ndiscard(q0)\ndiscard(c0)\ndiscard(c1)\nreturn x", "q0 = qubit()\nc0 = qubit()\nc1 = qubit()\nwith power(1):\n    h(q0)\ndiscard(q0)\ndiscard(c0)\ndiscard(c1)\nreturn x"),
    ("Starred", "value", "q0 = qubit()\nc0 = qubit()\nc1 = qubit()\nwith control(*c0):\n    h(q0)\ndiscard(q0)\ndiscard(c0)\ndiscard(c1)\nreturn x", "q0 = qubit()\nc0 = qubit()\nc1 = qubit()\nwith control(c0):\n    h(q0)\ndiscard(q0)\ndiscard(c0)\ndiscard(c1)\nreturn x"),
    ("With", "items", "q0 = qubit()\nc0 = qubit()\nc1 = qubit()\nwith control(c0), dagger:\n    h(q0)\ndiscard(q0)\ndiscard(c0)\ndiscard(c1)\nreturn x", "q0 = qubit()\nc0 = qubit()\nc1 = qubit()\nwith control(c0):\n    h(q0)\ndiscard(q0)\ndiscard(c0)\ndiscard(c1)\nreturn x"),
    ("With", "items", "q0 = qubit()\nc0 = qubit()\nc1 = qubit()\nwith dagger:\n    h(q0)\ndiscard(q0)\ndiscard(c0)\ndiscard(c1)\nreturn x", "q0 = qubit()\nc0 = qubit()\nc1 = qubit()\nwith power(1):\n    h(q0)\ndiscard(q0)\ndiscard(c0)\ndiscard(c1)\nreturn x"),
    ("withitem", "optional_vars", "q0 = qubit()\nc0 = qubit()\nc1 = qubit()\nwith dagger as d:\n    h(q0)\ndiscard(q0)\ndiscard(c0)\ndiscard(c1)\nreturn x", "q0 = qubit()\nc0 = qubit()\nc1 = qubit()\nwith dagger:\n    h(q0)\ndiscard(q0)\ndiscard(c0)\ndiscard(c1)\nreturn x"),
    ("withitem", "context_expr", "q0 = qubit()\nc0 = qubit()\nc1 = qubit()\nwith control(c0):\n    h(q0)\ndiscard(q0)\ndiscard(c0)\ndiscard(c1)\nreturn x", "q0 = qubit()\nc0 = qubit()\nc1 = qubit()\nwith control(c1):\n    h(q0)\ndiscard(q0)\ndiscard(c0)\ndiscard(c1)\nreturn x"),
]

PRELUDE_EXTRA = (
    "power = dagger = control = 0\n"
    "from guppylang.std.quantum import qubit, h, discard\n"
    "def deco(fn):\n    return fn\n"
    "@guppy\ndef g0(y: int) -> int:\n    return y\n"
    "@guppy\ndef g1(y: int) -> int:\n    return y + 1\n"
    "@guppy.struct\nclass S0:\n    a: int\n    c: int\n"
)

# contexts the probe body is embedded in (thorough tier: all; quick: plain + one random other)
CONTEXTS = {
    "plain": lambda body: body,
    "in_if": lambda body: "if x > 100:\n" + _ind(body) + "\nreturn x",
    "in_else": lambda body: "if x > 100:\n    pass\nelse:\n" + _ind(body) + "\nreturn x",
    "in_while": lambda body: "while x > 100:\n" + _ind(body) + "\nreturn x",
    "in_for": lambda body: "for _k in range(2):\n" + _ind(body) + "\nreturn x",
    "in_nested_def": lambda body: "def outer(x: int, b: bool) -> int:\n" + _ind(body) + "\nreturn outer(x, b)",
}


def _ind(s):
    return "\n".join("    " + l for l in s.split("\n"))


def _compile(body):
    """Check + lower `body` with the real compiler.  -> (outcome, detail) with outcome in
    ok | user | crash | pysyntax ; detail = canonical Hugr text / error class"""
    import feed

    src = PRELUDE_EXTRA + "@guppy\ndef f(x: int, b: bool) -> int:\n" + _ind(body) + "\n"
    try:
        m = feed.load(src)
    except SyntaxError as e:
        return ("pysyntax", str(e).split("(")[0].strip())
    except BaseException as e:  # noqa: BLE001
        return ("crash", "load:" + type(e).__name__)
    try:
        o, e = feed.check_outcome(m.f)
        if o != "ok":
            return (o, feed.err_class(e))
        try:
            g = feed.lower(m.f)
        except BaseException as e:  # noqa: BLE001
            return ("crash", "lower:" + type(e).__name__ + ":" + str(e)[:80])
        return ("ok", _canon(g))
    finally:
        feed.unload(m)


def _canon(g):
    """canonical text of the lowered Hugr: node ops (with their static data), hierarchy and wiring;
    node ids are positions in creation order, which is a function of the program alone"""
    import feed

    h = g.hugr
    parts = []
    for n in h:
        d = h[n]
        parts.append(f"{n.idx}^{d.parent.idx if d.parent is not None else -1}:{feed.op_name(d.op)}:{d.op!r}")
    links = sorted(f"{a.node.idx}.{a.offset}>{b.node.idx}.{b.offset}" for a, b in h.links())
    import re as _re

    # definition ids are session counters (they appear in the names of lifted with-blocks / nested functions)
    return _re.sub(r"DefId\(id=\d+\)", "DefId(#)", "\n".join(parts)) + "\n" + " ".join(links)


def _classify(with_body, base_body):
    ow, dw = _compile(with_body)
    if ow == "ok":
        if base_body is None:
            return "accepted", dw
        ob, db = _compile(base_body)
        if ob != "ok":
            return "accepted-nobase", f"base:{ob}:{db}"
        return ("same" if dw == db else "differs"), ""
    if ow == "user":
        return "rejected", dw
    return ow, dw  # crash | pysyntax


# ---------------------------------------------------------------------- must-reject probes
# Second dimension: a construct that *looks at* its operand must notice an ill-formed operand.
# HOSTS: every statement / expression position with a hole `@` for an operand of type int (`i`) or bool (`b`).
# The host with a well-formed operand (`x` / `b`) must be ACCEPTED (otherwise the probe is vacuous and is
# only counted); with each ill-formed operand it must be REJECTED — "accepted" is the failing input.
HOSTS = [
    ("Expr.value", "i", "@\nreturn x"),
    ("Expr.value(bool)", "b", "@\nreturn x"),
    ("Expr.value(paren)", "i", "(@)\nreturn x"),
    ("Assign.value", "i", "w = @\nreturn x"),
    ("Assign.value(tuple)", "i", "w, v = @, 1\nreturn x"),
    ("AugAssign.value", "i", "x += @\nreturn x"),
    ("AugAssign.target", "i", "@ += 1\nreturn x"),
    ("AnnAssign.value", "i", "w: int = @\nreturn x"),
    ("Return.value", "i", "return @"),
    ("If.test", "b", "if @:\n    x = 1\nreturn x"),
    ("While.test", "b", "while @:\n    return 1\nreturn x"),
    ("For.iter", "i", "for _i in range(@):\n    x += 1\nreturn x"),
    ("IfExp.test", "b", "w = 1 if @ else 2\nreturn x"),
    ("IfExp.body", "i", "w = @ if b else 2\nreturn x"),
    ("IfExp.orelse", "i", "w = 1 if b else @\nreturn x"),
    ("IfExp.stmt", "i", "@ if b else 2\nreturn x"),
    ("BoolOp.values0", "b", "w = @ and b\nreturn x"),
    ("BoolOp.values1", "b", "w = b or @\nreturn x"),
    ("BoolOp.stmt", "b", "b and @\nreturn x"),
    ("UnaryOp.not", "b", "w = not @\nreturn x"),
    ("UnaryOp.neg", "i", "w = -@\nreturn x"),
    ("UnaryOp.stmt", "i", "-@\nreturn x"),
    ("BinOp.left", "i", "w = @ + 1\nreturn x"),
    ("BinOp.right", "i", "w = 1 + @\nreturn x"),
    ("BinOp.stmt", "i", "1 + @\nreturn x"),
    ("Compare.left", "i", "w = @ < 1\nreturn x"),
    ("Compare.right", "i", "w = 1 < @\nreturn x"),
    ("Compare.chain", "i", "w = 0 < x < @\nreturn x"),
    ("Call.args", "i", "w = g0(@)\nreturn x"),
    ("Call.args(stmt)", "i", "g0(@)\nreturn x"),
    ("Call.func", "f", "w = @(1)\nreturn x"),
    ("Tuple.elts", "i", "w = (1, @)\nreturn x"),
    ("Tuple.stmt", "i", "(1, @)\nreturn x"),
    ("Subscript.value", "t", "w = @[0]\nreturn x"),
    ("Subscript.slice", "i", "t0 = array(1, 2)\nw = t0[@]\nreturn x"),
    ("Attribute.value", "s", "w = @.a\nreturn x"),
    ("NamedExpr.value", "i", "w = (v := @) + 1\nreturn x"),
    ("GeneratorExp.iter", "r", "w = array(k for k in @)\nreturn x"),
    ("GeneratorExp.elt", "i", "w = array(@ for k in range(3))\nreturn x"),
    ("FunctionDef.body", "y", "def inner(y: int) -> int:\n    @\n    return y\nreturn inner(x)"),
    ("FunctionDef.body(value)", "y", "def inner(y: int) -> int:\n    return @ + 1\nreturn inner(x)"),
    ("comptime arg", "c", "w = comptime(@)\nreturn x"),
]
GOOD = {"r": "range(3)", "y": "y", "i": "x", "b": "b", "f": "g0", "t": "(x, x)", "s": "S0(1, 2)", "c": "GLOBAL_C"}
# ill-formed operands: (name, statements placed before the host, operand text)
ILL = [
    ("undefined", "", "not_defined_anywhere"),
    ("defined-later", "", "later_v"),          # + `later_v = 1` appended after the host
    ("maybe-undefined", "if b:\n    maybe_v = 1", "maybe_v"),
]
# linear operand that has already been consumed: hosts with a qubit hole
LINEAR_HOSTS = [
    ("Expr.value", "@"),
    ("Call.args(borrow)", "h(@)"),
    ("Assign.value", "w = @\ndiscard(w)"),
    ("Tuple.elts", "w = (@, 1)\ndiscard(w[0])"),
]
MR_PRELUDE = "from guppylang.std.quantum import qubit, h, discard\nGLOBAL_C = 3\n"


def _mr_compile(sig, ret, body):
    import feed

    src = PRELUDE_EXTRA + MR_PRELUDE + f"@guppy\ndef f({sig}) -> {ret}:\n" + _ind(body) + "\n"
    try:
        m = feed.load(src)
    except SyntaxError as e:
        return "pysyntax", str(e)[:60]
    try:
        o, e = feed.check_outcome(m.f)
        return ("accepted", "") if o == "ok" else (("rejected" if o == "user" else "crash"), feed.err_class(e))
    finally:
        feed.unload(m)


def must_reject_cases(ctx):
    cases = []
    for name, ty, host in HOSTS:
        good = host.replace("@", GOOD[ty])
        for ill, pre, operand in ILL:
            body = (pre + "\n" if pre else "") + host.replace("@", operand)
            if ill == "defined-later":
                # define the name right after the (top-level) statement that contains the hole
                lines = body.split("\n")
                k = max(i for i, l in enumerate(lines) if operand in l)
                while k > 0 and lines[k].startswith(" "):
                    k -= 1          # top-level statement the hole belongs to
                if lines[k].startswith("return"):
                    continue        # nothing executes after it
                j = k + 1
                while j < len(lines) and lines[j].startswith(" "):
                    j += 1
                lines.insert(j, f"{operand} = 1")
                body = "\n".join(lines)
            cases.append((name, ill, "x: int, b: bool", "int", good, body))
    for name, host in LINEAR_HOSTS:
        good = host.replace("@", "q") + ("\ndiscard(q)" if "discard(w" not in host else "")
        bad = "discard(q)\n" + host.replace("@", "q")
        cases.append((name, "consumed-linear", "q: qubit @owned", "None", good, bad))
    return cases


def tie_must_reject(ctx):
    good_seen = {}
    for name, ill, sig, ret, good, bad in must_reject_cases(ctx):
        gk = (sig, good)
        if gk not in good_seen:
            good_seen[gk] = _mr_compile(sig, ret, good)
        g, gd = good_seen[gk]
        r, rd = _mr_compile(sig, ret, bad)
        ctx.count(["must-reject", name, ill, bad], nontrivial=(g == "accepted"), kind=f"mustreject:{ill}:{'vacuous-' if g != 'accepted' else ''}{r}")
        rep = {"host": name, "ill": ill, "sig": sig, "ret": ret, "with": bad, "good": good, "good_outcome": [g, gd], "real": r, "detail": rd}
        key = f"mustreject:{name}:{ill}:{bad!r}"
        if r == "accepted":
            ctx.violation(key, f"{name}: operand `{ill}` is silently accepted (the construct never looked at it): `{bad}`", rep)
        elif r == "crash":
            ctx.violation(key, f"{name}: operand `{ill}` crashes the compiler ({rd}) on `{bad}`", rep)


# ---------------------------------------------------------------------- expression clauses x expression contexts
# Every expression-level clause probe as a pair of int-valued expressions (with clause / base), embedded in every
# position an expression can occupy — in particular the ones that do not pass through `ExprBuilder` on the way to
# the checker (comprehension element / iterable / filters, nested comprehensions, subscript-assignment targets,
# with-items) — so a rejection or a handling that lives in only one stage of the pipeline is seen to be missing.
EXPR_CLAUSES = [
    ("Call", "keywords", "g0(x, y=1)", "g0(x)"),
    ("Call", "keywords", "g0(y=x)", "g0(x)"),
    ("Call", "keywords", "g0(x, **x)", "g0(x)"),
    ("Call", "keywords", "g0(g0(x, y=1))", "g0(g0(x))"),
    ("Call", "keywords", "int(x, base=3)", "int(x)"),
    ("Call", "keywords", "comptime(1, k=2)", "comptime(1)"),
    ("Call", "keywords", "S0(1, 2, c=3).a", "S0(1, 2).a"),
    ("Call", "args", "g0(x)", "g0(1)"),
    ("Call", "func", "g0(x)", "g1(x)"),
    ("Starred", "value", "g0(*(x,))", "g0(x)"),
    ("BinOp", "op", "x + 2", "x - 2"),
    ("BinOp", "right", "x + 2", "x + 3"),
    ("UnaryOp", "op", "-x", "+x"),
    ("Subscript", "slice", "(x, 2)[0]", "(x, 2)[1]"),
    ("Slice", "lower", "array(x, 2, 3)[0:2][0]", "array(x, 2, 3)[0]"),
    ("Attribute", "attr", "S0(x, 2).a", "S0(x, 2).c"),
    ("Constant", "value", "1", "2"),
    ("Name", "id", "x", "x2"),
    ("Lambda", "body", "(lambda: 1)()", "1"),
    ("Dict", "keys", "len({1: 2})", "1"),
    ("JoinedStr", "values", "len(f'{x}')", "1"),
    ("Yield", "value", "(yield x)", "x"),
]
EXPR_CONTEXTS = {
    "assign": "w = @\nreturn w",
    "return": "return @",
    "call-arg": "return g0(@)",
    "if-test": "if @ > 0:\n    x = 1\nreturn x",
    "for-iter": "for k in range(@):\n    x += 1\nreturn x",
    "list-elt": "w = [@ for k in range(3)]\nreturn x",
    "list-iter": "w = [k for k in range(@)]\nreturn x",
    "list-filter": "w = [k for k in range(3) if @ > 0]\nreturn x",
    "list-filter-2nd": "w = [k for k in range(3) if k > 0 if @ > 0]\nreturn x",
    "nested-comp-filter": "w = [j for k in range(3) for j in range(k) if @ > j]\nreturn x",
    "nested-comp-iter": "w = [j for k in range(3) for j in range(@)]\nreturn x",
    "nested-comp-elt": "w = [[@ for j in range(2)] for k in range(3)]\nreturn x",
    "array-elt": "w = array(@ for k in range(3))\nreturn x",
    "subscript-target-index": "t0 = array(1, 2, 3)\nt0[@] = 5\nreturn x",
    "subscript-target-value": "t0 = array(1, 2, 3)\nt0[0] = @\nreturn x",
    "augassign-target-index": "t0 = array(1, 2, 3)\nt0[@] += 1\nreturn x",
    "with-item-arg": "q0 = qubit()\nwith power(nat(@)):\n    h(q0)\ndiscard(q0)\nreturn x",
    "tuple-elt": "w = (1, @)\nreturn w[1]",
    "ifexp-branch": "w = @ if b else 0\nreturn w",
    "boolop-operand": "w = b and @ > 0\nreturn x",
    "default-arg": "def inner(y: int = @) -> int:\n    return y\nreturn x",
}


def _ec_body(tmpl, e):
    return "x2 = 7\n" + tmpl.replace("@", e)


def tie_expr_contexts(ctx):
    rng = ctx.rng
    names = list(EXPR_CONTEXTS)
    keys = sorted({(k, f) for k, f, _w, _b in EXPR_CLAUSES})
    _ensure_gen(ctx)
    model = dict(zip(keys, ctx.driver("C32", [f"disp {k} {f}" for k, f in keys])))
    base_ok = {}
    for k, f, w, b in EXPR_CLAUSES:
        if ctx.quick and (k, f) != ("Call", "keywords"):
            cs = ["list-filter", "list-filter-2nd", "nested-comp-filter"] + rng.sample(names, 2)
        else:
            cs = names
        for c in dict.fromkeys(cs):
            tmpl = EXPR_CONTEXTS[c]
            bb, wb = _ec_body(tmpl, b), _ec_body(tmpl, w)
            if bb not in base_ok:
                base_ok[bb] = _compile(bb)
            bo, bd = base_ok[bb]
            if bo != "ok":
                ctx.count(["exprctx", k, f, c, w], nontrivial=False, kind=f"exprctx:{c}:vacuous")
                continue
            wo, wd = _compile(wb)
            real = {"user": "rejected", "ok": ("same" if wd == bd else "differs")}.get(wo, wo)
            m = model[(k, f)].split(" ")[0]
            ctx.count(["exprctx", k, f, c, w], nontrivial=True, kind=f"exprctx:{c}:{real}")
            rep = {"kind": k, "field": f, "with": wb, "base": bb, "context": "expr:" + c, "real": real, "detail": wd if wo != "ok" else "", "model": m}
            key = f"exprctx:{k}.{f}:{c}:{w!r}"
            if real == "same":
                ctx.violation(key, f"{k}.{f} in position `{c}` is accepted and silently dropped: `{w}` lowers like `{b}` in\n{wb}", rep)
            elif real == "crash":
                ctx.violation(key, f"{k}.{f} in position `{c}`: the compiler crashes ({wd}) on\n{wb}", rep)
            if m in ("rejected", "nodeRejected", "unreachable") and real not in ("rejected", "pysyntax"):
                ctx.broke(f"static table says {k}.{f} is {m} but in position `{c}` the real compiler gives `{real}` on `{w}`")


# ---------------------------------------------------------------------- jump statements inside blocks
# return / break / continue at every nesting (directly, under if / else, inside a for / while loop, inside a nested
# with-block, inside a nested function) within modifier blocks and nested functions.  Oracle: a jump that would leave
# the block (its target — the function for `return`, the loop for `break` / `continue` — lies outside the block)
# cannot be given Python's meaning and must be REJECTED; a jump whose target lies inside the block is legal: the
# program must be ACCEPTED and the jump must take effect (lowered Hugr differs from the same program with `pass`).
JUMP_WRAPS = {
    # name: (template with @ for the jump, provides an inner loop?, provides an inner function?)
    "direct": ("h(q)\n@", False, False),
    "under-if": ("if b:\n    @\nh(q)", False, False),
    "under-else": ("if b:\n    h(q)\nelse:\n    @", False, False),
    "in-for": ("for i in range(n):\n    h(q)\n    @\n    h(q)", True, False),
    "in-for-under-if": ("for i in range(n):\n    if i == 2:\n        @\n    h(q)", True, False),
    "in-while": ("i = 0\nwhile i < n:\n    i += 1\n    @\n    h(q)", True, False),
    "in-while-in-for-under-if": ("for i in range(n):\n    j = 0\n    while j < i:\n        j += 1\n        if b:\n            @\n    h(q)", True, False),
    "after-loop": ("for i in range(n):\n    h(q)\n@", False, False),
    "in-nested-with": ("with dagger:\n    h(q)\n    @", False, False),
    "in-loop-in-nested-with": ("with control(c):\n    for i in range(n):\n        @\n        h(q)", True, False),
    "in-nested-def": ("def inner(k: int) -> None:\n    @\n    k2 = k + 1\ninner(n)", False, True),
    "in-loop-in-nested-def": ("def inner(k: int) -> None:\n    for i in range(k):\n        @\n        k2 = k + i\ninner(n)", True, True),
}
JUMP_HOSTS = {
    "with-control": "with control(c):\n@",
    "with-power": "with power(2):\n@",
    "with-dagger": "with dagger:\n@",
    "with-two-items": "with control(c), dagger:\n@",
}
JUMP_PRELUDE = "from guppylang.std.quantum import qubit, h, discard\npower = dagger = control = 0\n"


def _jump_compile(body):
    import feed

    src = feed.PRELUDE + JUMP_PRELUDE + "@guppy\ndef f(q: qubit, c: qubit, n: int, b: bool) -> None:\n" + _ind(body) + "\n"
    try:
        m = feed.load(src, prelude="")
    except SyntaxError as e:
        return "pysyntax", str(e)[:60]
    try:
        o, e = feed.check_outcome(m.f)
        if o != "ok":
            return ("rejected" if o == "user" else "crash"), feed.err_class(e)
        try:
            return "ok", _canon(feed.lower(m.f))
        except BaseException as e:  # noqa: BLE001
            return "crash", "lower:" + type(e).__name__ + ":" + str(e)[:80]
    finally:
        feed.unload(m)


def jump_cases():
    cases = []
    for hname, host in JUMP_HOSTS.items():
        for wname, (tmpl, inner_loop, inner_def) in JUMP_WRAPS.items():
            for jump in ("return", "break", "continue"):
                if jump == "return":
                    escapes = not inner_def
                    outer = "{}"
                else:
                    escapes = not inner_loop
                    outer = "for _o in range(n):\n{}"      # a loop outside the block for break / continue to aim at
                def build(j):
                    inner = tmpl.replace("@", j)
                    blk = host.replace("@", _ind(inner))
                    return outer.format(_ind(blk)) if outer != "{}" else blk
                cases.append((hname, wname, jump, escapes, build(jump), build("pass")))
    return cases


def tie_jumps(ctx):
    for hname, wname, jump, escapes, body, base in jump_cases():
        if ctx.quick and hname not in ("with-control", "with-power"):
            continue
        r, d = _jump_compile(body)
        key = f"jump:{hname}:{wname}:{jump}"
        rep = {"host": hname, "wrap": wname, "jump": jump, "escapes_block": escapes, "with": body, "base": base, "real": r, "detail": d if r != "ok" else ""}
        if r == "crash":
            ctx.count(["jump", hname, wname, jump], nontrivial=True, kind="jump:crash")
            ctx.violation(key, f"`{jump}` ({wname}) inside `{hname}`: the compiler crashes ({d}) on\n{body}", rep)
            continue
        if escapes:
            ctx.count(["jump", hname, wname, jump], nontrivial=True, kind=f"jump:escaping:{r}")
            if r == "ok":
                ctx.violation(key, f"`{jump}` ({wname}) would leave the `{hname}` block, which cannot behave as in Python, but the program is accepted:\n{body}", rep)
        else:
            if r == "ok":
                rb, db = _jump_compile(base)
                same = rb == "ok" and db == d
                ctx.count(["jump", hname, wname, jump], nontrivial=True, kind="jump:inner:" + ("same" if same else "differs"))
                if same:
                    ctx.violation(key, f"`{jump}` ({wname}) inside `{hname}` is accepted but has no effect (same Hugr as with `pass`):\n{body}", rep)
            else:
                # a legal program rejected is not a C32 failure (nothing is dropped); recorded in the distribution
                ctx.count(["jump", hname, wname, jump], nontrivial=False, kind=f"jump:inner:{r}:{d}")


# ---------------------------------------------------------------------- loop `else` semantics (Python execution = oracle)
# "accepted ⇒ takes effect as in Python": nested loops with `else` clauses and a jump at every position (outer body,
# inner body, inner else — a `break` there leaves the OUTER loop —, outer else), a variable that only the outer
# `else` assigns.  The program is executed by CPython for n = 0..3 (value, or UnboundLocalError); if the real compiler
# accepts it, the lowered Hugr is run by the reference interpreter (harness/hugr_interp.py) on the same inputs.
def loop_else_programs():
    progs = []
    for outer_else in (False, True):
        for inner_kind in ("while", "for"):
            for inner_else in (False, True):
                for jump in ("break", "continue"):
                    for pos in ("none", "outer-body-if", "inner-body-if", "inner-else", "inner-else-if", "outer-else-if"):
                        if pos.startswith("inner-else") and not inner_else:
                            continue
                        if pos == "outer-else-if" and (not outer_else or jump == "continue"):
                            continue   # a jump in the outer else has no loop to aim at (SyntaxError) unless wrapped
                        if pos == "none" and jump == "continue":
                            continue
                        for use_z in ((False, True) if outer_else else (False,)):
                            L = ["r = 0", "i = 0", "while i < 2:", "    i += 1", "    r = r * 10 + 1"]
                            if pos == "outer-body-if":
                                L += ["    if n == i:", f"        {jump}"]
                            if inner_kind == "while":
                                L += ["    j = 0", "    while j < 2:", "        j += 1"]
                            else:
                                L += ["    for j in range(1, 3):"]
                            L += ["        r = r * 10 + 2"]
                            if pos == "inner-body-if":
                                L += ["        if n == j:", f"            {jump}"]
                            if inner_else:
                                L += ["    else:", "        r = r * 10 + 3"]
                                if pos == "inner-else":
                                    L += [f"        {jump}"]
                                elif pos == "inner-else-if":
                                    L += ["        if n == i:", f"            {jump}"]
                            L += ["    r = r * 10 + 4"]
                            if outer_else:
                                L += ["else:", "    r = r * 10 + 5"]
                                if use_z:
                                    L += ["    z = 7"]
                            if pos == "outer-else-if":
                                # wrap everything in one more loop so that the jump has a target
                                L = ["k = 0", "while k < 1:", "    k += 1"] + ["    " + l for l in L] + ["        if n == 1:", f"            {jump}"]
                                L += ["    r = r * 10 + 6"]
                            L += ["return r + z" if use_z else "return r"]
                            progs.append(("/".join([f"outer_else={int(outer_else)}", inner_kind, f"inner_else={int(inner_else)}", jump, pos, f"z={int(use_z)}"]), "\n".join(L)))
    return progs


def _py_run(body, n):
    env = {}
    try:
        exec("def f(n):\n" + _ind(body) + "\n", env)   # noqa: S102 - generated by this harness
        return ("value", env["f"](n))
    except UnboundLocalError:
        return ("unbound", None)
    except SyntaxError as e:
        return ("pysyntax", str(e)[:40])


def tie_loop_else(ctx):
    import feed
    import hugr_interp as hi

    for name, body in loop_else_programs():
        py = [_py_run(body, n) for n in range(4)]
        if py[0][0] == "pysyntax":
            continue
        src = "@guppy\ndef f(n: int) -> int:\n" + _ind(body) + "\n"
        m = feed.load(src)
        try:
            o, e = feed.check_outcome(m.f)
            if o != "ok":
                kind = "rejected" if o == "user" else "crash"
                ctx.count(["loop-else", name], nontrivial=False, kind=f"loopelse:{kind}:{feed.err_class(e)}")
                if kind == "crash":
                    ctx.violation("loopelse:" + name, f"compiler crash ({feed.err_class(e)}) on\n{body}", {"name": name, "body": body})
                continue
            try:
                g = feed.lower(m.f)
            except BaseException as ex:  # noqa: BLE001
                ctx.violation("loopelse:" + name, f"lowering crashes ({type(ex).__name__}: {str(ex)[:80]}) on\n{body}", {"name": name, "body": body})
                continue
            bad = None
            for n, (pk, pv) in enumerate(py):
                if pk == "unbound":
                    bad = f"accepted, but for n={n} Python raises UnboundLocalError (a clause that Python skips is treated as executed)"
                    break
                try:
                    res = hi.run(g.hugr, "f", [n])
                except hi.Unsupported:
                    continue
                except BaseException as ex:  # noqa: BLE001
                    bad = f"interpreter failure for n={n}: {type(ex).__name__} {str(ex)[:60]}"
                    break
                if res.status != "value" or res.value != pv:
                    bad = f"for n={n} the compiled function gives {res.status}:{res.value}, Python gives {pv}"
                    break
            ctx.count(["loop-else", name], nontrivial=True, kind="loopelse:accepted:" + ("DIFF" if bad else "agrees"))
            if bad:
                ctx.violation("loopelse:" + name, f"loop `else` / jump not given Python's meaning ({name}): {bad}\n{body}",
                              {"name": name, "body": body, "python": py, "why": bad})
        finally:
            feed.unload(m)


def tie(ctx):
    import guppylang

    guppylang.enable_experimental_features()   # lists, modifiers: otherwise those positions are unreachable
    rng = ctx.rng
    cases = []
    corpus = os.path.join(vlib.VERIF, "corpus", "c32")
    if os.path.isdir(corpus):
        for fn in sorted(os.listdir(corpus)):
            for r in json.load(open(os.path.join(corpus, fn))):
                cases.append((r["kind"], r["field"], r["with"], r.get("base"), "corpus"))
    if ctx.replay_in and "with" in ctx.replay_in.get("replay", {}):
        r = ctx.replay_in["replay"]
        cases.append((r["kind"], r["field"], r["with"], r.get("base"), "replay"))
    names = list(CONTEXTS)
    for k, f, w, b in PROBES:
        ctxs = names if not ctx.quick else ["plain", rng.choice(names[1:])]
        for c in ctxs:
            wrap = CONTEXTS[c]
            cases.append((k, f, wrap(w), wrap(b) if b is not None else None, c))
    # model dispositions from the regenerated table
    keys = sorted({(k, f) for k, f, *_ in cases})
    _ensure_gen(ctx)
    replies = ctx.driver("C32", [f"disp {k} {f}" for k, f in keys])
    model = dict(zip(keys, replies))
    seen = set()
    for k, f, w, b, c in cases:
        if (w, b) in seen:
            continue
        seen.add((w, b))
        m = model[(k, f)].split(" ")[0]
        real, detail = _classify(w, b)
        key = f"probe:{k}.{f}:{c}:{w!r}"
        ctx.count([k, f, c, w], nontrivial=real in ("differs", "same", "accepted"), kind=f"{m}:{real}")
        rep = {"kind": k, "field": f, "with": w, "base": b, "context": c, "real": real, "detail": detail, "model": m}
        # oracle: the property's literal reading — an accepted clause must change the lowered program
        if real == "same":
            ctx.violation(key, f"{k}.{f} is accepted and silently dropped: `{w}` lowers to the same Hugr as `{b}`", rep)
        elif real == "crash":
            ctx.violation(key, f"{k}.{f}: the compiler crashes ({detail}) instead of rejecting or compiling `{w}`", rep)
        # model (static table) vs real
        if m in ("rejected", "nodeRejected", "unreachable") and real not in ("rejected", "pysyntax"):
            ctx.broke(f"static table says {k}.{f} is {m} but the real compiler gives `{real}` on `{w}`")
        if m == "ignored" and real == "differs":
            ctx.broke(f"static table says {k}.{f} is ignored but the clause changes the lowered Hugr of `{w}`")
        if m == "unknown":
            ctx.broke(f"probe names unknown grammar position {k}.{f}")
    ctx.extra["probe_kinds"] = len(keys)
    if not getattr(ctx, "_c32_mr_done", False):
        ctx._c32_mr_done = True
        tie_must_reject(ctx)
        tie_expr_contexts(ctx)
        tie_jumps(ctx)
        tie_loop_else(ctx)


def search(ctx, why):
    """A theorem broke (a semantic field shows up as ignored in the table): the probes of that field
    are the failing-input search; tie() has already run them in `plain` + one context — run the rest."""
    if ctx.quick:
        ctx.tier, ctx.quick = "thorough", False
        tie(ctx)


if __name__ == "__main__":
    vlib.main(sys.modules[__name__])
